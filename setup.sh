#!/bin/sh
# Build the verification framework from files on disk only (offline).
set -e
cd "$(dirname "$0")"
export CARGO_NET_OFFLINE=true
python3 gen/s4gen.py >/dev/null || true
# every property module (and so every model and lemma file), so that no check pays for a first Lean build
(cd lean && lake build $(ls S4V/Props/*.lean | sed 's#/#.#g; s#\.lean$##') || echo "setup: some property modules failed to build (their checks will report it)")
(cd lean && for t in S4V drv drv_walk drv_print drv_cli drv_boxp drv_stream drv_time drv_patsel drv_frender drv_regex drv_layout drv_srch drv_jrender drv_wproto drv_tarm drv_fwalk drv_summ drv_cap drv_memgeo drv_regexe2e drv_lskel drv_evtxr drv_gskel drv_cskel drv_gskel drv_evtxr drv_lskel drv_jskel drv_wskel; do lake build $t || echo "setup: lake build $t failed (its checks will report it)"; done)
python3 - <<'PY'
import sys
sys.path.insert(0, '.')
from vlib import core
c = core.Ctx('setup', 'quick', 1)
ok = core.step_build_impl(c, need_s4=True, need_harness=True)
print('impl build', ok, c.steps)
sys.exit(0 if ok else 1)
PY
