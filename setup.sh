#!/bin/sh
# Build the verification framework from files on disk only (offline).
set -e
cd "$(dirname "$0")"
export CARGO_NET_OFFLINE=true
python3 gen/s4gen.py >/dev/null || true
(cd lean && lake build S4V drv)
python3 - <<'PY'
import sys
sys.path.insert(0, '.')
from vlib import core
c = core.Ctx('setup', 'quick', 1)
ok = core.step_build_impl(c, need_s4=True, need_harness=True)
print('impl build', ok, c.steps)
sys.exit(0 if ok else 1)
PY
