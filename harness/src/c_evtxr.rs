//! component `evtxr` — the REAL `EvtxReader` (`new` + `analyze` + `next()` until `None` + `summary()` /
//! `summary_complete()`, i.e. what `exec_evtxprocessor` of src/bin/s4.rs does with it) against the model
//! `S4V.Model.EvtxReader`.
//!
//! Test files are built from the shipped sample
//! `$S4_REPO/logs/programs/evtx/Microsoft-Windows-Kernel-PnP%4Configuration.evtx` (3 chunks, 227 records):
//! record FILETIMEs patched (ties, disorder), header record ids patched among tied records, chunk CRCs left
//! stale / recomputed / clobbered, records torn (magic, body, zero fill to the chunk end, `free_space_offset`
//! pulled back), chunks swapped / duplicated / zeroed / magic clobbered, files truncated at and next to chunk
//! boundaries and inside the file header; windows on, one tick (100 ns) beside, and between record times; the
//! window datetimes carry several fixed offsets.
//!
//! request  evtxr <after ns|n> <before ns|n> <file>
//!          <file> = `!` (the file header is unreadable: `EvtxParser::from_path` fails)
//!                 | `-` (no chunk) | chunk(`;`chunk)*
//!          chunk  = <crcOk 0|1>`:`item(`,`item)*   |  <crcOk>`:`        (no item)
//!          item   = `e` (an `Err` of the record iterator) | <timestamp ns>`.`<payload id>
//!          — the record list is obtained INDEPENDENTLY of `EvtxParser::records()` and of any `ParserSettings`
//!          choice made by s4: `EvtxParser::chunks()` + `EvtxChunkData::validate_checksum()` +
//!          `EvtxChunkData::parse` + `EvtxChunk::iter` + `into_xml`; payload id = the `<EventRecordID>` of the
//!          record's XML (never patched, so tied records stay distinguishable).
//! reply    `new-err`  |  p=<processed> a=<accepted> o=<out of order> fp=<ns|n> lp= fa= la= e=<0|1> s=<id@ns,…|->
#![allow(clippy::type_complexity)]
use crate::util::*;
use chrono::{FixedOffset, TimeZone, Utc};
use s4lib::common::{FPath, FileType, FileTypeArchive};
use s4lib::data::datetime::{DateTimeL, DateTimeLOpt};
use s4lib::readers::evtxreader::EvtxReader;
use std::io::Write;
use std::sync::Arc;

const CHUNK: usize = 65536;
const HDR: usize = 4096;

fn tmpdir() -> std::path::PathBuf {
    let d = std::env::var("S4H_TMP").unwrap_or_else(|_| "/verif/.build/tmp".to_string());
    std::fs::create_dir_all(&d).unwrap();
    std::path::PathBuf::from(d)
}

fn sample() -> Vec<u8> {
    let repo = std::env::var("S4_REPO").unwrap_or_else(|_| "/repo".to_string());
    std::fs::read(format!("{}/logs/programs/evtx/Microsoft-Windows-Kernel-PnP%4Configuration.evtx", repo)).expect("shipped evtx sample")
}

fn crc32(parts: &[&[u8]]) -> u32 {
    let mut c: u32 = 0xFFFF_FFFF;
    for p in parts {
        for &b in *p {
            c ^= b as u32;
            for _ in 0..8 {
                c = if c & 1 != 0 { (c >> 1) ^ 0xEDB8_8320 } else { c >> 1 };
            }
        }
    }
    !c
}

fn u32at(d: &[u8], o: usize) -> u32 { u32::from_le_bytes(d[o..o + 4].try_into().unwrap()) }
fn u64at(d: &[u8], o: usize) -> u64 { u64::from_le_bytes(d[o..o + 8].try_into().unwrap()) }
fn put32(d: &mut [u8], o: usize, v: u32) { d[o..o + 4].copy_from_slice(&v.to_le_bytes()); }
fn put64(d: &mut [u8], o: usize, v: u64) { d[o..o + 8].copy_from_slice(&v.to_le_bytes()); }

/// record offsets (within the chunk) and sizes, by walking the record headers (as vlib/props/C10.py does)
fn walk(ch: &[u8]) -> Vec<(usize, usize)> {
    let mut v = vec![];
    if ch.len() < CHUNK || &ch[0..8] != b"ElfChnk\0" { return v; }
    let free = u32at(ch, 48) as usize;
    let mut p = 512;
    while p + 24 <= free.min(CHUNK) && ch[p..p + 4] == [0x2a, 0x2a, 0, 0] {
        let size = u32at(ch, p + 4) as usize;
        if size < 24 || p + size > CHUNK { break; }
        v.push((p, size));
        p += size;
    }
    v
}

fn fix_crc(ch: &mut [u8]) {
    let free = (u32at(ch, 48) as usize).clamp(512, CHUNK);
    let c = crc32(&[&ch[512..free]]);
    put32(ch, 52, c);
    let h = crc32(&[&ch[..120], &ch[128..512]]);
    put32(ch, 124, h);
}

#[derive(Clone, Debug, PartialEq)]
enum Item { Ok(i64, u64), Err }

fn xml_id(s: &str) -> u64 {
    match s.find("<EventRecordID>") {
        Some(i) => {
            let r = &s[i + 15..];
            match r.find('<') { Some(j) => r[..j].trim().parse().unwrap_or(0), None => 0 }
        }
        None => 0,
    }
}

/// the independent parse: per chunk (CRC valid?, items)
fn indep(path: &str) -> Option<Vec<(bool, Vec<Item>)>> {
    let mut parser = evtx::EvtxParser::from_path(path).ok()?;
    let mut out = vec![];
    let settings = Arc::new(evtx::ParserSettings::default());
    for cr in parser.chunks() {
        match cr {
            Err(_) => out.push((true, vec![Item::Err])),
            Ok(mut cd) => {
                let crc = cd.validate_checksum();
                let mut items = vec![];
                match cd.parse(settings.clone()) {
                    Err(_) => items.push(Item::Err),
                    Ok(mut chunk) => {
                        for r in chunk.iter() {
                            match r.and_then(|r| r.into_xml()) {
                                Ok(s) => items.push(Item::Ok(s.timestamp.timestamp_nanos_opt().unwrap_or(0), xml_id(&s.data))),
                                Err(_) => items.push(Item::Err),
                            }
                        }
                    }
                }
                out.push((crc, items));
            }
        }
    }
    Some(out)
}

fn enc_file(f: &Option<Vec<(bool, Vec<Item>)>>) -> String {
    match f {
        None => "!".to_string(),
        Some(cs) if cs.is_empty() => "-".to_string(),
        Some(cs) => cs.iter().map(|(crc, items)| {
            format!("{}:{}", if *crc { 1 } else { 0 }, items.iter().map(|i| match i {
                Item::Err => "e".to_string(),
                Item::Ok(ts, id) => format!("{}.{}", ts, id),
            }).collect::<Vec<_>>().join(","))
        }).collect::<Vec<_>>().join(";"),
    }
}

fn dtl(ns: i64, off: i32) -> DateTimeL {
    Utc.timestamp_nanos(ns).with_timezone(&FixedOffset::east_opt(off).unwrap())
}

fn ns_opt(d: &DateTimeLOpt) -> String {
    match d { Some(d) => d.timestamp_nanos_opt().unwrap_or(0).to_string(), None => "n".to_string() }
}

/// drive the real reader the way `exec_evtxprocessor` does
fn real(path: &str, a: Option<i64>, b: Option<i64>, off: i32) -> String {
    let p: FPath = path.to_string();
    let r = guarded(std::panic::AssertUnwindSafe(move || {
        let mut rd = match EvtxReader::new(p, FileType::Evtx { archival_type: FileTypeArchive::Normal }) {
            Ok(r) => r,
            Err(_) => return "new-err".to_string(),
        };
        let da: DateTimeLOpt = a.map(|x| dtl(x, off));
        let db: DateTimeLOpt = b.map(|x| dtl(x, off));
        rd.analyze(&da, &db);
        let mut seq = vec![];
        while let Some(ev) = rd.next() {
            let s = String::from_utf8_lossy(ev.as_bytes()).to_string();
            seq.push(format!("{}@{}", xml_id(&s), ev.dt().timestamp_nanos_opt().unwrap_or(0)));
        }
        let s = rd.summary();
        let sc = rd.summary_complete();
        format!("p={} a={} o={} fp={} lp={} fa={} la={} e={} s={}",
            s.evtxreader_events_processed, s.evtxreader_events_accepted, s.evtxreader_out_of_order,
            ns_opt(&s.evtxreader_datetime_first_processed), ns_opt(&s.evtxreader_datetime_last_processed),
            ns_opt(&s.evtxreader_datetime_first_accepted), ns_opt(&s.evtxreader_datetime_last_accepted),
            if sc.error.is_some() { 1 } else { 0 },
            if seq.is_empty() { "-".to_string() } else { seq.join(",") })
    }));
    match r { Ok(s) => s, Err(m) => format!("panic:{}", m) }
}

/// `s4h evtxr --file <path>` in a child process: does the real reader return within `ms` milliseconds?
fn returns_in_time(path: &str, ms: u64) -> bool {
    let exe = match std::env::current_exe() { Ok(e) => e, Err(_) => return true };
    let mut child = match std::process::Command::new(exe).args(["evtxr", "--file", path])
        .stdout(std::process::Stdio::null()).stderr(std::process::Stdio::null()).spawn() {
        Ok(c) => c,
        Err(_) => return true,
    };
    let t0 = std::time::Instant::now();
    loop {
        match child.try_wait() {
            Ok(Some(_)) => return true,
            Ok(None) => {
                if t0.elapsed().as_millis() as u64 > ms {
                    let _ = child.kill();
                    let _ = child.wait();
                    return false;
                }
                std::thread::sleep(std::time::Duration::from_millis(2));
            }
            Err(_) => return true,
        }
    }
}

/// FILETIME ticks (100 ns since 1601) -> ns since 1970
fn ft_to_ns(ft: u64) -> i64 { ((ft as i128 - 116_444_736_000_000_000i128) * 100) as i64 }

struct Built { data: Vec<u8>, tags: Vec<&'static str> }

fn build(rng: &mut Rng, base: &[u8], case: usize) -> Built {
    let mut tags: Vec<&'static str> = vec![];
    let hdr = base[..HDR].to_vec();
    let mut chunks: Vec<Vec<u8>> = (0..3).map(|k| base[HDR + k * CHUNK..HDR + (k + 1) * CHUNK].to_vec()).collect();
    if case == 0 {
        let mut d = hdr;
        for c in &chunks { d.extend_from_slice(c); }
        return Built { data: d, tags: vec!["pristine"] };
    }
    // all FILETIMEs of the file (for copying => ties)
    let mut fts: Vec<u64> = vec![];
    for c in &chunks { for (p, _) in walk(c) { fts.push(u64at(c, p + 16)); } }
    let mut touched = [false; 3];
    // --- timestamps: ties, disorder
    let mode = rng.below(5);
    if mode > 0 {
        tags.push("ts");
        let n = if mode == 4 { rng.range(30, 120) } else { rng.range(1, 25) } as usize;
        let pool: Vec<u64> = if mode == 4 { (0..rng.range(1, 3)).map(|_| rng.pick(&fts)).collect() } else { fts.clone() };
        for _ in 0..n {
            let k = rng.below(3);
            let w = walk(&chunks[k]);
            if w.is_empty() { continue; }
            let (p, _) = w[rng.below(w.len())];
            let mut v = rng.pick(&pool);
            if !rng.chance(2, 3) { v = (v as i64 + rng.pick(&[-1i64, 1, -10, 10, 10_000_000, -10_000_000])) as u64; }
            put64(&mut chunks[k], p + 16, v);
            touched[k] = true;
        }
    }
    // --- header record ids among tied records: descending / repeated / random
    if rng.chance(1, 3) {
        tags.push("ids");
        for k in 0..3 {
            let w = walk(&chunks[k]);
            let last_id = u64at(&chunks[k], 32);
            let mut by: std::collections::BTreeMap<u64, Vec<usize>> = Default::default();
            for (p, _) in &w { by.entry(u64at(&chunks[k], p + 16)).or_default().push(*p); }
            for (_, ps) in by {
                if ps.len() < 2 || rng.chance(1, 3) { continue; }
                let ids: Vec<u64> = ps.iter().map(|p| u64at(&chunks[k], p + 8)).collect();
                let m = rng.below(3);
                let new: Vec<u64> = match m {
                    0 => ids.iter().rev().cloned().collect(),
                    1 => vec![ids[0]; ids.len()],
                    _ => ids.iter().map(|_| rng.next() >> 24).collect(),
                };
                for (p, v) in ps.iter().zip(new) {
                    // an id equal to the chunk header's last id ends the crate's walk of the chunk: keep that rare
                    if v == last_id && !rng.chance(1, 8) { continue; }
                    put64(&mut chunks[k], p + 8, v);
                    touched[k] = true;
                }
            }
        }
    }
    // --- torn / corrupt records
    if rng.chance(1, 3) {
        for _ in 0..rng.range(1, 3) {
            let k = rng.below(3);
            let w = walk(&chunks[k]);
            if w.is_empty() { continue; }
            let (p, size) = w[rng.below(w.len())];
            touched[k] = true;
            match rng.below(6) {
                0 => { tags.push("rec-magic"); chunks[k][p] = 0x2b; }
                1 => { tags.push("rec-body"); let o = p + 24 + rng.below(size.saturating_sub(28).max(1)); let n = rng.range(1, 40) as usize; for i in o..(o + n).min(p + size - 4) { chunks[k][i] = (rng.next() & 0xff) as u8; } }
                2 => { tags.push("zero-tail"); let o = p + rng.below(size); for i in o..CHUNK { chunks[k][i] = 0; } }
                3 => { tags.push("free-back"); let o = if rng.chance(1, 2) { p } else { p + rng.below(size) }; put32(&mut chunks[k], 48, o as u32); }
                4 => { tags.push("rec-size"); // size 0 is left out: the evtx crate then never advances (finding F-evtx-size0, see `--file`)
                     let v = rng.pick(&[4u32, 8, 23, 24, 0x10000, 0xffff_ffff, size as u32 + 8, size as u32 - 8]); put32(&mut chunks[k], p + 4, v); }
                _ => { tags.push("rec-body1"); let o = p + 24 + rng.below(size.saturating_sub(28).max(1)); chunks[k][o] ^= 1 << rng.below(8); }
            }
        }
    }
    // --- chunk checksums: recompute on touched chunks (fresh) or leave them stale; clobber a clean one
    for k in 0..3 {
        if touched[k] {
            if rng.chance(1, 2) { fix_crc(&mut chunks[k]); tags.push("crc-fixed"); } else { tags.push("crc-stale"); }
        } else if rng.chance(1, 6) {
            let o = if rng.chance(1, 2) { 52 } else { 124 };
            chunks[k][o] ^= 0x5a;
            tags.push("crc-clobbered");
        }
    }
    // --- chunk level
    if rng.chance(1, 4) {
        match rng.below(5) {
            0 => { tags.push("chunk-swap"); let i = rng.below(3); let j = rng.below(3); chunks.swap(i, j); }
            1 => { tags.push("chunk-dup"); let i = rng.below(3); let c = chunks[i].clone(); chunks.insert(rng.below(4), c); }
            2 => { tags.push("chunk-zero"); let i = rng.below(3); chunks[i] = vec![0; CHUNK]; }
            3 => { tags.push("chunk-magic"); let i = rng.below(3); chunks[i][3] = b'X'; }
            _ => { tags.push("chunk-drop"); chunks.remove(rng.below(3)); }
        }
    }
    for _ in 0..rng.below(3) { chunks.push(vec![0; CHUNK]); }
    let mut d = hdr;
    for c in &chunks { d.extend_from_slice(c); }
    // --- truncation
    if rng.chance(1, 5) {
        let nch = chunks.len();
        let cut = match rng.below(6) {
            0 => { tags.push("cut-boundary"); HDR + rng.below(nch + 1) * CHUNK }
            1 => { tags.push("cut-mid-chunk"); HDR + rng.below(nch.max(1)) * CHUNK + 1 + rng.below(CHUNK - 1) }
            2 => { tags.push("cut-boundary+-1"); (HDR + rng.below(nch + 1) * CHUNK).saturating_add_signed(rng.pick(&[-1isize, 1])) }
            3 => { tags.push("cut-mid-record"); let k = rng.below(nch.max(1)); let w = if k < nch { walk(&chunks[k]) } else { vec![] };
                   if w.is_empty() { HDR + k * CHUNK + 600 } else { let (p, s) = w[rng.below(w.len())]; HDR + k * CHUNK + p + rng.below(s) } }
            4 => { tags.push("cut-header"); rng.pick(&[0usize, 7, 8, 100, 127, 128, 4095]) }
            _ => { tags.push("cut-header-only"); HDR }
        };
        d.truncate(cut.min(d.len()));
    } else if rng.chance(1, 30) {
        tags.push("hdr-magic");
        d[0] = b'X';
    }
    if tags.is_empty() { tags.push("copy"); }
    Built { data: d, tags }
}

pub fn run(opts: &Opts, out: &mut dyn Write) {
    quiet_panics();
    // `s4h evtxr --file <path>`: the real reader alone on a given file (no window)
    if let Some(i) = opts.extra.iter().position(|x| x == "--file") {
        writeln!(out, "{}", real(&opts.extra[i + 1], None, None, 0)).unwrap();
        return;
    }
    let base = sample();
    let mut rng = Rng::new(opts.seed.wrapping_mul(0x51ed).wrapping_add(0xe7));
    let dir = tmpdir();
    let path = dir.join(format!("s4h-evtxr-{}-{}.evtx", std::process::id(), opts.seed));
    let ps = path.to_str().unwrap().to_string();
    let mut case = 0usize;
    let mut emitted = 0usize;
    let mut skipped = 0usize;
    let mut hung = 0usize;
    let verbose = opts.extra.iter().any(|x| x == "--tags");
    while emitted < opts.n {
        let b = build(&mut rng, &base, case);
        case += 1;
        std::fs::write(&path, &b.data).unwrap();
        // known finding F38: some damaged files make the evtx crate's chunk iterator loop for ever while it allocates without bound (a record
        // whose size field reads 0 where the iterator happens to stand). Nothing in-process can stop that, so every file is first read by a
        // CHILD process under a time limit; a file on which the reader does not return is skipped (counted), never read in this process.
        if !returns_in_time(&ps, 8000) { hung += 1; continue; }
        let ps2 = ps.clone();
        let f = match guarded(move || indep(&ps2)) { Ok(f) => f, Err(_) => { skipped += 1; continue; } };
        let mut tss: Vec<i64> = vec![];
        if let Some(cs) = &f { for (_, items) in cs { for i in items { if let Item::Ok(ts, _) = i { tss.push(*ts); } } } }
        let nwin = if case == 1 { 6 } else { rng.range(1, 3) as usize };
        for w in 0..nwin {
            if emitted >= opts.n { break; }
            let mut pick = |rng: &mut Rng| -> i64 {
                if tss.is_empty() { return ft_to_ns(133_000_000_000_000_000) + rng.range(-5, 5) * 100; }
                let t = rng.pick(&tss);
                match rng.below(6) { 0 | 1 | 2 => t, 3 => t - 100, 4 => t + 100, _ => t + rng.range(-50_000_000, 50_000_000) * 100 }
            };
            let (a, bb) = match (w + case) % 4 {
                0 => (None, None),
                1 => (Some(pick(&mut rng)), None),
                2 => (None, Some(pick(&mut rng))),
                _ => { let x = pick(&mut rng); let y = pick(&mut rng); (Some(x.min(y)), Some(x.max(y))) }
            };
            let off = rng.pick(&[0i32, 0, 3600, -8 * 3600, 5 * 3600 + 45 * 60]);
            let o = |x: Option<i64>| x.map(|v| v.to_string()).unwrap_or_else(|| "n".to_string());
            let req = format!("evtxr {} {} {}", o(a), o(bb), enc_file(&f));
            let rep = real(&ps, a, bb, off);
            if verbose {
                writeln!(out, "{}\t{}\t{}", req, rep, b.tags.join("+")).unwrap();
            } else {
                writeln!(out, "{}\t{}", req, rep).unwrap();
            }
            emitted += 1;
        }
    }
    let _ = std::fs::remove_file(&path);
    if hung > 0 { eprintln!("evtxr: {} files skipped (the evtx parser did not return within 8 s: known finding F38)", hung); }
    if skipped > 0 { eprintln!("evtxr: {} files skipped (the independent parse panicked)", skipped); }
}

/// replay is not possible from the request alone (the request is the independent parse, not the file bytes)
pub fn replay_line(_req: &str) -> String {
    "no-replay".to_string()
}
