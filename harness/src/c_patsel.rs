//! component `patsel`: WHICH datetime pattern a text log is read with — the REAL `SyslogProcessor`
//! (stage 0, stage 1 = block-zero analysis incl. `dt_patterns_analysis`, then `find_sysline` over the whole
//! file) and a REAL `SyslineReader` driven like the first pass of `blockzero_analysis_syslines`, against
//! `S4V.Model.PatSel.runFile` (driver op `patsel run`, executable `drv_patsel`).
//!
//! The match matrix is computed here by calling the real `bytes_to_regex_to_datetime` for EVERY row on exactly
//! the slice `find_datetime_in_line` would pass (`range_regex`, `min(len, end)`), with `year_opt = None`.
//! The lines block zero hands out come from a real `LineReader::find_line_in_block` walk from offset 0.
//!
//! request   patsel run <bs> <blocksz0> <doneFo> <foLast> <gate> <chain> <partial> <file> <table>
//!   gate     1 = stage 0 and the byte/line gates of stage 1 let the file through (else the reply is `gate`)
//!   chain    `key:id,…` the `Found` lines of the walk (id = index into table)   | `-`
//!   partial  `key:id` the partial line that came with the final `Done`           | `-`
//!   file     `key:id,…` every line of the file                                   | `-`
//!   table    `hex|row=ns/row=ns…;hex|…` distinct lines with the rows that match them and the instant
//! reply     gate
//!         | <ok|nosys> pre=<counts> re=<0|1> post=<counts> row=<r|n> out=<ns|n,…>
//!   counts   `row:count,…` (count > 0) | `-`;  pre = when `dt_patterns_analysis` is entered (first pass, mimic
//!            reader), post = when stage 1 returns (real processor), row = the key left, out = per file line the
//!            instant of the message starting there (`n`: no message starts there); `-` when not ok
use crate::c_line::{write_tmp, FT_TEXT};
use crate::util::*;
use chrono::FixedOffset;
use s4lib::common::{FileProcessingResult, ResultS3};
use s4lib::data::datetime::{bytes_to_regex_to_datetime, DATETIME_PARSE_DATAS, DATETIME_PARSE_DATAS_LEN};
use s4lib::readers::linereader::LineReader;
use s4lib::readers::summary::SummaryReaderData;
use s4lib::readers::syslinereader::SyslineReader;
use s4lib::readers::syslogprocessor::{SyslogProcessor, BLOCKZERO_ANALYSIS_SYSLINE_COUNT_MIN_MAP};
use std::collections::BTreeMap;
use std::io::Write;

const MON: [&str; 12] = ["Jan", "Feb", "Mar", "Apr", "May", "Jun", "Jul", "Aug", "Sep", "Oct", "Nov", "Dec"];
pub const N_TEMPLATES: usize = 13;
const JUNK: [&str; 7] = [
    "    at frame.without.digits(Foo.java)\n",
    "short\n",
    "\n",
    "--------------------\n",
    "Traceback (most recent call last):\n",
    "\tcontinued text of the message above, no stamp\n",
    "x\n",
];

/// line `i` of the file in notation `t`; the clock advances with `i`
fn stamp(t: usize, i: usize, base: usize) -> String {
    let n = base + i * 37;
    let (y, mo, d) = (2019 + (base % 3), 1 + (n / 86400 / 28) % 12, 1 + (n / 86400) % 28);
    let (h, mi, s) = ((n / 3600) % 24, (n / 60) % 60, n % 60);
    let mon = MON[mo - 1];
    match t {
        0 => format!("{:04}-{:02}-{:02}T{:02}:{:02}:{:02} host app: message {}\n", y, mo, d, h, mi, s, i),
        1 => format!("{:04}-{:02}-{:02} {:02}:{:02}:{:02}.{:03} app message {}\n", y, mo, d, h, mi, s, (n * 7) % 1000, i),
        2 => format!("{} {:>2} {:02}:{:02}:{:02} host prog[12]: message {}\n", mon, d, h, mi, s, i),
        3 => format!("[{:04}/{:02}/{:02} {:02}:{:02}:{:02}] ../source/file.c:12(fn) message\n", y, mo, d, h, mi, s),
        4 => format!("[{:02}/{}/{:04}:{:02}:{:02}:{:02} +0000] \"GET / HTTP/1.1\" 200\n", d, mon, y, h, mi, s),
        5 => format!("{} message after an epoch stamp\n", 1577836800 + n),
        6 => format!("<14>{} {:>2} {:02}:{:02}:{:02} HOST dropbear[23]: Exit (root)\n", mon, d, h, mi, s),
        7 => format!("{} {:02} {:02}:{:02}:{:02} {:04} host kernel: device entered\n", mon, d, h, mi, s, y),
        // two stamps in two notations on one line, a day apart
        8 => format!("{} {:>2} {:02}:{:02}:{:02} host: started at {:04}-{:02}-{:02}T{:02}:{:02}:{:02}\n", mon, d, h, mi, s, y, mo, 1 + d % 28, h, mi, s),
        9 => format!("{:02}/{:02}/{:04} {:02}:{:02}:{:02} message {}\n", mo, d, y, h, mi, s, i),
        10 => format!("{:04}-{:02}-{:02}T{:02}:{:02}:{:02}+01:00 zone message\n", y, mo, d, h, mi, s),
        11 => format!("{:04}/{:02}/{:02} {:02}:{:02}:{:02} slash message {}\n", y, mo, d, h, mi, s, i),
        _ => format!("ts={:04}-{:02}-{:02} {:02}:{:02}:{:02} level=info at {:02}/{:02}/{:04} {:02}:{:02}:{:02}\n", y, mo, d, h, mi, s, mo, 1 + d % 28, y, h, mi, s),
    }
}

fn tz0() -> FixedOffset { FixedOffset::east_opt(0).unwrap() }

/// rows that parse `line`, exactly as `find_datetime_in_line` would call them
fn matrix_row(line: &[u8]) -> Vec<(usize, i64)> {
    let tz = tz0();
    let tzs = tz.to_string();
    let mut v = vec![];
    for r in 0..DATETIME_PARSE_DATAS_LEN {
        let dtpd = &DATETIME_PARSE_DATAS[r];
        if line.len() <= dtpd.range_regex.start { continue; }
        let slice_end = std::cmp::min(line.len(), dtpd.range_regex.end);
        if dtpd.range_regex.start >= slice_end { continue; }
        if let Some((_b, _e, dt)) = bytes_to_regex_to_datetime(&line[dtpd.range_regex.start..slice_end], &r, &None, &tz, &tzs) {
            v.push((r, dt.timestamp_nanos_opt().unwrap_or(i64::MIN)));
        }
    }
    v
}

fn split_lines(d: &[u8]) -> Vec<(usize, Vec<u8>)> {
    let mut v = vec![];
    let mut beg = 0usize;
    for (i, &b) in d.iter().enumerate() {
        if b == b'\n' { v.push((beg, d[beg..=i].to_vec())); beg = i + 1; }
    }
    if beg < d.len() { v.push((beg, d[beg..].to_vec())); }
    v
}

fn counts_str(m: &BTreeMap<usize, u64>) -> String {
    let v: Vec<String> = m.iter().filter(|(_, &c)| c > 0).map(|(k, c)| format!("{}:{}", k, c)).collect();
    if v.is_empty() { "-".to_string() } else { v.join(",") }
}

struct Table { ids: BTreeMap<Vec<u8>, usize>, rows: Vec<(Vec<u8>, Vec<(usize, i64)>)> }
impl Table {
    fn id(&mut self, l: &[u8]) -> usize {
        if let Some(&i) = self.ids.get(l) { return i; }
        let i = self.rows.len();
        self.rows.push((l.to_vec(), matrix_row(l)));
        self.ids.insert(l.to_vec(), i);
        i
    }
}

fn name(r: &FileProcessingResult<std::io::Error>) -> String { format!("{:?}", r).split('(').next().unwrap().to_string() }

/// (request, implementation reply) for the file `d` read with block size `bs`
pub fn case(d: &[u8], bs: u64) -> (String, String) {
    let f = write_tmp(d, ".log");
    let path = f.path().to_str().unwrap().to_string();
    let mut tab = Table { ids: BTreeMap::new(), rows: vec![] };
    // --- the lines block zero hands out (real LineReader)
    let (chain, partial, done_fo) = {
        let p = path.clone();
        match guarded(move || {
            let mut lr = LineReader::new(p, FT_TEXT, bs).unwrap();
            let mut chain: Vec<(usize, Vec<u8>)> = vec![];
            let mut fo: u64 = 0;
            let mut guard = 0;
            loop {
                guard += 1;
                if guard > 100000 { return (chain, None, u64::MAX); }
                match lr.find_line_in_block(fo) {
                    (ResultS3::Found((next, l)), _) => { chain.push((l.fileoffset_begin() as usize, l.verif_bytes())); fo = next; }
                    (ResultS3::Done, Some(line)) => return (chain, Some((line.fileoffset_begin() as usize, line.verif_bytes())), fo),
                    (ResultS3::Done, None) => return (chain, None, fo),
                    (ResultS3::Err(_), _) => return (chain, None, u64::MAX),
                }
            }
        }) { Ok(v) => v, Err(m) => return ("patsel bad".to_string(), format!("panic-lines {}", m)) }
    };
    let file_lines = split_lines(d);
    let refs = |tab: &mut Table, v: &[(usize, Vec<u8>)]| -> String {
        if v.is_empty() { return "-".to_string(); }
        v.iter().map(|(k, l)| format!("{}:{}", k, tab.id(l))).collect::<Vec<_>>().join(",")
    };
    let chain_s = refs(&mut tab, &chain);
    let partial_s = match &partial { Some((k, l)) => format!("{}:{}", k, tab.id(l)), None => "-".to_string() };
    let file_s = refs(&mut tab, &file_lines);
    let blocksz0 = std::cmp::min(bs as usize, d.len());
    let fo_last = d.len().saturating_sub(1);

    // --- first pass on a reader of its own: the counts `dt_patterns_analysis` would see
    let pre: Result<String, String> = {
        let p = path.clone();
        guarded(move || {
            let mut slr = SyslineReader::new(p, FT_TEXT, bs, tz0()).unwrap();
            let found_min: u64 = *BLOCKZERO_ANALYSIS_SYSLINE_COUNT_MIN_MAP.get(&(blocksz0 as u64)).unwrap();
            let mut found: u64 = 0;
            let mut fo: u64 = 0;
            while found < found_min && slr.block_offset_at_file_offset(fo) == 0 {
                fo = match slr.find_sysline_in_block(fo) {
                    (ResultS3::Found((next, _)), _) => { found += 1; next }
                    (ResultS3::Done, p) => { if p { found += 1; } break; }
                    (ResultS3::Err(_), _) => break,
                };
            }
            let _ = found;
            let m: BTreeMap<usize, u64> = slr.summary().syslinereader_patterns.iter().map(|(k, v)| (*k, *v)).collect();
            counts_str(&m)
        })
    };
    let pre = match pre { Ok(s) => s, Err(m) => format!("panic {}", m) };

    // --- the real processor
    let p = path.clone();
    let keys: Vec<usize> = file_lines.iter().map(|x| x.0).collect();
    let real = guarded(move || {
        let mut sp = match SyslogProcessor::new(p, FT_TEXT, bs, tz0(), None, None) {
            Ok(v) => v,
            Err(e) => return (false, format!("err-new {}", e.kind())),
        };
        let r0 = sp.process_stage0_valid_file_check();
        if !r0.is_ok() { return (false, name(&r0)); }
        let r1 = sp.process_stage1_blockzero_analysis();
        let v1 = name(&r1);
        if !r1.is_ok() && v1 != "FileErrNoSyslinesFound" { return (false, v1); }
        let post = |sp: &SyslogProcessor| -> BTreeMap<usize, u64> {
            match sp.summary_complete().readerdata {
                SummaryReaderData::Syslog((_, _, ssr, _)) => ssr.syslinereader_patterns.iter().map(|(k, v)| (*k, *v)).collect(),
                _ => BTreeMap::new(),
            }
        };
        let m = post(&sp);
        let row = if m.len() == 1 { format!("{}", m.keys().next().unwrap()) } else { "n".to_string() };
        if !r1.is_ok() {
            return (true, format!("nosys post={} row={} out=-", counts_str(&m), row));
        }
        // every message of the file, as the streaming stage would find them (year_opt = None)
        let mut heads: BTreeMap<usize, i64> = BTreeMap::new();
        let mut fo: u64 = 0;
        let mut guard = 0usize;
        let mut flag = "";
        loop {
            guard += 1;
            if guard > keys.len() + 5 { flag = "!LOOP"; break; }
            match sp.find_sysline(fo) {
                ResultS3::Found((next, s)) => {
                    heads.insert(s.fileoffset_begin() as usize, s.dt().timestamp_nanos_opt().unwrap_or(i64::MIN));
                    if sp.is_sysline_last(&s) { break; }
                    fo = next;
                }
                ResultS3::Done => break,
                ResultS3::Err(_) => { flag = "!ERR"; break; }
            }
        }
        let out: Vec<String> = keys.iter().map(|k| match heads.get(k) { Some(t) => format!("{}", t), None => "n".to_string() }).collect();
        let extra = heads.keys().filter(|k| !keys.contains(k)).count();
        (true, format!("ok post={} row={} out={}{}{}", counts_str(&m), row, if out.is_empty() { "-".to_string() } else { out.join(",") },
            flag, if extra > 0 { "!OFFLINE" } else { "" }))
    });
    let (gate, body) = match real { Ok(v) => v, Err(m) => (true, format!("panic {}", m)) };
    let table_s = if tab.rows.is_empty() { "-".to_string() } else {
        tab.rows.iter().map(|(l, ms)| format!("{}|{}", hex(l), ms.iter().map(|(r, t)| format!("{}={}", r, t)).collect::<Vec<_>>().join("/"))).collect::<Vec<_>>().join(";")
    };
    let req = format!("patsel run {} {} {} {} {} {} {} {} {}", bs, blocksz0, done_fo, fo_last, if gate { 1 } else { 0 }, chain_s, partial_s, file_s, table_s);
    let reply = if !gate { "gate".to_string() } else {
        // splice pre / re into the body: "<v> post=…" -> "<v> pre=… post=…"
        match body.split_once(' ') {
            Some((v, rest)) if v == "ok" || v == "nosys" => format!("{} pre={} {}", v, pre, rest),
            _ => body,
        }
    };
    (req, reply)
}

/// replay: `patsel file <bs> <hex d>` regenerates request and reply from the file itself
pub fn replay_line(req: &str) -> String {
    let w: Vec<&str> = req.split_whitespace().collect();
    if w.len() == 4 && w[0] == "patsel" && w[1] == "file" {
        let bs: u64 = match w[2].parse() { Ok(v) => v, Err(_) => return "bad-op".to_string() };
        let (rq, rp) = case(&unhex(w[3]), bs);
        return format!("{}\t{}", rq, rp);
    }
    "bad-op".to_string()
}

pub fn gen_file(rng: &mut Rng, kind: usize, nlines: usize) -> (Vec<u8>, Vec<usize>) {
    // kind 0: one notation; 1: two notations; 2: three or more
    let k = match kind { 0 => 1, 1 => 2, _ => 3 + rng.below(2) };
    let mut ts: Vec<usize> = vec![];
    while ts.len() < k { let t = rng.below(N_TEMPLATES); if !ts.contains(&t) { ts.push(t); } }
    let base = rng.below(20_000_000);
    let mut d: Vec<u8> = vec![];
    let lead = if rng.chance(1, 4) { 1 + rng.below(2) } else { 0 };
    for _ in 0..lead { d.extend_from_slice(JUNK[rng.below(JUNK.len())].as_bytes()); }
    // how the notations alternate: blocks (first notation for a while, then the next), or interleaved
    let blocky = rng.chance(1, 2);
    let cut = 1 + rng.below(nlines.max(1));
    for i in 0..nlines {
        let t = if k == 1 { ts[0] } else if blocky { if i < cut { ts[0] } else { ts[1 + (i - cut) % (k - 1)] } } else { ts[rng.below(k)] };
        d.extend_from_slice(stamp(t, i, base).as_bytes());
        if rng.chance(1, 4) { for _ in 0..1 + rng.below(2) { d.extend_from_slice(JUNK[rng.below(JUNK.len())].as_bytes()); } }
    }
    if rng.chance(1, 10) && d.last() == Some(&b'\n') { d.pop(); }
    (d, ts)
}

pub fn run(o: &Opts, out: &mut dyn Write) {
    quiet_panics();
    let mut rng = Rng::new(o.seed ^ 0x9a75e1);
    for i in 0..o.n {
        let kind = match i % 10 { 0 | 1 | 2 => 0, 3 | 4 | 5 | 6 => 1, _ => 2 };
        let big = i % 12 == 11;
        let nlines = if big { 170 + rng.below(80) } else { 1 + rng.below(12) };
        let (d, _ts) = gen_file(&mut rng, kind, nlines);
        let nl: Vec<usize> = d.iter().enumerate().filter(|(_, &b)| b == b'\n').map(|(i, _)| i).collect();
        let bs: u64 = if big {
            match rng.below(3) { 0 => 0x10000, 1 => 8096 + rng.below(600) as u64, _ => 64 + rng.below(8000) as u64 }
        } else {
            match rng.below(6) {
                0 => 0x10000,
                1 => 64 + rng.below(64) as u64,
                2 => 64 + rng.below(300) as u64,
                // block zero ends right at / around a line end
                3 | 4 => { let p = if nl.is_empty() { 64 } else { nl[rng.below(nl.len())] }; let x = (p + [0usize, 1, 2, 3, 9, 20][rng.below(6)]) as u64; if x >= 64 { x } else { 64 + x } }
                _ => 65 + rng.below(200) as u64,
            }
        };
        let (req, rep) = case(&d, bs);
        writeln!(out, "{}\t{}", req, rep).unwrap();
    }
}
