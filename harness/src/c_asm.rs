//! component `asm`: block assembly of the real `BlockReader` over containers built here
//! (gz via flate2, xz via lzma-rs, lz4 via lz4_flex, tar via the tar crate) or handed in as
//! files (bz2 and pax/gnu tar written by Python), against `S4V.Model.Stream`.
//!
//! request   asm <kind> <bs> <hex d> <order> <segs> <recipe>
//!   kind    plain | gz | bz2 | lz4 | xz | tar
//!   order   comma list of block offsets passed to `read_block`, in that order
//!   segs    lz4 only: comma list of the decompressed lengths of the frame's blocks (`-` otherwise);
//!           lz4_flex's `read` never crosses a frame-block boundary, so these ARE the decoder's
//!           chunk boundaries. For every other decoder the chunk sizes are not observable and
//!           the model's answer does not depend on them.
//!   recipe  how the container is made (replayable):
//!           plain `-` | gz `l<0-9>;<hdr bits 0-15>;<mtime>;f<off>.<off>..` | xz `-`
//!           | lz4 `b<4-7>;<L|I>;f<off>.<off>..` | tar `<u|g>;<before>;<after>`
//!           | `file=<path>` (bz2, tar: `file=<path>|<member>`)
//! reply     fsz=<filesz_actual> <r,r,..> high=<blocks_highest> nread=<blocks_read.len()>
//!   r       <len>:<fnv1a-64 hex>[!] | done | err   (`!`: differs from the plain slice; sequence stops after `panic`)
//!           or `err-new <kind>` when `BlockReader::new` fails
use crate::c_line::{tmpdir, write_tmp};
use crate::util::*;
use s4lib::common::{FileType, FileTypeArchive, FileTypeTextEncoding, ResultS3};
use s4lib::readers::blockreader::BlockReader;
use std::io::Write;

pub fn ft(a: FileTypeArchive) -> FileType {
    FileType::Text { archival_type: a, encoding_type: FileTypeTextEncoding::Utf8Ascii }
}

pub fn fnv(b: &[u8]) -> u64 {
    let mut h: u64 = 0xcbf29ce484222325;
    for x in b {
        h ^= *x as u64;
        h = h.wrapping_mul(0x100000001b3);
    }
    h
}

fn offs(s: &str) -> Vec<usize> {
    // "f10.200" -> [10, 200]
    let s = s.trim_start_matches('f');
    if s.is_empty() { return vec![]; }
    s.split('.').filter(|x| !x.is_empty()).map(|x| x.parse().unwrap()).collect()
}

fn pieces<'a>(d: &'a [u8], cuts: &[usize]) -> Vec<&'a [u8]> {
    let mut v = vec![];
    let mut at = 0usize;
    for c in cuts {
        let c = (*c).min(d.len());
        if c > at { v.push(&d[at..c]); at = c; }
    }
    if at < d.len() { v.push(&d[at..]); }
    v
}

pub fn build_gz(d: &[u8], recipe: &str) -> Vec<u8> {
    let p: Vec<&str> = recipe.split(';').collect();
    let level: u32 = p[0].trim_start_matches('l').parse().unwrap();
    let bits: u32 = p.get(1).map(|x| x.parse().unwrap()).unwrap_or(0);
    let mtime: u32 = p.get(2).map(|x| x.parse().unwrap()).unwrap_or(0);
    let cuts = p.get(3).map(|x| offs(x)).unwrap_or_default();
    let mut b = flate2::GzBuilder::new().mtime(mtime);
    if bits & 1 != 0 { b = b.filename("some-name.log"); }
    if bits & 2 != 0 { b = b.comment("a comment"); }
    if bits & 4 != 0 { b = b.extra(vec![1u8, 2, 3, 4, 5, 6, 7]); }
    if bits & 8 != 0 { b = b.operating_system(3); }
    let mut e = b.write(Vec::new(), flate2::Compression::new(level));
    for piece in pieces(d, &cuts) {
        e.write_all(piece).unwrap();
        e.flush().unwrap(); // sync flush: ends the deflate block, emits an empty stored block
    }
    e.finish().unwrap()
}

fn lz4_bsz(id: u32) -> (lz4_flex::frame::BlockSize, usize) {
    match id {
        4 => (lz4_flex::frame::BlockSize::Max64KB, 64 * 1024),
        5 => (lz4_flex::frame::BlockSize::Max256KB, 256 * 1024),
        6 => (lz4_flex::frame::BlockSize::Max1MB, 1024 * 1024),
        _ => (lz4_flex::frame::BlockSize::Max4MB, 4 * 1024 * 1024),
    }
}

/// returns (container, decompressed length of each frame block)
pub fn build_lz4(d: &[u8], recipe: &str) -> (Vec<u8>, Vec<usize>) {
    let p: Vec<&str> = recipe.split(';').collect();
    let id: u32 = p[0].trim_start_matches('b').parse().unwrap();
    let linked = p.get(1).map(|x| *x == "L").unwrap_or(false);
    let cuts = p.get(2).map(|x| offs(x)).unwrap_or_default();
    let (bsz, n) = lz4_bsz(id);
    let mut info = lz4_flex::frame::FrameInfo::new();
    info.block_size = bsz;
    info.block_mode = if linked { lz4_flex::frame::BlockMode::Linked } else { lz4_flex::frame::BlockMode::Independent };
    let mut e = lz4_flex::frame::FrameEncoder::with_frame_info(info, Vec::new());
    let mut segs = vec![];
    for piece in pieces(d, &cuts) {
        e.write_all(piece).unwrap();
        e.flush().unwrap();
        let mut left = piece.len();
        while left > 0 { let c = left.min(n); segs.push(c); left -= c; }
    }
    (e.finish().unwrap(), segs)
}

pub fn build_xz(d: &[u8]) -> Vec<u8> {
    let mut out = Vec::new();
    lzma_rs::xz_compress(&mut std::io::Cursor::new(d), &mut out).unwrap();
    out
}

pub const MEMBER: &str = "dir/member.log";

pub fn build_tar(d: &[u8], recipe: &str) -> Vec<u8> {
    let p: Vec<&str> = recipe.split(';').collect();
    let gnu = p[0] == "g";
    let before: usize = p.get(1).map(|x| x.parse().unwrap()).unwrap_or(0);
    let after: usize = p.get(2).map(|x| x.parse().unwrap()).unwrap_or(0);
    let mut b = tar::Builder::new(Vec::new());
    let mut add = |b: &mut tar::Builder<Vec<u8>>, name: &str, data: &[u8]| {
        let mut h = if gnu { tar::Header::new_gnu() } else { tar::Header::new_ustar() };
        h.set_size(data.len() as u64);
        h.set_mode(0o644);
        h.set_mtime(1_700_000_000);
        b.append_data(&mut h, name, data).unwrap();
    };
    for i in 0..before {
        let filler: Vec<u8> = (0..(i * 517 + 3)).map(|j| b'A' + (j % 23) as u8).collect();
        add(&mut b, &format!("dir/before{}.txt", i), &filler);
    }
    add(&mut b, MEMBER, d);
    for i in 0..after {
        let filler: Vec<u8> = (0..(i * 1031 + 1)).map(|j| b'a' + (j % 19) as u8).collect();
        add(&mut b, &format!("dir/after{}.txt", i), &filler);
    }
    b.into_inner().unwrap()
}

fn segs_str(s: &[usize]) -> String {
    if s.is_empty() { "-".to_string() } else { s.iter().map(|x| x.to_string()).collect::<Vec<_>>().join(",") }
}

/// `keep`: call `disable_drop_data()` right after `new` (as the layers above do for a year-less
/// streamed log): no block is dropped from then on
pub fn read_all(path: String, filetype: FileType, bs: u64, order: Vec<u64>, d: Vec<u8>, keep: bool) -> String {
    let r = guarded(move || {
        let mut br = match BlockReader::new(path, filetype, bs) {
            Ok(v) => v,
            Err(e) => return format!("err-new {}", e.kind()),
        };
        if keep { br.disable_drop_data(); }
        let fsz = br.filesz();
        let mut out: Vec<String> = vec![];
        for k in order.iter() {
            let one = std::panic::catch_unwind(std::panic::AssertUnwindSafe(|| match br.read_block(*k) {
                ResultS3::Found(bp) => {
                    // `!` marks a block that is not the corresponding slice of the plain bytes
                    let a = ((*k * bs) as usize).min(d.len());
                    let b = (a + bs as usize).min(d.len());
                    format!("{}:{:016x}{}", bp.len(), fnv(&bp), if bp[..] == d[a..b] { "" } else { "!" })
                }
                ResultS3::Done => "done".to_string(),
                ResultS3::Err(_) => "err".to_string(),
            }));
            match one {
                Ok(s) => out.push(s),
                Err(_) => { out.push("panic".to_string()); break; }
            }
        }
        let s = br.summary();
        format!("fsz={} {} high={} nread={}", fsz, if out.is_empty() { "-".to_string() } else { out.join(",") },
                s.blockreader_blocks_highest, s.blockreader_blocks)
    });
    match r { Ok(s) => s, Err(m) => format!("panic {}", m) }
}

pub fn replay_line(req: &str) -> String {
    let w: Vec<&str> = req.split(' ').filter(|x| !x.is_empty()).collect();
    if w.len() < 7 || w[0] != "asm" { return "bad-op".to_string(); }
    let kind = w[1];
    let bs: u64 = w[2].parse().unwrap();
    let d = unhex(w[3]);
    let order: Vec<u64> = if w[4] == "-" { vec![] } else { w[4].split(',').map(|x| x.parse().unwrap()).collect() };
    let recipe = w[6..].join(" ");
    if let Some(p) = recipe.strip_prefix("file=") {
        let a = match kind { "bz2" => FileTypeArchive::Bz2, "tar" => FileTypeArchive::Tar, "gz" => FileTypeArchive::Gz,
                             "xz" => FileTypeArchive::Xz, "lz4" => FileTypeArchive::Lz4, _ => FileTypeArchive::Normal };
        return read_all(p.to_string(), ft(a), bs, order, d, false);
    }
    let (bytes, suffix, a): (Vec<u8>, &str, FileTypeArchive) = match kind {
        "plain" => (d.clone(), ".log", FileTypeArchive::Normal),
        "gz" => (build_gz(&d, &recipe), ".log.gz", FileTypeArchive::Gz),
        "xz" => (build_xz(&d), ".log.xz", FileTypeArchive::Xz),
        "lz4" => {
            let (b, segs) = build_lz4(&d, &recipe);
            if segs_str(&segs) != w[5] { return "bad-op segs".to_string(); }
            (b, ".log.lz4", FileTypeArchive::Lz4)
        }
        "tar" => (build_tar(&d, &recipe), ".tar", FileTypeArchive::Tar),
        _ => return "bad-op".to_string(),
    };
    let f = write_tmp(&bytes, suffix);
    let mut path = f.path().to_str().unwrap().to_string();
    if kind == "tar" { path = format!("{}|{}", path, MEMBER); }
    read_all(path, ft(a), bs, order, d, false)
}

pub fn gen_data(rng: &mut Rng, len: usize) -> Vec<u8> {
    let mut d = Vec::with_capacity(len);
    let style = rng.below(3);
    let mut i = 0usize;
    while d.len() < len {
        match style {
            0 => d.push(rng.next() as u8), // incompressible
            1 => { // log-like
                let line = format!("2024-01-01 00:{:02}:{:02} host proc[{}]: message number {} {}\n",
                                   (i / 60) % 60, i % 60, rng.below(9999), i, "x".repeat(rng.below(40)));
                d.extend_from_slice(line.as_bytes());
                i += 1;
            }
            _ => { let c = b'a' + rng.below(4) as u8; for _ in 0..(1 + rng.below(300)) { d.push(c); } }
        }
    }
    d.truncate(len);
    d
}

fn orders(rng: &mut Rng, nblocks: u64, cap: usize) -> Vec<Vec<u64>> {
    let mut v: Vec<Vec<u64>> = vec![];
    let lim = (cap as u64).min(nblocks + 2);
    // in order, one past the end when short enough
    v.push((0..lim).collect());
    // ascending with one step back: 0,1,0,2,1,3,2..
    let mut sb = vec![];
    for k in 0..lim.min(nblocks + 1) { sb.push(k); if k >= 1 { sb.push(k - 1); } }
    sb.truncate(cap);
    v.push(sb);
    // repeats
    let mut rp = vec![];
    for k in 0..lim { rp.push(k); rp.push(k); }
    rp.truncate(cap);
    v.push(rp);
    // ascending with gaps, from a random start
    let mut g = vec![];
    let mut k = rng.below(nblocks as usize + 1) as u64;
    while g.len() < cap && k <= nblocks + 1 { g.push(k); k += 1 + rng.below(3) as u64; }
    v.push(g.clone());
    // the same followed by a far step back and forward again
    if let Some(last) = g.last().copied() {
        let mut h = g;
        h.push(rng.below(last as usize + 1) as u64);
        h.push(last);
        h.push(last + 1);
        v.push(h);
    }
    v
}

pub fn join(o: &[u64]) -> String {
    if o.is_empty() { "-".to_string() } else { o.iter().map(|x| x.to_string()).collect::<Vec<_>>().join(",") }
}

pub fn cuts(rng: &mut Rng, len: usize) -> String {
    let n = rng.below(4);
    let mut c: Vec<usize> = (0..n).map(|_| rng.below(len + 1)).collect();
    c.sort();
    c.dedup();
    format!("f{}", c.iter().map(|x| x.to_string()).collect::<Vec<_>>().join("."))
}

pub fn run(o: &Opts, out: &mut dyn Write) {
    quiet_panics();
    let mut rng = Rng::new(o.seed ^ 0xa53);
    let emit = |out: &mut dyn Write, req: String| {
        let r = replay_line(&req);
        writeln!(out, "{}\t{}", req, r).unwrap();
    };
    // corpus of containers written by Python: <dir>/index.tsv lines `kind<TAB>path<TAB>rawpath[<TAB>member]`
    let corpus: Vec<(String, String, Vec<u8>)> = match o.extra.iter().position(|x| x == "corpus") {
        Some(i) => {
            let dir = &o.extra[i + 1];
            let idx = std::fs::read_to_string(format!("{}/index.tsv", dir)).unwrap_or_default();
            idx.lines().filter(|l| !l.is_empty()).map(|l| {
                let f: Vec<&str> = l.split('\t').collect();
                let raw = std::fs::read(f[2]).unwrap();
                let p = if f.len() > 3 { format!("{}|{}", f[1], f[3]) } else { f[1].to_string() };
                (f[0].to_string(), p, raw)
            }).collect()
        }
        None => vec![],
    };
    let bss_small: [u64; 12] = [1, 2, 3, 4, 5, 7, 8, 16, 63, 64, 100, 257];
    for (kind, path, raw) in corpus.iter() {
        let large = raw.len() > 20000;
        let mut bss: Vec<u64> = if large { vec![4096, 65536] } else { vec![64, 100, 4096, 65536] };
        if raw.len() < 3000 { bss.extend_from_slice(&[1, 3, 7]); }
        if raw.len() > 0 { bss.push(raw.len() as u64); bss.push(raw.len() as u64 + 1); if raw.len() > 1 { bss.push(raw.len() as u64 - 1); } }
        for bs in bss {
            if raw.len() as u64 / bs > 3000 { continue; }
            let nb = (raw.len() as u64 + bs - 1) / bs;
            for (oi, ord) in orders(&mut rng, nb, 24).into_iter().enumerate() {
                if large && oi >= 2 && !o.thorough { continue; }
                emit(out, format!("asm {} {} {} {} - file={}", kind, bs, hex(raw), join(&ord), path));
            }
        }
    }
    let kinds = ["plain", "gz", "xz", "lz4", "tar"];
    let mut n = 0usize;
    while n < o.n {
        // sizes: boundary cases around the block size first, then random
        let big = rng.chance(1, 40);
        let bs: u64 = if big { *[100u64, 2056, 2057, 4096, 4112, 5000, 65535, 65536, 70000].get(rng.below(9)).unwrap() }
                      else { bss_small[rng.below(bss_small.len())] };
        let len: usize = if big {
            match rng.below(4) { 0 => 65536, 1 => 65536 * 2 + rng.below(3), 2 => (bs as usize) * (1 + rng.below(3)), _ => 60000 + rng.below(140000) }
        } else {
            match rng.below(8) {
                0 => 0, 1 => 1, 2 => bs as usize, 3 => (bs as usize) * (1 + rng.below(6)),
                4 => (bs as usize) * (1 + rng.below(6)) + 1, 5 => ((bs as usize) * (1 + rng.below(6))).saturating_sub(1),
                _ => rng.below((bs as usize) * 12 + 2).min(3000),
            }
        };
        if len as u64 / bs > 400 { continue; }
        let d = gen_data(&mut rng, len);
        let h = hex(&d);
        let nb = (len as u64 + bs - 1) / bs;
        for kind in kinds.iter() {
            let (recipe, segs) = match *kind {
                "gz" => (format!("l{};{};{};{}", rng.below(10), rng.below(16), rng.below(2) * 1_700_000_000, cuts(&mut rng, len)), "-".to_string()),
                "lz4" => {
                    let r = format!("b{};{};{}", 4 + rng.below(4), if rng.chance(1, 2) { "L" } else { "I" }, cuts(&mut rng, len));
                    let (_, s) = build_lz4(&d, &r);
                    (r, segs_str(&s))
                }
                "tar" => (format!("{};{};{}", if rng.chance(1, 2) { "u" } else { "g" }, rng.below(3), rng.below(3)), "-".to_string()),
                _ => ("-".to_string(), "-".to_string()),
            };
            let ords = orders(&mut rng, nb, if big { 12 } else { 30 });
            let pick = if big { vec![ords[0].clone(), ords[rng.below(ords.len())].clone()] } else { ords };
            for ord in pick {
                emit(out, format!("asm {} {} {} {} {} {}", kind, bs, h, join(&ord), segs, recipe));
                n += 1;
            }
        }
    }
    let _ = tmpdir();
}
