//! component `boxp`: `Line::get_boxptrs(a, b)` on REAL `Line`s vs the model.
//!
//! A `Line` with chosen part boundaries is obtained by writing the file bytes to a
//! temp file and reading it through the real `LineReader::find_line(fo)` at block
//! size `bs`: the parts are the pieces of the blocks the line spans.
//!
//! request  boxp <bs> <hex file bytes> <fo> <a> <b>
//! reply    done | err <kind> | panic <msg>
//!        | none | single <hex> | double <hex>,<hex> | multi <hex>,<hex>,…   (`-` = empty slice)
//!          (+ ` LEN-MISMATCH` when `Line::len()` is not the sum of the part lengths)
use crate::c_line::{write_tmp, FT_TEXT};
use crate::util::*;
use s4lib::common::ResultS3;
use s4lib::data::line::LinePartPtrs;
use s4lib::readers::linereader::LineReader;
use std::io::Write;

fn fmt_ptrs(p: &LinePartPtrs) -> String {
    match p {
        LinePartPtrs::NoPtr => "none".to_string(),
        LinePartPtrs::SinglePtr(s) => format!("single {}", hex(s)),
        LinePartPtrs::DoublePtr(s, t) => format!("double {},{}", hex(s), hex(t)),
        LinePartPtrs::MultiPtr(v) => {
            format!("multi {}", v.iter().map(|s| hex(s)).collect::<Vec<_>>().join(","))
        }
    }
}

fn concat(p: &LinePartPtrs) -> Vec<u8> {
    let mut v: Vec<u8> = vec![];
    match p {
        LinePartPtrs::NoPtr => {}
        LinePartPtrs::SinglePtr(s) => v.extend_from_slice(s),
        LinePartPtrs::DoublePtr(s, t) => { v.extend_from_slice(s); v.extend_from_slice(t); }
        LinePartPtrs::MultiPtr(w) => { for s in w.iter() { v.extend_from_slice(s); } }
    }
    v
}

#[derive(Default)]
pub struct Stats {
    pub none: usize,
    pub single: usize,
    pub double: usize,
    pub multi: usize,
    pub other: usize,
    /// result bytes differ from bytes `[a, min(b, len))` of the line
    pub spec_diff: usize,
    /// … of those with `a` inside the first part
    pub spec_diff_a_first: usize,
    /// … of those with a = 0
    pub spec_diff_a_zero: usize,
    /// histogram of the number of parts of the lines used (index = parts, capped at 9)
    pub nparts: [usize; 10],
    /// lines whose first part does not start at a block boundary
    pub first_unaligned: usize,
    pub lines: usize,
}

/// One reader, one `find_line(fo)`, then `get_boxptrs(a, b)` for every pair in `abs`.
/// Returns one reply per pair (or a single reply when there is no line).
fn boxp_many(bs: u64, d: &[u8], fo: u64, abs: &[(usize, usize)], st: &mut Stats) -> Vec<String> {
    let f = write_tmp(d, ".log");
    let path = f.path().to_str().unwrap().to_string();
    let abs_v = abs.to_vec();
    type Out = (Vec<String>, Vec<(u8, bool, bool, bool)>, usize, bool);
    let r: Result<Out, String> = guarded(move || {
        let mut lr = match LineReader::new(path, FT_TEXT, bs) {
            Ok(v) => v,
            Err(e) => return (vec![format!("err-new {}", e.kind())], vec![], 0, false),
        };
        let line = match lr.find_line(fo) {
            ResultS3::Found((_next, l)) => l,
            ResultS3::Done => return (vec!["done".to_string()], vec![], 0, false),
            ResultS3::Err(e) => return (vec![format!("err {}", e.kind())], vec![], 0, false),
        };
        let bytes = line.verif_bytes();
        let parts = line.verif_parts();
        let len_ok = line.len() == bytes.len();
        let first_len = parts.first().map(|(_, b, e)| e - b).unwrap_or(0);
        let unaligned = parts.first().map(|(_, b, _)| *b != 0).unwrap_or(false);
        let mut out = Vec::with_capacity(abs_v.len());
        let mut cls = Vec::with_capacity(abs_v.len());
        for (a, b) in abs_v.iter().copied() {
            // a panic inside one call must not lose the other pairs
            let rr = std::panic::catch_unwind(std::panic::AssertUnwindSafe(|| {
                let p = line.get_boxptrs(a, b);
                let k = match p {
                    LinePartPtrs::NoPtr => 0u8,
                    LinePartPtrs::SinglePtr(_) => 1,
                    LinePartPtrs::DoublePtr(..) => 2,
                    LinePartPtrs::MultiPtr(_) => 3,
                };
                let got = concat(&p);
                let lo = a.min(bytes.len());
                let hi = b.min(bytes.len()).max(lo);
                let diff = got != bytes[lo..hi];
                (fmt_ptrs(&p), k, diff)
            }));
            match rr {
                Ok((s, k, diff)) => {
                    out.push(if len_ok { s } else { format!("{} LEN-MISMATCH", s) });
                    cls.push((k, diff, a < first_len, a == 0));
                }
                Err(_) => {
                    out.push("panic".to_string());
                    cls.push((4, false, false, false));
                }
            }
        }
        (out, cls, parts.len(), unaligned)
    });
    match r {
        Ok((out, cls, np, unaligned)) => {
            if np > 0 {
                st.lines += 1;
                st.nparts[np.min(9)] += 1;
                if unaligned { st.first_unaligned += 1; }
            }
            for (k, diff, afirst, azero) in cls {
                match k { 0 => st.none += 1, 1 => st.single += 1, 2 => st.double += 1, 3 => st.multi += 1, _ => st.other += 1 }
                if diff {
                    st.spec_diff += 1;
                    if afirst { st.spec_diff_a_first += 1; }
                    if azero { st.spec_diff_a_zero += 1; }
                }
            }
            if out.len() == abs.len() { out } else { vec![out[0].clone(); abs.len()] }
        }
        Err(m) => vec![format!("panic {}", m); abs.len()],
    }
}

pub fn replay_line(req: &str) -> String {
    let w: Vec<&str> = req.split_whitespace().collect();
    if w.len() != 6 || w[0] != "boxp" { return "bad-op".to_string(); }
    let bs: u64 = w[1].parse().unwrap();
    let d = unhex(w[2]);
    let fo: u64 = w[3].parse().unwrap();
    let a: usize = w[4].parse().unwrap();
    let b: usize = w[5].parse().unwrap();
    let mut st = Stats::default();
    boxp_many(bs, &d, fo, &[(a, b)], &mut st).remove(0)
}

/// all `a ≤ b ≤ len + 2`
fn all_pairs(len: usize) -> Vec<(usize, usize)> {
    let mut v = vec![];
    for a in 0..=(len + 2) { for b in a..=(len + 2) { v.push((a, b)); } }
    v
}

/// `n` distinct-looking bytes, never NL
fn body(start: u8, n: usize) -> Vec<u8> {
    (0..n).map(|i| { let c = start.wrapping_add(i as u8); if c == b'\n' { 0xEE } else { c } }).collect()
}

fn emit_all(out: &mut dyn Write, st: &mut Stats, bs: u64, d: &[u8], fo: u64, line_len: usize) {
    let abs = all_pairs(line_len);
    let rs = boxp_many(bs, d, fo, &abs, st);
    let h = hex(d);
    for ((a, b), r) in abs.iter().zip(rs.iter()) {
        writeln!(out, "boxp {} {} {} {} {}\t{}", bs, h, fo, a, b, r).unwrap();
    }
}

pub fn run(o: &Opts, out: &mut dyn Write) {
    quiet_panics();
    let mut rng = Rng::new(o.seed ^ 0xb0c5);
    let mut st = Stats::default();
    // (1) a single line `body NL` at offset 0: parts = blocks; every bs giving 1..8+ parts
    let maxl = if o.thorough { 24 } else { 14 };
    for l in 1..=maxl {
        for bs in 1..=(l + 1) {
            let mut d = body(0x41, l - 1);
            d.push(b'\n');
            emit_all(out, &mut st, bs as u64, &d, 0, l);
            // same line, no trailing newline (line ends at end of file)
            if l >= 2 && (bs <= 4 || bs == l) {
                let d2 = body(0x41, l);
                emit_all(out, &mut st, bs as u64, &d2, 0, l);
            }
        }
    }
    // (2) a short first line, then the line of interest (first part starts inside a
    // block), then a third line (last part ends inside a block); find_line at an
    // offset inside the second line
    let max1 = if o.thorough { 5 } else { 3 };
    let max2 = if o.thorough { 16 } else { 11 };
    for l1 in 1..=max1 {
        for l2 in 1..=max2 {
            for bs in 1..=(l2.min(9) + 1) {
                for third in [0usize, 2] {
                    let mut d = body(0x61, l1 - 1);
                    d.push(b'\n');
                    d.extend(body(0x30, l2 - 1));
                    d.push(b'\n');
                    if third > 0 { d.extend(body(0x78, third - 1)); d.push(b'\n'); }
                    // offset inside the second line: first, middle or last byte
                    let fo = l1 + [0, l2 / 2, l2 - 1][(l1 + l2 + bs) % 3];
                    emit_all(out, &mut st, bs as u64, &d, fo as u64, l2);
                }
            }
        }
    }
    // (3) random files / block sizes / offsets; a sample of (a, b) pairs per line
    for _ in 0..o.n {
        let nlines = 1 + rng.below(4);
        let mut d: Vec<u8> = vec![];
        for i in 0..nlines {
            let l = if rng.chance(1, 6) { rng.below(60) } else { rng.below(14) };
            d.extend(body(0x30 + (i as u8) * 0x20, l));
            d.push(b'\n');
        }
        if rng.chance(1, 3) { d.pop(); }
        if d.is_empty() { d.push(b'x'); }
        let bs = match rng.below(3) { 0 => 1 + rng.below(3), 1 => 1 + rng.below(8), _ => 1 + rng.below(d.len() + 2) };
        let fo = rng.below(d.len() + 1);
        // bounds of the line holding fo (to size the (a, b) range)
        let ll = if fo < d.len() {
            let mut beg = fo; while beg > 0 && d[beg - 1] != b'\n' { beg -= 1; }
            let mut end = fo; while end < d.len() - 1 && d[end] != b'\n' { end += 1; }
            end - beg + 1
        } else { 0 };
        let mut abs: Vec<(usize, usize)> = vec![];
        for _ in 0..12 {
            let a = rng.below(ll + 3);
            let b = a + rng.below(ll + 3 - a);
            abs.push((a, b));
        }
        let rs = boxp_many(bs as u64, &d, fo as u64, &abs, &mut st);
        let h = hex(&d);
        for ((a, b), r) in abs.iter().zip(rs.iter()) {
            writeln!(out, "boxp {} {} {} {} {}\t{}", bs, h, fo, a, b, r).unwrap();
        }
    }
    eprintln!(
        "boxp: lines {} (first part unaligned {}), parts histogram 1..9+ {:?}; results none {} single {} double {} multi {} other {}; differs-from-spec {} (a in first part {}, a = 0 {})",
        st.lines, st.first_unaligned, &st.nparts[1..], st.none, st.single, st.double, st.multi, st.other,
        st.spec_diff, st.spec_diff_a_first, st.spec_diff_a_zero
    );
}
