//! component `e2e` (C04, end-to-end regex slice): the `time norm` requests of component `time` — the REAL
//! `bytes_to_regex_to_datetime` on the row's `range_regex` slice of a rendered line, every DTPD! row — re-labelled
//!   e2e norm <row> <hex line> <fill year|n> <off s> [<group>=<hex> …]   -> ns | none | panic …
//! so that `drvmux` routes them to `drv_regexe2e`, which answers with the model's WHOLE pipeline on the line
//! (`S4V.Lemmas.RegexE2E.rowPipeline`: slice, generated regex `search`, named groups → buffer → chrono model; the
//! `<group>=<hex>` fields that `drv_time` uses instead of the regex are ignored there).
//! Plus the fixed witness lines of `S4V.Props.RegexE2ESpec` (stamps longer than `range_regex.end`, Feb 30, hour 24,
//! epoch rows, the rows' own test lines; zone out of range, Feb 29, second 60 of `RegexE2EShapeSpec`), so that the `none` replies and the findings F28 / F34 / F35 are replayed too.
use crate::util::*;
use std::io::Write;

/// (row, line, fill year or "n", offset seconds)
const WITNESSES: [(usize, &str, &str, i32); 30] = [
    (90, "2023 September 30 20:01:05 +05:30 [ERROR] x", "n", 0),
    (91, "2023 September 30 20:01:05 +0530 [ERROR] x", "n", 0),
    (92, "2023 September 30 20:01:05 +05:30 [ERROR] x", "n", 0),
    (93, "2023 September 30 20:01:05 WEST [ERROR] x", "n", 0),
    (94, "2023 September 30 20:01:05 [ERROR] x", "2024", 0),
    (172, "2023 September 30 20:01:05 [ERROR] x", "2024", 0),
    (172, "2023 September 30 20:01:05 +05:30 [ERROR] x", "n", 0),
    (90, "2023 Sep 30 20:01:05 +05:30 [ERROR] x", "n", 0),
    (35, "Wednesday, September 30, 2024, 01:02:00 -08:15 m", "n", 0),
    (36, "Wednesday, September 30, 2024, 01:02:00 -08:15 m", "n", 0),
    (79, "2023-02-30 12:00:00 x", "n", 0),
    (79, "2023-02-28 24:00:00 x", "n", 0),
    (79, "2023-02-28 12:00:00 x", "n", 0),
    (100, "1716853121 execve(", "n", 18000),
    (100, "1716853121 execve(", "n", 0),
    (71, "2000-01-01 00:00:02.123456789 -11:30 foo", "n", 0),
    (6, "[22-Feb-17 21:24:20] Section [ALLOWED-CLIENTS] Invalid entry", "n", 0),
    (23, "<14>Jan  1 15:00:36 HOST dropbear", "2021", -28800),
    (95, "[2019-03-01 16:56] [PACMAN] synchronizing package lists", "n", 19800),
    (0, "[2000/01/01 00:00:01.123] ../source3/smbd/oplock.c:1340(init_oplocks)", "n", 3600),
    (5, "[2020/03/05 12:17:59.631000, FOOOOOOOOOOOOOOOOOOOO] x", "n", 0),
    // S4V.Props.RegexE2EShapeSpec: outside `calendarOK` (zone hours / minutes, Feb 29) and second 60 inside it
    (71, "2000-01-01 00:00:02.123456789 +24:00 foo", "n", 0),
    (71, "2000-01-01 00:00:02.123456789 +23:59 foo", "n", 0),
    (71, "2000-01-01 00:00:02.123456789 +23:60 foo", "n", 0),
    (71, "2000-01-01 00:00:02.123456789 -29:99 foo", "n", 0),
    (71, "2001-02-29 00:00:00.123456789 -11:30 foo", "n", 0),
    (71, "2000-02-29 00:00:00.123456789 -11:30 foo", "n", 0),
    (71, "2000-01-01 00:00:60.123456789 -11:30 foo", "n", 0),
    (79, "2023-02-28 12:60:00 x", "n", 0),
    (71, "2000-01-01 00:00:02.1234567890123 -11:30 foo", "n", 0),
];

pub fn replay_line(req: &str) -> String {
    match req.strip_prefix("e2e ") {
        Some(rest) => crate::c_time::replay_line(&format!("time {}", rest)),
        None => "bad-op".to_string(),
    }
}

pub fn run(o: &Opts, out: &mut dyn Write) {
    for (row, line, fill, off) in WITNESSES.iter() {
        let req = format!("e2e norm {} {} {} {}", row, hex(line.as_bytes()), fill, off);
        let rep = replay_line(&req);
        writeln!(out, "{}\t{}", req, rep).unwrap();
    }
    let mut buf: Vec<u8> = Vec::new();
    crate::c_time::run(o, &mut buf);
    for l in String::from_utf8_lossy(&buf).lines() {
        if let Some(rest) = l.strip_prefix("time norm ") {
            writeln!(out, "e2e norm {}", rest).unwrap();
        }
    }
}
