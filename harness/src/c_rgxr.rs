//! `rgxr` — rendered inputs for the rows covered by `S4V.Props.RegexCapture2` / `RegexCapture2Auto`:
//! every covered row of `DATETIME_PARSE_DATAS` gets lines RENDERED from field values over the
//! theorems' value ranges (boundary years, leap days, every month / month-name case form, 2-digit /
//! 1-digit / space-padded days, every separator choice, 24:00, second 60, numeric zones, every zone
//! abbreviation of the row's alternation, PRI 0–191, epoch boundaries) followed by tails (empty,
//! blank, punctuation, letter, digit, multi-byte, invalid UTF-8) — including renderings OUTSIDE the
//! theorems' hypotheses (digit tails, absent separators before a 1-digit day, space-padded days after
//! greedy blanks) so that the `_full_false` witnesses' neighbourhood is exercised too.
//! Requests are `rgx m <row> <hex>` (the `rgx` component's op: same driver, `drv_regex`), replies as there.
//!
//! Rows covered by the AUTOMATIC catalogues (`S4V.Props.RegexCapture3*`; the list `rgxr_auto_rows.txt` is
//! written by tools/mk_regexcap3.py) are rendered from the row's own AST (`rgx_rows.txt`) the way the Lean
//! catalogue enumerates it: per item one alternative / one repetition count (all bounded counts; min, min+1
//! and sometimes more for unbounded ones) / one ASCII member of every class (with the boundaries of every
//! range) — the head `^` / `(^|x)` and the final `([class]|$)` are not rendered; a tail follows. Renderings
//! OUTSIDE the catalogues (space-padded days after greedy blanks, 1-digit days before digits, prefixes before
//! `(^|x)` heads, extra repetitions) occur too.
use std::io::Write;

use crate::c_rgx::{load_rows, Ast};
use crate::util::{hex, Opts, Rng};
use regex::bytes::Regex;
use s4lib::data::datetime::DATETIME_PARSE_DATAS;

/// rows with hand-written renderers (the rows of `rgxr_auto_rows.txt` are rendered from their AST: `render_auto`)
pub const ROWS: &[usize] = &[79, 75, 76, 77, 78, 15, 12, 19, 23, 38, 100, 94, 58];

fn answer(re: &Regex, data: &[u8]) -> String {
    match re.captures(data) {
        None => "none".to_string(),
        Some(c) => {
            let m0 = c.get(0).unwrap();
            let mut s = format!("M {},{}", m0.start(), m0.end());
            for name in re.capture_names().flatten() {
                match c.name(name) {
                    Some(m) => s.push_str(&format!(" {}={},{}", name, m.start(), m.end())),
                    None => s.push_str(&format!(" {}=-", name)),
                }
            }
            s
        }
    }
}

const MONTHS: &[&str] = &["january", "february", "march", "april", "may", "june", "july", "august", "september", "october", "november", "december"];
const DAYS: &[&str] = &["monday", "tuesday", "wednesday", "thursday", "friday", "saturday", "sunday"];
const ZONES: &[&str] = &["Z", "z", "UTC", "utc", "UT", "PST", "pst", "PET", "PETT", "WIT", "WITA", "ACDT", "ACWST", "CHADT", "zulu", "ZULU", "VLAT", "WGST", "EST", "IST", "CST", "YEKT"];

fn case_form(s: &str, r: &mut Rng) -> String {
    match r.below(3) {
        0 => s.to_string(),
        1 => {
            let mut c = s.chars();
            let f = c.next().unwrap().to_ascii_uppercase();
            format!("{}{}", f, c.as_str())
        }
        _ => s.to_ascii_uppercase(),
    }
}

fn month_name(m: usize, r: &mut Rng) -> String {
    let full = MONTHS[m - 1];
    if r.chance(1, 3) {
        case_form(full, r)
    } else {
        let mut s = case_form(&full[..3], r);
        if r.chance(1, 4) {
            s.push('.');
        }
        s
    }
}

struct F {
    y: u32,
    m: usize,
    d: u32,
    hh: u32,
    mi: u32,
    ss: u32,
}

fn fields(r: &mut Rng) -> F {
    let y = match r.below(8) {
        0 => 1970,
        1 => 2099,
        2 => 1999,
        3 => 2000,
        4 => 2024,
        5 => 1969,
        _ => 1970 + r.below(130) as u32,
    };
    let m = 1 + r.below(12);
    let d = match r.below(6) {
        0 => 1,
        1 => 31,
        2 => 29,
        3 => 9,
        4 => 10,
        _ => 1 + r.below(31) as u32,
    };
    let (m, d) = if r.chance(1, 12) { (2, 29) } else { (m, d) };
    let hh = match r.below(6) { 0 => 0, 1 => 23, 2 => 24, _ => r.below(24) as u32 };
    let mi = match r.below(5) { 0 => 0, 1 => 59, _ => r.below(60) as u32 };
    let ss = match r.below(6) { 0 => 0, 1 => 59, 2 => 60, _ => r.below(60) as u32 };
    F { y, m, d, hh, mi, ss }
}

/// day in one of the three forms; `allow_pad`: the space-padded form too
fn day(d: u32, r: &mut Rng, allow_pad: bool) -> String {
    if d < 10 {
        match r.below(if allow_pad { 3 } else { 2 }) {
            0 => format!("{:02}", d),
            1 => format!("{}", d),
            _ => format!(" {}", d),
        }
    } else {
        format!("{:02}", d)
    }
}

fn pick_s(r: &mut Rng, v: &[&str]) -> String {
    v[r.below(v.len())].to_string()
}

fn hms(f: &F, r: &mut Rng) -> String {
    let c1 = pick_s(r, &[":", ":", ":", ""]);
    let c2 = if c1.is_empty() { String::new() } else { pick_s(r, &[":", ":", ":", ""]) };
    format!("{:02}{}{:02}{}{:02}", f.hh, c1, f.mi, c2, f.ss)
}

fn iso(f: &F, r: &mut Rng, mandatory_sep: bool) -> String {
    let s1 = if mandatory_sep { pick_s(r, &["-", "/", " "]) } else { pick_s(r, &["-", "-", "/", " ", ""]) };
    let s2 = if mandatory_sep { pick_s(r, &["-", "/", " "]) } else { pick_s(r, &["-", "-", "/", " ", ""]) };
    let st = pick_s(r, &[" ", "T", "T", "-", ":", ""]);
    format!("{:04}{}{:02}{}{}{}{}", f.y, s1, f.m, s2, day(f.d, r, true), st, hms(f, r))
}

fn zone_num(r: &mut Rng, form: usize) -> String {
    let sign = pick_s(r, &["+", "-", "+", "-", "\u{2212}"]);
    let oh = match r.below(5) { 0 => 0, 1 => 14, 2 => 29, 3 => 23, _ => r.below(30) as u32 };
    let om = match r.below(4) { 0 => 0, 1 => 30, 2 => 99, _ => r.below(100) as u32 };
    match form {
        0 => format!("{}{:02}:{:02}", sign, oh, om),
        1 => format!("{}{:02}{:02}", sign, oh, om),
        _ => format!("{}{:02}", sign, oh),
    }
}

fn pri(r: &mut Rng) -> String {
    let n = match r.below(5) { 0 => 0, 1 => 191, 2 => 9, 3 => 999, _ => r.below(192) };
    format!("<{}>{}", n, pick_s(r, &["", "", " ", "\t"]))
}

fn blanks(r: &mut Rng) -> String {
    pick_s(r, &[" ", " ", " ", "  ", "\t", " \t"])
}

const TAILS: &[&[u8]] = &[
    b"", b"", b" host app[1]: msg", b" ", b"\t", b"]", b": x", b",", b"Z", b"z", b"a", b"PST", b"0", b"7 x", b"+01", b"-", b".123", b"\n",
    "é".as_bytes(), "−".as_bytes(), "😀".as_bytes(), b"\xff", b"\x80", b"\xc3", b"\xed\xa0\x80",
];

fn render(row: usize, r: &mut Rng) -> Vec<u8> {
    let f = fields(r);
    let s: String = match row {
        79 => iso(&f, r, false),
        75 | 76 | 77 => {
            let form = match row { 76 => 0, 75 => 1, _ => 2 };
            format!("{}{}{}", iso(&f, r, false), pick_s(r, &["", " ", " ", "\t"]), zone_num(r, form))
        }
        78 => format!("{}{}{}", iso(&f, r, false), pick_s(r, &["", " ", " "]), ZONES[r.below(ZONES.len())]),
        15 => format!("{}{}", pri(r), iso(&f, r, true)),
        12 => format!("{}{}{}{}", pri(r), iso(&f, r, true), pick_s(r, &["", " "]), zone_num(r, 0)),
        19 => format!("{}{}{}{}{}{}{}{:04}", pri(r), month_name(f.m, r), blanks(r), day(f.d, r, true), pick_s(r, &[" ", " ", "\t"]), hms(&f, r), blanks(r), f.y),
        23 => format!("{}{}{}{}{}{}{}", pri(r), month_name(f.m, r), blanks(r), day(f.d, r, true), pick_s(r, &[" ", " ", "\t"]), hms(&f, r), pick_s(r, &["", " ", "  "])),
        38 => {
            let dn = DAYS[r.below(7)];
            let mut dname = case_form(&dn[..3], r);
            if r.chance(1, 5) { dname.push('.'); }
            let mut mn = case_form(&MONTHS[f.m - 1][..3], r);
            if r.chance(1, 5) { mn.push('.'); }
            format!("{},{}{}{}{}{}{:04}{}{}{}{}{}", dname, pick_s(r, &[" ", "\t"]), day(f.d, r, true), pick_s(r, &[" ", "\t"]), mn,
                pick_s(r, &[" ", "\t"]), f.y, pick_s(r, &["", ","]), pick_s(r, &[" ", "\t"]), hms(&f, r), pick_s(r, &[" ", "  ", "\t"]), zone_num(r, 1))
        }
        100 => {
            let e: u64 = match r.below(6) { 0 => 900_000_000, 1 => 999_999_999, 2 => 1_000_000_000, 3 => 2_999_999_999, 4 => 1_716_853_121, _ => 900_000_000 + (r.next() % 2_100_000_000) };
            format!("{}{}{}", e, pick_s(r, &[" ", "\t"]), pick_s(r, &["e", "x", "[", "1", "\n", "é"]))
        }
        94 => format!("{:04}{}{}{}{}{}{}", f.y, pick_s(r, &[" ", "  ", "\t"]), month_name(f.m, r), pick_s(r, &["", " ", "  ", "\t"]), day(f.d, r, true),
            pick_s(r, &[" ", "  ", "\t", ""]), hms(&f, r)),
        58 => {
            let mut mn = case_form(&MONTHS[f.m - 1][..3], r);
            if r.chance(1, 5) { mn.push('.'); }
            format!("{}{}{}{}{:04}{}{}{}{:03}", day(f.d, r, true), pick_s(r, &["-", "-", "/", " ", ""]), mn, pick_s(r, &["-", "-", "/", " ", ""]), f.y,
                pick_s(r, &[" ", "\t"]), hms(&f, r), pick_s(r, &[".", ","]), r.below(1000))
        }
        _ => unreachable!(),
    };
    let mut v = s.into_bytes();
    v.extend_from_slice(TAILS[r.below(TAILS.len())]);
    v
}

const AUTO_ROWS: &str = include_str!("rgxr_auto_rows.txt");

pub fn auto_rows() -> Vec<usize> {
    AUTO_ROWS.split_whitespace().map(|x| x.parse().unwrap()).collect()
}

fn is_head(a: &Ast) -> bool {
    match a {
        Ast::Bol => true,
        Ast::Grp(x) => matches!(&**x, Ast::Alt(v) if v.iter().any(|y| matches!(y, Ast::Bol))),
        _ => false,
    }
}

fn is_end_group(a: &Ast) -> bool {
    match a {
        Ast::Grp(x) => matches!(&**x, Ast::Alt(v) if v.len() == 2 && matches!(v[0], Ast::Cls(_)) && matches!(v[1], Ast::Eol)),
        _ => false,
    }
}

/// one rendering of an item, the way `symEntriesOf` enumerates it (ASCII members only)
fn render_item(a: &Ast, r: &mut Rng, out: &mut Vec<u8>) {
    match a {
        Ast::Eps | Ast::Bol | Ast::Eol => {}
        Ast::Lit(b) => out.extend_from_slice(b),
        Ast::Cls(rs) => {
            let ascii: Vec<(u32, u32)> = rs.iter().filter(|&&(lo, _)| lo < 128).map(|&(lo, hi)| (lo, hi.min(127))).collect();
            if ascii.is_empty() {
                return;
            }
            let (lo, hi) = ascii[r.below(ascii.len())];
            let c = match r.below(4) { 0 => lo, 1 => hi, _ => lo + r.below((hi - lo + 1) as usize) as u32 };
            // mostly printable
            let c = if c < 32 && c != 9 && hi >= 32 && !r.chance(1, 8) { 32.max(lo) } else { c };
            out.push(c as u8);
        }
        Ast::Cat(v) => v.iter().for_each(|x| render_item(x, r, out)),
        Ast::Alt(v) => render_item(&v[r.below(v.len())], r, out),
        Ast::Rep(lo, hi, x) => {
            let n = match hi {
                Some(h) => lo + r.below(h - lo + 1),
                None => if r.chance(1, 10) { lo + 2 + r.below(3) } else { lo + r.below(2) },
            };
            for _ in 0..n {
                render_item(x, r, out);
            }
        }
        Ast::Grp(x) => render_item(x, r, out),
    }
}

const PREFIX: &[&[u8]] = &[b" ", b"[", b": ", b"x", b"7", b"host ", b"\t", "é".as_bytes(), b"\xff"];

fn render_auto(ast: &Ast, r: &mut Rng) -> Vec<u8> {
    let items: Vec<&Ast> = match ast { Ast::Cat(v) => v.iter().collect(), x => vec![x] };
    let mut out = vec![];
    let first = if is_head(items[0]) { 1 } else { 0 };
    if first == 1 && !matches!(items[0], Ast::Bol) && r.chance(1, 6) {
        out.extend_from_slice(PREFIX[r.below(PREFIX.len())]);
    }
    let last = if is_end_group(items[items.len() - 1]) { items.len() - 1 } else { items.len() };
    for it in &items[first..last] {
        render_item(it, r, &mut out);
    }
    out.extend_from_slice(TAILS[r.below(TAILS.len())]);
    out
}

pub fn replay_line(req: &str) -> String {
    crate::c_rgx::replay_line(req)
}

pub fn run(o: &Opts, out: &mut dyn Write) {
    let mut r = Rng::new(o.seed ^ 0x7267_7872);
    let auto = auto_rows();
    let per_row = (o.n / (ROWS.len() + auto.len())).max(50);
    for &row in ROWS {
        let re = Regex::new(DATETIME_PARSE_DATAS[row].regex_pattern).unwrap();
        writeln!(out, "# row {} x {}", row, per_row).unwrap();
        for _ in 0..per_row {
            let data = render(row, &mut r);
            writeln!(out, "rgx m {} {}\t{}", row, hex(&data), answer(&re, &data)).unwrap();
        }
    }
    let rows = load_rows();
    assert_eq!(rows.len(), DATETIME_PARSE_DATAS.len(), "rgx_rows.txt is stale: regenerate with gen/s4gen.py Regex");
    for &row in &auto {
        let re = Regex::new(DATETIME_PARSE_DATAS[row].regex_pattern).unwrap();
        writeln!(out, "# row {} x {} (auto)", row, per_row).unwrap();
        assert_eq!(rows[row].idx, row);
        for _ in 0..per_row {
            let data = render_auto(&rows[row].ast, &mut r);
            writeln!(out, "rgx m {} {}\t{}", row, hex(&data), answer(&re, &data)).unwrap();
        }
    }
}
