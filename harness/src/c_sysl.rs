//! component `sysl`: SyslineReader vs the model (message layer).
//!
//! request: sysl <bs> <plain|gz> <hex d> <ops..>
//!   s<fo>          find_sysline(fo)                      -> found <next> <beg> <end> <dt> | done
//!   b<fo>:<A>      find_sysline_at_datetime_filter(fo,A) -> same   (binary search on plain, linear on gz)
//!   w<A|n>:<B|n>   loop of find_sysline_between_datetime_filters from 0 (as exec_syslogprocessor)
//!                                                        -> msgs <beg>-<end>-<dt>,...
//! All ops of one request share one reader (so later ops run on warm caches).
use crate::c_line::write_tmp;
use crate::util::*;
use chrono::{FixedOffset, TimeZone};
use s4lib::common::{FileType, FileTypeArchive, FileTypeTextEncoding, ResultS3};
use s4lib::data::datetime::DateTimeLOpt;
use s4lib::readers::syslinereader::SyslineReader;
use std::io::Write;

fn dt_opt(s: &str) -> DateTimeLOpt {
    if s == "n" { return None; }
    let t: i64 = s.parse().unwrap();
    Some(FixedOffset::east_opt(0).unwrap().timestamp_opt(t, 0).unwrap())
}

fn run_ops(bs: u64, path: &str, gz: bool, d: &[u8], ops: &[String]) -> String {
    let p = path.to_string();
    let d = d.to_vec();
    let ops = ops.to_vec();
    let r = guarded(move || {
        let ft = FileType::Text {
            archival_type: if gz { FileTypeArchive::Gz } else { FileTypeArchive::Normal },
            encoding_type: FileTypeTextEncoding::Utf8Ascii,
        };
        let mut sr = match SyslineReader::new(p, ft, bs, FixedOffset::east_opt(0).unwrap()) {
            Ok(v) => v,
            Err(e) => return format!("err-new {}", e.kind()),
        };
        let mut out: Vec<String> = vec![];
        let show = |next: u64, s: &s4lib::data::sysline::SyslineP, d: &[u8]| -> String {
            let (b, e) = (s.fileoffset_begin() as usize, s.fileoffset_end() as usize);
            let okb = e < d.len() && b <= e && s.verif_bytes() == d[b..=e];
            format!("found {} {} {} {}{}", next, b, e, s.dt().timestamp(), if okb { "" } else { " BYTES-MISMATCH" })
        };
        for op in ops.iter() {
            let kind = &op[..1];
            let rest = &op[1..];
            match kind {
                "s" => {
                    let fo: u64 = rest.parse().unwrap();
                    match sr.find_sysline(fo) {
                        ResultS3::Found((next, s)) => out.push(show(next, &s, &d)),
                        ResultS3::Done => out.push("done".to_string()),
                        ResultS3::Err(e) => out.push(format!("err {}", e.kind())),
                    }
                }
                "b" => {
                    let mut it = rest.split(':');
                    let fo: u64 = it.next().unwrap().parse().unwrap();
                    let a = dt_opt(it.next().unwrap());
                    match sr.find_sysline_at_datetime_filter(fo, &a) {
                        ResultS3::Found((next, s)) => out.push(show(next, &s, &d)),
                        ResultS3::Done => out.push("done".to_string()),
                        ResultS3::Err(e) => out.push(format!("err {}", e.kind())),
                    }
                }
                "w" => {
                    let mut it = rest.split(':');
                    let a = dt_opt(it.next().unwrap());
                    let b = dt_opt(it.next().unwrap());
                    let mut msgs: Vec<String> = vec![];
                    let mut fo: u64 = 0;
                    let mut guard = 0;
                    loop {
                        guard += 1;
                        if guard > d.len() + 5 { msgs.push("LOOP".to_string()); break; }
                        match sr.find_sysline_between_datetime_filters(fo, &a, &b) {
                            ResultS3::Found((next, s)) => {
                                let (bb, e) = (s.fileoffset_begin() as usize, s.fileoffset_end() as usize);
                                let okb = e < d.len() && bb <= e && s.verif_bytes() == d[bb..=e];
                                msgs.push(format!("{}-{}-{}{}", bb, e, s.dt().timestamp(), if okb { "" } else { "-BYTES" }));
                                if sr.is_sysline_last(&s) { break; }
                                fo = next;
                            }
                            ResultS3::Done => break,
                            ResultS3::Err(e) => { msgs.push(format!("err-{}", e.kind())); break; }
                        }
                    }
                    out.push(format!("msgs {}", msgs.join(",")));
                }
                _ => out.push("bad-op".to_string()),
            }
        }
        out.join(";")
    });
    match r { Ok(s) => s, Err(m) => format!("panic {}", m) }
}

pub fn replay_line(req: &str) -> String {
    let w: Vec<&str> = req.split_whitespace().collect();
    if w.len() < 5 || w[0] != "sysl" { return "bad-op".to_string(); }
    let bs: u64 = w[1].parse().unwrap();
    let gz = w[2] == "gz";
    let d = unhex(w[3]);
    let f = if gz {
        let mut enc = flate2::write::GzEncoder::new(Vec::new(), flate2::Compression::default());
        enc.write_all(&d).unwrap();
        write_tmp(&enc.finish().unwrap(), ".log.gz")
    } else {
        write_tmp(&d, ".log")
    };
    let path = f.path().to_str().unwrap().to_string();
    let ops: Vec<String> = w[4..].iter().map(|s| s.to_string()).collect();
    run_ops(bs, &path, gz, &d, &ops)
}

fn ts(t: i64) -> String {
    FixedOffset::east_opt(0).unwrap().timestamp_opt(t, 0).unwrap().format("%Y-%m-%d %H:%M:%S").to_string()
}

const CONT: &[&str] = &["  at alpha beta", "", "\tcaused by gamma", "continued line", " x", "    ", "end."];

/// a small log: (data, message start offsets, instants)
pub fn gen_log(rng: &mut Rng, maxmsgs: usize, sorted: bool) -> (Vec<u8>, Vec<i64>) {
    let mut d: Vec<u8> = vec![];
    let mut times = vec![];
    for _ in 0..rng.below(3) {
        if rng.chance(1, 3) { d.extend(rng.pick(CONT).as_bytes()); d.push(b'\n'); }
    }
    let n = 1 + rng.below(maxmsgs);
    let mut t: i64 = 1_600_000_000 + rng.below(100000) as i64;
    for _ in 0..n {
        if sorted { t += rng.pick(&[0i64, 0, 1, 1, 2, 7, 3600]); } else { t += rng.range(-5, 5); }
        times.push(t);
        d.extend(ts(t).as_bytes());
        match rng.below(4) {
            0 => {}
            1 => d.extend(b" m"),
            _ => { d.extend(b" msg "); for _ in 0..rng.below(12) { d.push(b'a' + rng.below(26) as u8); } }
        }
        if rng.chance(1, 8) { d.push(b'\r'); }
        d.push(b'\n');
        if rng.chance(1, 3) {
            for _ in 0..(1 + rng.below(3)) {
                if rng.chance(1, 4) {
                    // a long continuation line (longer than a small block), digit-free
                    d.extend(b"  long ");
                    for _ in 0..(60 + rng.below(160)) { d.push(b'a' + rng.below(26) as u8); }
                } else {
                    d.extend(rng.pick(CONT).as_bytes());
                }
                d.push(b'\n');
            }
        }
    }
    if rng.chance(1, 3) { d.pop(); }
    (d, times)
}

pub fn run(o: &Opts, out: &mut dyn Write) {
    quiet_panics();
    let mut rng = Rng::new(o.seed ^ 0x5155);
    let emit = |out: &mut dyn Write, req: String| {
        let r = replay_line(&req);
        writeln!(out, "{}\t{}", req, r).unwrap();
    };
    for i in 0..o.n {
        let sorted = i % 7 != 6;
        let mm = if rng.chance(1, 4) { 30 } else { 8 };
        let (d, times) = gen_log(&mut rng, mm, sorted);
        let h = hex(&d);
        let bs = match rng.below(5) { 0 => 1 + rng.below(4), 1 => 1 + rng.below(24), 2 => 16 + rng.below(64), 3 => 1 + rng.below(d.len() + 3), _ => 0x1000 } as u64;
        let tmin = *times.iter().min().unwrap();
        let tmax = *times.iter().max().unwrap();
        let pick_t = |rng: &mut Rng| -> String {
            match rng.below(6) {
                0 => "n".to_string(),
                1 => (tmin - 1).to_string(),
                2 => (tmax + 1).to_string(),
                _ => { let t = times[rng.below(times.len())]; (t + rng.range(-1, 1)).to_string() }
            }
        };
        // plain: random access + searches + windows on one reader
        let mut ops: Vec<String> = vec![];
        for _ in 0..(1 + rng.below(8)) {
            match rng.below(10) {
                0..=4 => ops.push(format!("s{}", rng.below(d.len() + 2))),
                5..=7 => if sorted { ops.push(format!("b{}:{}", if rng.chance(2, 3) { 0 } else { rng.below(d.len() + 1) }, pick_t(&mut rng))) }
                          else { ops.push(format!("s{}", rng.below(d.len() + 2))) },
                _ => if sorted { let a = pick_t(&mut rng); let b = pick_t(&mut rng);
                                 let (a, b) = match (a.parse::<i64>(), b.parse::<i64>()) { (Ok(x), Ok(y)) if x > y => (b, a), _ => (a, b) };
                                 ops.push(format!("w{}:{}", a, b)) }
                     else { ops.push("wn:n".to_string()) },
            }
        }
        emit(out, format!("sysl {} plain {} {}", bs, h, ops.join(" ")));
        // fresh single-op requests (cold caches)
        emit(out, format!("sysl {} plain {} s{}", bs, h, rng.below(d.len() + 1)));
        if sorted {
            emit(out, format!("sysl {} plain {} b0:{}", bs, h, pick_t(&mut rng)));
            let a = pick_t(&mut rng); let b = pick_t(&mut rng);
            let (a, b) = match (a.parse::<i64>(), b.parse::<i64>()) { (Ok(x), Ok(y)) if x > y => (b, a), _ => (a, b) };
            emit(out, format!("sysl {} plain {} w{}:{}", bs, h, a, b));
            // streamed (gz): forward only
            if i % 3 == 0 {
                emit(out, format!("sysl {} gz {} w{}:{}", std::cmp::max(bs, 2), h, a, b));
            }
        }
    }
}
