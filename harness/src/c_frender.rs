//! component `frender`: the REAL `FixedStruct::new` + `FixedStruct::as_bytes` (the text of one printed
//! accounting record) on records of EVERY `FixedStructType` layout, against `S4V.Model.FixedRender.renderInto`
//! over the generated render programs (driver op `frender`, executable `drv_frender`).
//!
//! request   frender <buffer capacity> <FixedStructType variant> <hex record>
//! reply     ok <hex text> <dt_beg> <dt_end>   `InfoAsBytes::Ok(at, dt_beg, dt_end)`; text = `buffer[..at]`
//!           fail <hex text>                    `InfoAsBytes::Fail(at)`; text = `buffer[..at]` (what the printers still print)
//!           err                                `FixedStruct::new` returned `Err` (all-0x00 / all-0xFF record, time outside chrono's range)
//!           bad-layout | bad-size (record length != `t.size()`; the implementation is not called)
use crate::util::*;
use chrono::FixedOffset;
use s4lib::data::fixedstruct::{FixedStruct, FixedStructType, InfoAsBytes, ENTRY_SZ_MAX};
use std::collections::BTreeMap;
use std::io::Write;

use FixedStructType::*;

/// where the interesting fields lie: used only to FORCE values into generated records (printed by
/// `python3 gen/gen_fixedrender.py`); the request carries the whole record, so a stale table weakens
/// coverage, never soundness
#[derive(Clone, Copy)]
enum H {
    /// offset, width, signed
    Int(usize, usize, bool),
    Sec(usize, usize, bool),
    Usec(usize, usize, bool),
    UtType(usize),
    /// offset, length
    Cstr(usize, usize),
    F32(usize),
    Flag(usize),
    Addr(usize),
}

const LAYOUTS: [(FixedStructType, &[H]); 16] = [
    (Fs_Freebsd_x8664_Utmpx, &[H::UtType(0), H::Sec(8, 8, true), H::Usec(16, 8, true), H::Cstr(24, 8), H::Int(32, 4, true), H::Cstr(36, 32), H::Cstr(68, 16), H::Cstr(84, 128)]),
    (Fs_Linux_Arm64Aarch64_Lastlog, &[H::Sec(0, 8, true), H::Cstr(8, 32), H::Cstr(40, 256)]),
    (Fs_Linux_Arm64Aarch64_Utmpx, &[H::UtType(0), H::Int(4, 4, true), H::Cstr(8, 32), H::Cstr(40, 4), H::Cstr(44, 32), H::Cstr(76, 256), H::Int(332, 4, true), H::Int(336, 8, true), H::Sec(344, 8, true), H::Usec(352, 8, true), H::Addr(360)]),
    (Fs_Linux_x86_Acct, &[H::Flag(0), H::Int(2, 2, false), H::Int(4, 2, false), H::Int(6, 2, false), H::Sec(8, 4, false), H::Int(12, 2, false), H::Int(14, 2, false), H::Int(16, 2, false), H::Int(18, 2, false), H::Int(20, 2, false), H::Int(22, 2, false), H::Int(24, 2, false), H::Int(26, 2, false), H::Int(28, 2, false), H::Int(32, 4, false), H::Cstr(36, 17)]),
    (Fs_Linux_x86_Acct_v3, &[H::Flag(0), H::Int(1, 1, true), H::Int(2, 2, false), H::Int(4, 4, false), H::Int(8, 4, false), H::Int(12, 4, false), H::Int(16, 4, false), H::Int(20, 4, false), H::Sec(24, 4, false), H::F32(28), H::Int(32, 2, false), H::Int(34, 2, false), H::Int(36, 2, false), H::Int(38, 2, false), H::Int(40, 2, false), H::Int(42, 2, false), H::Int(44, 2, false), H::Int(46, 2, false), H::Cstr(48, 16)]),
    (Fs_Linux_x86_Lastlog, &[H::Sec(0, 4, true), H::Cstr(4, 32), H::Cstr(36, 256)]),
    (Fs_Linux_x86_Utmpx, &[H::UtType(0), H::Int(4, 4, true), H::Cstr(8, 32), H::Cstr(40, 4), H::Cstr(44, 32), H::Cstr(76, 256), H::Int(332, 2, true), H::Int(334, 2, true), H::Int(336, 4, true), H::Sec(340, 4, true), H::Usec(344, 4, true), H::Addr(348)]),
    (Fs_Netbsd_x8632_Acct, &[H::Cstr(0, 16), H::Int(16, 2, false), H::Int(18, 2, false), H::Int(20, 2, false), H::Sec(24, 8, true), H::Int(32, 4, false), H::Int(36, 4, false), H::Int(40, 2, false), H::Int(42, 2, false), H::Int(44, 8, true), H::Flag(52)]),
    (Fs_Netbsd_x8632_Lastlogx, &[H::Sec(0, 8, true), H::Usec(8, 4, true), H::Cstr(12, 32), H::Cstr(44, 256), H::Cstr(300, 128)]),
    (Fs_Netbsd_x8632_Utmpx, &[H::Cstr(0, 32), H::Cstr(32, 4), H::Cstr(36, 32), H::Cstr(68, 256), H::Int(324, 2, false), H::UtType(326), H::Int(328, 4, true), H::Int(332, 2, false), H::Int(334, 2, false), H::Cstr(336, 128), H::Sec(464, 8, true), H::Usec(472, 4, true)]),
    (Fs_Netbsd_x8664_Lastlog, &[H::Sec(0, 8, true), H::Cstr(8, 8), H::Cstr(16, 16)]),
    (Fs_Netbsd_x8664_Lastlogx, &[H::Sec(0, 8, true), H::Usec(8, 4, true), H::Cstr(16, 32), H::Cstr(48, 256)]),
    (Fs_Netbsd_x8664_Utmp, &[H::Cstr(0, 8), H::Cstr(8, 8), H::Cstr(16, 16), H::Sec(32, 8, true)]),
    (Fs_Netbsd_x8664_Utmpx, &[H::Cstr(0, 32), H::Cstr(32, 4), H::Cstr(36, 32), H::Cstr(68, 256), H::Int(324, 2, false), H::UtType(326), H::Int(328, 4, true), H::Int(332, 2, false), H::Int(334, 2, false), H::Sec(464, 8, true), H::Usec(472, 4, true)]),
    (Fs_Openbsd_x86_Lastlog, &[H::Sec(0, 8, true), H::Cstr(8, 8), H::Cstr(16, 256)]),
    (Fs_Openbsd_x86_Utmp, &[H::Cstr(0, 8), H::Cstr(8, 32), H::Cstr(40, 256), H::Sec(296, 8, true)]),
];

fn by_name(name: &str) -> Option<FixedStructType> {
    LAYOUTS.iter().map(|x| x.0).find(|t| format!("{:?}", t) == name)
}

pub fn replay_line(req: &str) -> String {
    let w: Vec<&str> = req.split_whitespace().collect();
    if w.len() != 4 || w[0] != "frender" { return "bad-op".to_string(); }
    let cap: usize = match w[1].parse() { Ok(c) if c <= 65536 => c, _ => return "bad-op".to_string() };
    let t = match by_name(w[2]) { Some(t) => t, None => return "bad-layout".to_string() };
    let rec = unhex(w[3]);
    if rec.len() != t.size() { return "bad-size".to_string(); }
    match guarded(move || {
        let tz = FixedOffset::east_opt(0).unwrap();
        match FixedStruct::new(0, &tz, &rec, t) {
            Ok(fs) => {
                // the buffer starts out as s4's does: zeroed (and is reused; garbage must not matter: fill with 0xAA)
                let mut buffer = vec![0xAAu8; cap];
                match fs.as_bytes(&mut buffer) {
                    InfoAsBytes::Ok(at, b, e) => format!("ok {} {} {}", hex(&buffer[..at.min(cap)]), b, e),
                    InfoAsBytes::Fail(at) => format!("fail {}", hex(&buffer[..at.min(cap)])),
                }
            }
            Err(_) => "err".to_string(),
        }
    }) {
        Ok(s) => s,
        Err(m) => format!("panic:{}", m.replace(' ', "_")),
    }
}

fn put(rec: &mut [u8], off: usize, width: usize, v: i128) {
    let b = v.to_le_bytes();
    rec[off..off + width].copy_from_slice(&b[..width]);
}

const F32_BITS: [u32; 28] = [
    0x0000_0000, 0x8000_0000, 0x3f80_0000, 0xbf80_0000, 0x7f80_0000, 0xff80_0000, 0x7fc0_0000, 0xffc0_0001, 0x7f7f_ffff, 0xff7f_ffff,
    0x0000_0001, 0x8000_0001, 0x007f_ffff, 0x0080_0000, 0x0080_0001, 0x3dcc_cccd, 0x3e99_999a, 0x4048_f5c3, 0x4b00_0000, 0x4b80_0000,
    0x4cbe_bc20, 0x5d5e_0b6b, 0x3a83_126f, 0x358637bd, 0x0100_0000, 0x3f00_0000, 0x42f6_e979, 0x4996_b438,
];

fn text(rng: &mut Rng, n: usize) -> Vec<u8> {
    const A: &[u8] = b"abcdefghijklmnopqrstuvwxyzABCDEFGHIJKLMNOPQRSTUVWXYZ0123456789/._-:~ '|\\";
    (0..n).map(|_| A[rng.below(A.len())]).collect()
}

fn fill_cstr(rng: &mut Rng, rec: &mut [u8], off: usize, len: usize) -> &'static str {
    let f = &mut rec[off..off + len];
    match rng.below(9) {
        0 => { f.iter_mut().for_each(|b| *b = 0); "cstr_empty" }
        1 => { let t = text(rng, len); f.copy_from_slice(&t); "cstr_full_no_nul" }
        2 => { let k = rng.below(len); let t = text(rng, k); f[..k].copy_from_slice(&t); f[k] = 0; "cstr_nul_then_garbage" }
        3 => { let k = rng.below(len); let t = text(rng, k); f.iter_mut().for_each(|b| *b = 0); f[..k].copy_from_slice(&t); "cstr_nul_padded" }
        4 => { for b in f.iter_mut() { *b = 0x80 | (rng.next() as u8); } "cstr_all_high_bit" }
        5 => { let t = text(rng, len); f.copy_from_slice(&t); let k = rng.below(len); f[k] = 0x80 | (rng.next() as u8); if rng.chance(1, 2) { f[len - 1] = 0; } "cstr_one_high_bit" }
        6 => { for b in f.iter_mut() { *b = 1 + rng.below(31) as u8; } if rng.chance(1, 2) { let k = rng.below(len); f[k] = 0; } "cstr_control_chars" }
        7 => { let t = text(rng, len); f.copy_from_slice(&t); f[len - 1] = 0; "cstr_nul_last" }
        _ => { for b in f.iter_mut() { *b = rng.next() as u8; } "cstr_random" }
    }
}

pub fn run(opts: &Opts, out: &mut dyn Write) {
    quiet_panics();
    let mut rng = Rng::new(opts.seed.wrapping_mul(0x5851F42D4C957F2D).wrapping_add(0xF7E4));
    let secs: [i128; 14] = [0, 1, -1, 946684800, 1700000000, (1 << 31) - 1, 1 << 31, (1u64 << 32) as i128 - 1, -(1 << 31), 1 << 32,
        8210266876799, -8334601228800, 253402300799, 1234567890];
    let mut dist: BTreeMap<String, BTreeMap<String, usize>> = BTreeMap::new();
    for k in 0..opts.n {
        let (t, hints) = LAYOUTS[k % LAYOUTS.len()];
        let sz = t.size();
        let mode = rng.below(20);
        let mut tags: Vec<String> = vec![];
        let mut rec: Vec<u8> = match mode {
            0 | 1 => { tags.push("base_all_random".into()); (0..sz).map(|_| rng.next() as u8).collect() }
            2 => { if rng.chance(1, 2) { tags.push("base_zero".into()); vec![0u8; sz] } else { tags.push("base_ff".into()); vec![0xFFu8; sz] } }
            3..=8 => { tags.push("base_random".into()); (0..sz).map(|_| rng.next() as u8).collect() }
            _ => { tags.push("base_zero_structured".into()); vec![0u8; sz] }
        };
        if mode >= 3 {
            for h in hints.iter() {
                // mode 3..=8: a random base with some fields (always the seconds) forced; mode >= 9: every hinted field set
                if mode < 9 && !matches!(*h, H::Sec(..)) && rng.chance(1, 2) { continue; }
                match *h {
                    H::Int(o, w, s) => {
                        let bits = 8 * w as u32;
                        let v: i128 = match rng.below(8) {
                            0 => 0,
                            1 => if s { -1 } else { (1i128 << bits) - 1 },
                            2 => if s { -(1i128 << (bits - 1)) } else { 1i128 << (bits - 1) },
                            3 => (1i128 << (bits - 1)) - 1,
                            4 => rng.below(100000) as i128 % (1i128 << (bits - 1)),
                            5 => if s { -(rng.below(100000) as i128 % (1i128 << (bits - 1))) } else { 10i128.pow(rng.below(5) as u32) % (1i128 << bits) },
                            6 => { let d = rng.below(20) as u32; (10i128.pow(d) - (rng.below(2) as i128)) % (1i128 << (bits - 1)) }
                            _ => rng.next() as i128,
                        };
                        if v < 0 { tags.push("int_negative".into()); }
                        put(&mut rec, o, w, v);
                    }
                    H::Sec(o, w, _s) => {
                        let mut v = secs[rng.below(secs.len())];
                        if rng.chance(1, 3) { v = rng.range(0, 4_000_000_000) as i128; }
                        put(&mut rec, o, w, v);
                        tags.push("time_forced".into());
                    }
                    H::Usec(o, w, _s) => {
                        let v: i128 = match rng.below(6) { 0 => 0, 1 => 999_999, 2 => -1, 3 => 1_000_000, 4 => rng.below(1_000_000) as i128, _ => rng.next() as i128 };
                        put(&mut rec, o, w, v);
                    }
                    H::UtType(o) => {
                        let v: i128 = match rng.below(4) { 0 | 1 => rng.range(-2, 14) as i128, 2 => [32767i128, -32768, 65535, 255, 256, 12, 11][rng.below(7)], _ => rng.next() as i128 };
                        put(&mut rec, o, 2, v);
                        let x = i128::from_le_bytes({ let mut b = [0u8; 16]; b[..2].copy_from_slice(&rec[o..o + 2]); b });
                        tags.push(if x < 12 { "ut_type_in_table".into() } else { "ut_type_out_of_table".into() });
                    }
                    H::Cstr(o, l) => { let tag = fill_cstr(&mut rng, &mut rec, o, l); tags.push(tag.into()); }
                    H::F32(o) => {
                        let bits: u32 = match rng.below(4) {
                            0 => F32_BITS[rng.below(F32_BITS.len())],
                            1 => ((rng.below(1_000_000) as f32) / [1.0f32, 10.0, 100.0, 1000.0][rng.below(4)]).to_bits(),
                            2 => { let e = rng.below(256) as u32; ((rng.next() as u32) & 0x807f_ffff) | (e << 23) }
                            _ => rng.next() as u32,
                        };
                        put(&mut rec, o, 4, bits as i128);
                        let f = f32::from_bits(bits);
                        tags.push((if f.is_nan() { "f32_nan" } else if f.is_infinite() { "f32_inf" } else if f == 0.0 { "f32_zero" }
                            else if !f.is_normal() { "f32_subnormal" } else if f.fract() == 0.0 { "f32_integral" } else { "f32_fraction" }).into());
                    }
                    H::Flag(o) => {
                        let v = match rng.below(4) { 0 => 0u8, 1 => 1 << rng.below(8), 2 => rng.below(32) as u8, _ => rng.next() as u8 };
                        rec[o] = v;
                        tags.push((if v == 0 { "flag_zero" } else if v & 0x1f == 0 { "flag_unnamed_bits_only" } else if v >= 0x80 { "flag_negative_i8" } else { "flag_named" }).into());
                    }
                    H::Addr(o) => {
                        match rng.below(5) {
                            0 => { for b in rec[o..o + 16].iter_mut() { *b = 0; } tags.push("addr_zero".into()); }
                            1 | 2 => { for b in rec[o + 4..o + 16].iter_mut() { *b = 0; } for b in rec[o..o + 4].iter_mut() { *b = rng.next() as u8; } tags.push("addr_v4".into()); }
                            3 => { for b in rec[o..o + 16].iter_mut() { *b = rng.next() as u8; } tags.push("addr_v6_random".into()); }
                            _ => { for b in rec[o..o + 16].iter_mut() { *b = 0; } let j = 4 + rng.below(12); rec[o + j] = 1 + rng.below(255) as u8;
                                   if rng.chance(1, 2) { rec[o + 3] = 0x80; } tags.push("addr_v6_sparse".into()); }
                        }
                    }
                }
            }
        }
        // mostly s4's capacity; sometimes a tight one
        let cap = if rng.chance(1, 12) { rng.below(ENTRY_SZ_MAX * 2) } else { ENTRY_SZ_MAX * 2 };
        let req = format!("frender {} {:?} {}", cap, t, hex(&rec));
        let rep = replay_line(&req);
        let d = dist.entry(format!("{:?}", t)).or_default();
        *d.entry("cases".into()).or_default() += 1;
        let outcome = rep.split(' ').next().unwrap_or("").to_string();
        *d.entry(format!("reply_{}", outcome.split(':').next().unwrap())).or_default() += 1;
        if outcome == "ok" || outcome == "fail" {
            for tg in tags { *d.entry(tg).or_default() += 1; }
        }
        writeln!(out, "{}\t{}", req, rep).unwrap();
    }
    let j: Vec<String> = dist.iter().map(|(k, v)| {
        let inner: Vec<String> = v.iter().map(|(a, b)| format!("\"{}\": {}", a, b)).collect();
        format!("\"{}\": {{{}}}", k, inner.join(", "))
    }).collect();
    writeln!(out, "# per_layout {{{}}}", j.join(", ")).unwrap();
}
