//! component `fixed`: the REAL `FixedStructType::tv_pair_from_buffer` (ORDERING side: what
//! `FixedStructReader::preprocess_timevalues` keys its map with) and the REAL `FixedStruct::new` +
//! `tv_pair()` / `dt()` (PRINTING side) on records of EVERY `FixedStructType` layout, against
//! `S4V.Model.Fixed.tvPair` / `newTv` over the generated layout table (driver op `fixed tv`, executable `drv`).
//!
//! request   fixed tv <FixedStructType variant> <hex record>
//! reply     tv <sec>.<usec>|none new <sec>.<usec>|err
//!             tv   `t.tv_pair_from_buffer(&record[t.offset_tv() .. t.offset_tv() + t.size_tv()])` exactly as
//!                  `preprocess_timevalues` slices it; `none` = `None`
//!             new  `FixedStruct::new(0, +00:00, record, t)`: its `tv_pair()`; `err` = `Err(_)`; a suffix `!dt=<s>` flags a
//!                  `dt().timestamp()` that differs from `tv_pair().0`
//!           bad-layout | bad-size (record length != `t.size()`; the implementation is not called: it would read out of bounds)
use crate::util::*;
use chrono::FixedOffset;
use s4lib::data::fixedstruct::{FixedStruct, FixedStructType};
use std::collections::BTreeMap;
use std::io::Write;

use FixedStructType::*;

/// (variant, width of the seconds value at offset_tv, (offset within the time value, width) of the microseconds):
/// used only to FORCE boundary values into generated records; the request carries the whole record
const LAYOUTS: [(FixedStructType, usize, Option<(usize, usize)>); 16] = [
    (Fs_Freebsd_x8664_Utmpx, 8, Some((8, 8))),
    (Fs_Linux_Arm64Aarch64_Lastlog, 8, None),
    (Fs_Linux_Arm64Aarch64_Utmpx, 8, Some((8, 8))),
    (Fs_Linux_x86_Acct, 4, None),
    (Fs_Linux_x86_Acct_v3, 4, None),
    (Fs_Linux_x86_Lastlog, 4, None),
    (Fs_Linux_x86_Utmpx, 4, Some((4, 4))),
    (Fs_Netbsd_x8632_Acct, 8, None),
    (Fs_Netbsd_x8632_Lastlogx, 8, Some((8, 4))),
    (Fs_Netbsd_x8632_Utmpx, 8, Some((8, 4))),
    (Fs_Netbsd_x8664_Lastlog, 8, None),
    (Fs_Netbsd_x8664_Lastlogx, 8, Some((8, 4))),
    (Fs_Netbsd_x8664_Utmp, 8, None),
    (Fs_Netbsd_x8664_Utmpx, 8, Some((8, 4))),
    (Fs_Openbsd_x86_Lastlog, 8, None),
    (Fs_Openbsd_x86_Utmp, 8, None),
];

const CHRONO_MIN: i128 = -8334601228800;
const CHRONO_MAX: i128 = 8210266876799;

#[repr(C, align(16))]
struct Aligned([u8; 64]);

fn by_name(name: &str) -> Option<FixedStructType> {
    LAYOUTS.iter().map(|x| x.0).find(|t| format!("{:?}", t) == name)
}

pub fn replay_line(req: &str) -> String {
    let w: Vec<&str> = req.split_whitespace().collect();
    if w.len() != 4 || w[0] != "fixed" || w[1] != "tv" { return "bad-op".to_string(); }
    let t = match by_name(w[2]) { Some(t) => t, None => return "bad-layout".to_string() };
    let rec = unhex(w[3]);
    if rec.len() != t.size() { return "bad-size".to_string(); }
    let (o, n) = (t.offset_tv(), t.size_tv());
    if o + n > rec.len() || n > 64 { return "bad-table".to_string(); }
    // the reader's buffer is a stack array; give the pointer read the same (aligned) conditions
    let mut a = Aligned([0u8; 64]);
    a.0[..n].copy_from_slice(&rec[o..o + n]);
    let tv = match guarded(move || t.tv_pair_from_buffer(&a.0[..n])) {
        Ok(Some(p)) => format!("{}.{}", p.0, p.1),
        Ok(None) => "none".to_string(),
        Err(m) => format!("panic:{}", m.replace(' ', "_")),
    };
    let rec2 = rec.clone();
    let new = match guarded(move || {
        let tz = FixedOffset::east_opt(0).unwrap();
        match FixedStruct::new(0, &tz, &rec2, t) {
            Ok(fs) => {
                let p = *fs.tv_pair();
                let mut s = format!("{}.{}", p.0, p.1);
                if fs.dt().timestamp() != p.0 { s.push_str(&format!("!dt={}", fs.dt().timestamp())); }
                s
            }
            Err(_) => "err".to_string(),
        }
    }) {
        Ok(s) => s,
        Err(m) => format!("panic:{}", m.replace(' ', "_")),
    };
    format!("tv {} new {}", tv, new)
}

fn put(rec: &mut [u8], off: usize, width: usize, v: i128) {
    let b = v.to_le_bytes();
    rec[off..off + width].copy_from_slice(&b[..width]);
}

pub fn run(opts: &Opts, out: &mut dyn Write) {
    quiet_panics();
    let mut rng = Rng::new(opts.seed.wrapping_mul(0x5851F42D4C957F2D).wrapping_add(77));
    let secs4: [i128; 12] = [0, 1, (1 << 31) - 1, 1 << 31, (1u64 << 32) as i128 - 1, -1, -(1 << 31), 946684800, 946684799, 1700000000,
        (1 << 31) + 1, 0x80000000u32 as i128 + 86400];
    let secs8: [i128; 12] = [1 << 32, i64::MAX as i128, i64::MIN as i128, CHRONO_MAX, CHRONO_MAX + 1, CHRONO_MIN, CHRONO_MIN - 1,
        253402300799, 253402300800, -62135596800, -62135596801, (1 << 31) + 12345];
    let usecs: [i128; 14] = [0, 1, 999_999, 1_000_000, 1_000_001, (1 << 31) - 1, -1, -(1 << 31), 4_294_967, 4_294_968, 1_999_999, 2_000_000,
        59_999_999, 123_456];
    let usecs8: [i128; 5] = [1 << 32, i64::MAX as i128, i64::MIN as i128, (1u64 << 32) as i128 - 1, -(1 << 32)];
    let mut dist: BTreeMap<String, BTreeMap<&'static str, usize>> = BTreeMap::new();
    for k in 0..opts.n {
        let (t, sw, us) = LAYOUTS[k % LAYOUTS.len()];
        let sz = t.size();
        let o = t.offset_tv();
        let fill = rng.below(8);
        let mut rec: Vec<u8> = match fill {
            0 => vec![0u8; sz],
            1 => vec![0xFFu8; sz],
            2 | 3 => { let mut v = vec![0u8; sz]; let j = rng.below(sz); v[j] = 1 + rng.below(255) as u8; v }
            _ => (0..sz).map(|_| rng.next() as u8).collect(),
        };
        let force = rng.below(10);
        let mut sec: i128 = 0;
        if force < 8 {
            sec = if sw == 8 && rng.chance(1, 2) { secs8[rng.below(secs8.len())] } else { secs4[rng.below(secs4.len())] };
            if force == 7 { sec += rng.range(-2, 2) as i128; }
            put(&mut rec, o, sw, sec);
            if let Some((uo, uw)) = us {
                if rng.chance(3, 4) {
                    let u = if uw == 8 && rng.chance(1, 3) { usecs8[rng.below(usecs8.len())] } else { usecs[rng.below(usecs.len())] };
                    put(&mut rec, o + uo, uw, u);
                }
            }
        }
        let req = format!("fixed tv {:?} {}", t, hex(&rec));
        let rep = replay_line(&req);
        let d = dist.entry(format!("{:?}", t)).or_default();
        *d.entry("cases").or_default() += 1;
        if rep.starts_with("tv none") { *d.entry("tv_none").or_default() += 1; }
        if rep.ends_with("new err") { *d.entry("new_err").or_default() += 1; }
        if rep.starts_with("tv -") { *d.entry("tv_sec_negative").or_default() += 1; }
        if rep.starts_with("tv 0.0 ") { *d.entry("tv_null").or_default() += 1; }
        if let Some(s) = rep.strip_prefix("tv ").and_then(|r| r.split('.').next()).and_then(|s| s.parse::<i128>().ok()) {
            if s >= 1 << 31 { *d.entry("tv_sec_ge_2^31").or_default() += 1; }
        }
        if force < 8 { *d.entry("time_forced").or_default() += 1; }
        let _ = sec;
        writeln!(out, "{}\t{}", req, rep).unwrap();
    }
    let j: Vec<String> = dist.iter().map(|(k, v)| {
        let inner: Vec<String> = v.iter().map(|(a, b)| format!("\"{}\": {}", a, b)).collect();
        format!("\"{}\": {{{}}}", k, inner.join(", "))
    }).collect();
    writeln!(out, "# per_layout {{{}}}", j.join(", ")).unwrap();
}
