//! component `srch`: the datetime searches of SyslineReader vs BOTH Lean forms (the hand model and the
//! interpreter of the skeletons regenerated from the source; the driver prints their common answer or
//! `FORMS-DIFFER …`).
//!
//! request: srch <bs> <plain|gz> <hex d> <ops..>
//!   B<fo>:<A>      find_sysline_at_datetime_filter_binary_search(fo, A) -> found <next> <beg> <end> <dt> | done | err
//!   L<fo>:<A>      find_sysline_at_datetime_filter_linear_search(fo, A) -> same
//!   A<fo>:<A>      find_sysline_at_datetime_filter(fo, A)                -> same
//!   W<fo>:<A>:<B>  find_sysline_between_datetime_filters(fo, A, B)       -> same
//!   F<fo>          find_sysline(fo)                                      -> same
//!   S<A>:<B>       loop of find_sysline_between_datetime_filters from 0 (as exec_syslogprocessor)
//!                                                                        -> msgs <beg>-<end>-<dt>,...
//! All ops of one request share one reader (later ops run on warm caches). A panic (a release-active
//! `assert_le!` / `unwrap()`) is reported as `err`, the model's word for it; it ends the request.
use crate::c_line::write_tmp;
use crate::c_sysl::gen_log;
use crate::util::*;
use chrono::{FixedOffset, TimeZone};
use s4lib::common::{FileType, FileTypeArchive, FileTypeTextEncoding, ResultS3};
use s4lib::data::datetime::DateTimeLOpt;
use s4lib::readers::syslinereader::{ResultS3SyslineFind, SyslineReader};
use std::io::Write;

fn dt_opt(s: &str) -> DateTimeLOpt {
    if s == "n" { return None; }
    let t: i64 = s.parse().unwrap();
    Some(FixedOffset::east_opt(0).unwrap().timestamp_opt(t, 0).unwrap())
}

fn show(r: ResultS3SyslineFind, d: &[u8]) -> String {
    match r {
        ResultS3::Found((next, s)) => {
            let (b, e) = (s.fileoffset_begin() as usize, s.fileoffset_end() as usize);
            let okb = e < d.len() && b <= e && s.verif_bytes() == d[b..=e];
            format!("found {} {} {} {}{}", next, b, e, s.dt().timestamp(), if okb { "" } else { " BYTES-MISMATCH" })
        }
        ResultS3::Done => "done".to_string(),
        ResultS3::Err(e) => format!("ioerr {}", e.kind()),
    }
}

fn run_ops(bs: u64, path: &str, gz: bool, d: &[u8], ops: &[String]) -> String {
    let ft = FileType::Text {
        archival_type: if gz { FileTypeArchive::Gz } else { FileTypeArchive::Normal },
        encoding_type: FileTypeTextEncoding::Utf8Ascii,
    };
    let mut sr = match SyslineReader::new(path.to_string(), ft, bs, FixedOffset::east_opt(0).unwrap()) {
        Ok(v) => v,
        Err(e) => return format!("err-new {}", e.kind()),
    };
    let mut out: Vec<String> = vec![];
    for op in ops.iter() {
        let kind = op[..1].to_string();
        let args: Vec<String> = op[1..].split(':').map(|s| s.to_string()).collect();
        let dd = d.to_vec();
        // the reader is moved into the guarded closure and handed back, so that a panic is reported
        // for this op only (and ends the request: the reader is gone)
        let r = guarded(std::panic::AssertUnwindSafe(move || {
            let mut sr = sr;
            let s = match kind.as_str() {
                "F" => show(sr.find_sysline(args[0].parse().unwrap()), &dd),
                "B" => show(sr.find_sysline_at_datetime_filter_binary_search(args[0].parse().unwrap(), &dt_opt(&args[1])), &dd),
                "L" => show(sr.find_sysline_at_datetime_filter_linear_search(args[0].parse().unwrap(), &dt_opt(&args[1])), &dd),
                "A" => show(sr.find_sysline_at_datetime_filter(args[0].parse().unwrap(), &dt_opt(&args[1])), &dd),
                "W" => show(sr.find_sysline_between_datetime_filters(args[0].parse().unwrap(), &dt_opt(&args[1]), &dt_opt(&args[2])), &dd),
                "S" => {
                    let (a, b) = (dt_opt(&args[0]), dt_opt(&args[1]));
                    let mut msgs: Vec<String> = vec![];
                    let mut fo: u64 = 0;
                    let mut guard = 0;
                    loop {
                        guard += 1;
                        if guard > dd.len() + 5 { msgs.push("LOOP".to_string()); break; }
                        match sr.find_sysline_between_datetime_filters(fo, &a, &b) {
                            ResultS3::Found((next, s)) => {
                                let (bb, e) = (s.fileoffset_begin() as usize, s.fileoffset_end() as usize);
                                let okb = e < dd.len() && bb <= e && s.verif_bytes() == dd[bb..=e];
                                msgs.push(format!("{}-{}-{}{}", bb, e, s.dt().timestamp(), if okb { "" } else { "-BYTES" }));
                                if sr.is_sysline_last(&s) { break; }
                                fo = next;
                            }
                            ResultS3::Done => break,
                            ResultS3::Err(e) => { msgs.push(format!("ioerr-{}", e.kind())); break; }
                        }
                    }
                    format!("msgs {}", msgs.join(","))
                }
                _ => "bad-op".to_string(),
            };
            (s, sr)
        }));
        match r {
            Ok((s, back)) => { out.push(s); sr = back; }
            Err(_m) => {
                // the reader is gone; a panic in the LAST op of a request leaves a reply the model can match
                out.push("err".to_string());
                if out.len() < ops.len() { out.push("ABORTED".to_string()); }
                return out.join(";");
            }
        }
    }
    out.join(";")
}

pub fn replay_line(req: &str) -> String {
    let w: Vec<&str> = req.split_whitespace().collect();
    if w.len() < 5 || w[0] != "srch" { return "bad-op".to_string(); }
    let bs: u64 = w[1].parse().unwrap();
    let gz = w[2].starts_with("gz");
    let d = unhex(w[3]);
    let f = if gz {
        let mut enc = flate2::write::GzEncoder::new(Vec::new(), flate2::Compression::default());
        enc.write_all(&d).unwrap();
        write_tmp(&enc.finish().unwrap(), ".log.gz")
    } else {
        write_tmp(&d, ".log")
    };
    let path = f.path().to_str().unwrap().to_string();
    let ops: Vec<String> = w[4..].iter().map(|s| s.to_string()).collect();
    run_ops(bs, &path, gz, &d, &ops)
}

/// offsets of the first byte of every message (lines that start with a digit)
fn msg_starts(d: &[u8]) -> Vec<usize> {
    let mut v = vec![];
    let mut at_start = true;
    for (i, c) in d.iter().enumerate() {
        if at_start && c.is_ascii_digit() { v.push(i); }
        at_start = *c == b'\n';
    }
    v
}

pub fn run(o: &Opts, out: &mut dyn Write) {
    quiet_panics();
    let mut rng = Rng::new(o.seed ^ 0x5EA2C4);
    // `--broken` marks every plain request `plain!`: the driver then interprets a deliberately wrong
    // skeleton (demonstration that the correspondence notices)
    let broken = o.extra.iter().any(|x| x == "--broken");
    let plain = if broken { "plain!" } else { "plain" };
    let emit = |out: &mut dyn Write, req: String| {
        let r = replay_line(&req);
        writeln!(out, "{}\t{}", req, r).unwrap();
    };
    for i in 0..o.n {
        let mm = if rng.chance(1, 4) { 30 } else { 8 };
        let (d, times) = gen_log(&mut rng, mm, true);
        let h = hex(&d);
        // every block size 1..=64 in turn, sometimes one related to the file size or the default
        let bs = match rng.below(8) { 0 => 1 + rng.below(d.len() + 3), 1 => 0x1000, _ => 1 + (i % 64) } as u64;
        let tmin = *times.iter().min().unwrap();
        let tmax = *times.iter().max().unwrap();
        let pick_t = |rng: &mut Rng| -> String {
            match rng.below(8) {
                0 => "n".to_string(),
                1 => (tmin - 1).to_string(),
                2 => (tmax + 1).to_string(),
                3 => tmin.to_string(),
                4 => tmax.to_string(),
                _ => { let t = times[rng.below(times.len())]; (t + rng.range(-1, 1)).to_string() }
            }
        };
        let window = |rng: &mut Rng| -> (String, String) {
            let a = pick_t(rng); let b = pick_t(rng);
            match (a.parse::<i64>(), b.parse::<i64>()) { (Ok(x), Ok(y)) if x > y && rng.chance(7, 8) => (b, a), _ => (a, b) }
        };
        let starts = msg_starts(&d);
        let pick_fo = |rng: &mut Rng| -> usize {
            match rng.below(6) {
                0 | 1 => 0,
                2 | 3 => rng.pick(&starts),                // first byte of a message (how the binary calls it)
                4 => rng.below(d.len() + 1),                 // anywhere, incl. the end of the file
                _ => d.len(),
            }
        };
        // plain file, one reader, several searches (warm caches)
        let mut ops: Vec<String> = vec![];
        for _ in 0..(1 + rng.below(6)) {
            match rng.below(10) {
                0..=3 => ops.push(format!("B{}:{}", pick_fo(&mut rng), pick_t(&mut rng))),
                4 => if rng.chance(1, 2) { ops.push(format!("L{}:{}", pick_fo(&mut rng), pick_t(&mut rng))) }
                     else { ops.push(format!("F{}", rng.below(d.len() + 2))) },
                5 => ops.push(format!("A{}:{}", pick_fo(&mut rng), pick_t(&mut rng))),
                6..=7 => { let (a, b) = window(&mut rng); ops.push(format!("W{}:{}:{}", pick_fo(&mut rng), a, b)) }
                _ => { let (a, b) = window(&mut rng); ops.push(format!("S{}:{}", a, b)) }
            }
        }
        emit(out, format!("srch {} {} {} {}", bs, plain, h, ops.join(" ")));
        // cold caches: one search per reader
        emit(out, format!("srch {} {} {} F{}", bs, plain, h, rng.below(d.len() + 2)));
        emit(out, format!("srch {} {} {} B{}:{}", bs, plain, h, pick_fo(&mut rng), pick_t(&mut rng)));
        let (a, b) = window(&mut rng);
        emit(out, format!("srch {} {} {} W{}:{}:{}", bs, plain, h, rng.pick(&starts), a, b));
        emit(out, format!("srch {} {} {} S{}:{}", bs, plain, h, a, b));
        // unsorted file (outside the hypotheses of the theorems; the models still mirror the code, including the
        // release-active `assert_le!(fo_a, fo_b)`): one op per reader, since a panic ends the request
        if i % 5 == 4 {
            let (du, tu) = gen_log(&mut rng, 8, false);
            let hu = hex(&du);
            let su = msg_starts(&du);
            let t = tu[rng.below(tu.len())] + rng.range(-1, 1);
            let fo = match rng.below(3) { 0 => 0, 1 => rng.pick(&su), _ => rng.below(du.len() + 1) };
            emit(out, format!("srch {} {} {} B{}:{}", bs, plain, hu, fo, t));
            emit(out, format!("srch {} {} {} S{}:{}", bs, plain, hu, t, t + rng.range(0, 4)));
        }
        // streamed (gz): forward only, one op per reader
        if i % 2 == 0 {
            let gbs = std::cmp::max(bs, 2);
            match rng.below(4) {
                0 => emit(out, format!("srch {} gz {} L0:{}", gbs, h, pick_t(&mut rng))),
                1 => emit(out, format!("srch {} gz {} A0:{}", gbs, h, pick_t(&mut rng))),
                2 => emit(out, format!("srch {} gz {} W0:{}:{}", gbs, h, a, b)),
                _ => emit(out, format!("srch {} gz {} S{}:{}", gbs, h, a, b)),
            }
        }
    }
}
