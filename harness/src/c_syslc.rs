//! component `syslc`: ONE real `SyslineReader` driven through a history of
//! `find_sysline` / `find_sysline_in_block` / `drop_data` (/ `clear_syslines` /
//! `remove_sysline` with hook H5) calls, against the cached model
//! `S4V.Model.SyslCached`.
//!
//! request: syslc <bs> <lru 0|1> <hex d> <ops..>
//!   s<fo>        find_sysline(fo)           -> found <next> <beg> <end> <dt> | done | err | panic
//!   i<fo>[:f|:d] find_sysline_in_block(fo)  -> found <next> <beg> <end> <dt> | done | err | panic
//!                (the optional suffix records what the in-block walk answered when the request
//!                 was generated; the line layer's own caches decide whether an in-block walk
//!                 sees a whole line, so the model takes that one bit as given — see the model)
//!   d<bo>        drop_data(bo)              -> drop
//!   c            clear_syslines()           -> clear     (needs --cfg s4_verif, else `nohook`)
//!   r<fo>        remove_sysline(fo)         -> remove <0|1>   (same)
//! All ops of one request share one reader (warm caches). A panic inside one op is caught and
//! answered `panic`; the reader is used further (the panic sites leave it consistent).
//! After the last op the hit counters of the reader's summary are appended to the
//! *statistics* line (`run` only, stderr), never to the reply.
use crate::c_line::write_tmp;
use crate::c_sysl::gen_log;
use crate::util::*;
use chrono::FixedOffset;
use s4lib::common::{FileType, FileTypeArchive, FileTypeTextEncoding, ResultS3};
use s4lib::readers::syslinereader::SyslineReader;
use std::io::Write;
use std::panic::AssertUnwindSafe;

/// counters of one request (from `SyslineReader::summary()` after the last op)
#[derive(Default, Clone, Copy)]
pub struct Counters {
    pub lru_hit: u64,
    pub lru_miss: u64,
    pub range_hit: u64,
    pub range_miss: u64,
    pub sl_hit: u64,
    pub sl_miss: u64,
    pub panics: u64,
    pub finds: u64,
    pub findibs: u64,
    pub drops: u64,
    pub founds: u64,
    pub dones: u64,
}

fn show(next: u64, s: &s4lib::data::sysline::SyslineP, d: &[u8]) -> String {
    let (b, e) = (s.fileoffset_begin() as usize, s.fileoffset_end() as usize);
    let okb = e < d.len() && b <= e && s.verif_bytes() == d[b..=e];
    format!("found {} {} {} {}{}", next, b, e, s.dt().timestamp(), if okb { "" } else { " BYTES-MISMATCH" })
}

/// returns (reply, per-op in-block observation, counters)
fn run_ops(bs: u64, path: &str, lru: bool, d: &[u8], ops: &[String]) -> (String, Vec<Option<bool>>, Counters) {
    let mut c = Counters::default();
    let ft = FileType::Text { archival_type: FileTypeArchive::Normal, encoding_type: FileTypeTextEncoding::Utf8Ascii };
    let mut sr = match SyslineReader::new(path.to_string(), ft, bs, FixedOffset::east_opt(0).unwrap()) {
        Ok(v) => v,
        Err(e) => return (format!("err-new {}", e.kind()), vec![], c),
    };
    if !lru {
        sr.LRU_cache_disable();
    }
    let mut out: Vec<String> = vec![];
    let mut obs: Vec<Option<bool>> = vec![];
    for op in ops.iter() {
        let kind = &op[..1];
        let rest0 = &op[1..];
        let rest = rest0.split(':').next().unwrap();
        let mut ob: Option<bool> = None;
        let r = guarded(AssertUnwindSafe(|| -> String {
            match kind {
                "s" => {
                    let fo: u64 = rest.parse().unwrap();
                    match sr.find_sysline(fo) {
                        ResultS3::Found((next, s)) => show(next, &s, d),
                        ResultS3::Done => "done".to_string(),
                        ResultS3::Err(_) => "err".to_string(),
                    }
                }
                "i" => {
                    let fo: u64 = rest.parse().unwrap();
                    match sr.find_sysline_in_block(fo).0 {
                        ResultS3::Found((next, s)) => { ob = Some(true); show(next, &s, d) }
                        ResultS3::Done => { ob = Some(false); "done".to_string() }
                        ResultS3::Err(_) => "err".to_string(),
                    }
                }
                "d" => {
                    let bo: u64 = rest.parse().unwrap();
                    sr.drop_data(bo);
                    "drop".to_string()
                }
                "c" => {
                    #[cfg(s4_verif)]
                    { sr.verif_clear_syslines(); "clear".to_string() }
                    #[cfg(not(s4_verif))]
                    { "nohook".to_string() }
                }
                "r" => {
                    #[cfg(s4_verif)]
                    { let fo: u64 = rest.parse().unwrap(); format!("remove {}", if sr.verif_remove_sysline(fo) { 1 } else { 0 }) }
                    #[cfg(not(s4_verif))]
                    { "nohook".to_string() }
                }
                _ => "bad-op".to_string(),
            }
        }));
        let r = match r { Ok(s) => s, Err(m) => {
            c.panics += 1;
            if std::env::var_os("S4H_PANIC_MSG").is_some() { eprintln!("panic in op {}: {}", op, m); }
            "panic".to_string()
        } };
        match kind { "s" => c.finds += 1, "i" => c.findibs += 1, "d" => c.drops += 1, _ => {} }
        if r.starts_with("found") { c.founds += 1 } else if r == "done" { c.dones += 1 }
        out.push(r);
        obs.push(ob);
    }
    let sm = sr.summary();
    c.lru_hit = sm.syslinereader_find_sysline_lru_cache_hit;
    c.lru_miss = sm.syslinereader_find_sysline_lru_cache_miss;
    c.range_hit = sm.syslinereader_syslines_by_range_hit;
    c.range_miss = sm.syslinereader_syslines_by_range_miss;
    c.sl_hit = sm.syslinereader_syslines_hit;
    c.sl_miss = sm.syslinereader_syslines_miss;
    (out.join(";"), obs, c)
}

fn parse_req(req: &str) -> Option<(u64, bool, Vec<u8>, Vec<String>)> {
    let w: Vec<&str> = req.split_whitespace().collect();
    if w.len() < 5 || w[0] != "syslc" { return None; }
    let bs: u64 = w[1].parse().ok()?;
    let lru = w[2] == "1";
    let d = unhex(w[3]);
    Some((bs, lru, d, w[4..].iter().map(|s| s.to_string()).collect()))
}

fn replay_full(req: &str) -> (String, Vec<Option<bool>>, Counters) {
    match parse_req(req) {
        None => ("bad-op".to_string(), vec![], Counters::default()),
        Some((bs, lru, d, ops)) => {
            let f = write_tmp(&d, ".log");
            let path = f.path().to_str().unwrap().to_string();
            run_ops(bs, &path, lru, &d, &ops)
        }
    }
}

pub fn replay_line(req: &str) -> String {
    replay_full(req).0
}

/// offsets worth asking for: message begins, ends, one byte either side, block edges
fn interesting(rng: &mut Rng, d: &[u8], bs: usize, last: Option<usize>) -> usize {
    let n = d.len();
    match rng.below(9) {
        0 => rng.below(n + 2),
        1 => { // a line begin
            let nl: Vec<usize> = (0..n).filter(|&i| d[i] == b'\n').collect();
            if nl.is_empty() { 0 } else { std::cmp::min(nl[rng.below(nl.len())] + 1, n) }
        }
        2 => { // a line end
            let nl: Vec<usize> = (0..n).filter(|&i| d[i] == b'\n').collect();
            if nl.is_empty() { n.saturating_sub(1) } else { nl[rng.below(nl.len())] }
        }
        3 => { let k = rng.below(n / bs + 1); std::cmp::min(k * bs, n) }
        4 => { let k = rng.below(n / bs + 1); (k * bs).saturating_sub(1) }
        5 | 6 => match last { Some(x) => x, None => 0 }, // repeat
        7 => match last { Some(x) => x.saturating_sub(1 + rng.below(40)), None => 0 }, // backwards jump
        _ => match last { Some(x) => std::cmp::min(x + 1 + rng.below(40), n + 1), None => rng.below(n + 1) },
    }
}

pub fn run(o: &Opts, out: &mut dyn Write) {
    quiet_panics();
    let mut rng = Rng::new(o.seed ^ 0x5c5c);
    let hooks = cfg!(s4_verif);
    let nodrop_only = o.extra.iter().any(|x| x == "nodrop");
    let mut tot = Counters::default();
    let mut nops = 0usize;
    let mut nreq = 0usize;
    let mut kinds = [0usize; 5];
    while nops < o.n {
        let mm = if rng.chance(1, 4) { 20 } else { 6 };
        let (d, _times) = gen_log(&mut rng, mm, true);
        let bs = match rng.below(6) { 0 => 1 + rng.below(4), 1 => 1 + rng.below(16), 2 | 3 => 1 + rng.below(64), 4 => 16 + rng.below(48), _ => 2 + rng.below(d.len() + 3) };
        let bs = std::cmp::max(bs, 1);
        let lru = !rng.chance(1, 3);
        let nblocks = d.len() / bs + 1;
        let len = 5 + rng.below(56);
        // histories: 0 = finds only, 1 = finds + in-block, 2 = with drops, 3 = forward streaming with drops
        let style = if nodrop_only { rng.below(2) } else { rng.below(4) };
        let mut ops: Vec<String> = vec![];
        let mut last: Option<usize> = None;
        let mut fwd: usize = 0;
        for _ in 0..len {
            let k = rng.below(20);
            if style == 3 {
                // forward walk as exec_syslogprocessor: find at the running offset, sometimes drop behind
                if k < 14 { ops.push(format!("s{}", fwd)); last = Some(fwd); fwd = std::cmp::min(fwd + 1 + rng.below(50), d.len() + 1); kinds[0] += 1; }
                else if k < 17 { ops.push(format!("s{}", last.unwrap_or(0))); kinds[0] += 1; }
                else { let bo = (fwd / bs).saturating_sub(1 + rng.below(3)); ops.push(format!("d{}", bo)); kinds[2] += 1; }
                continue;
            }
            if k < 11 || style == 0 && k < 19 {
                let fo = interesting(&mut rng, &d, bs, last);
                ops.push(format!("s{}", fo)); last = Some(fo); kinds[0] += 1;
            } else if k < 14 && style >= 1 {
                let fo = interesting(&mut rng, &d, bs, last);
                ops.push(format!("i{}", fo)); last = Some(fo); kinds[1] += 1;
            } else if k < 18 && style == 2 {
                // drop: often the block holding the last answer
                let bo = match last { Some(x) if rng.chance(2, 3) => std::cmp::min(x / bs + rng.below(2), nblocks), _ => rng.below(nblocks + 1) };
                ops.push(format!("d{}", bo)); kinds[2] += 1;
            } else if hooks && k == 18 {
                ops.push("c".to_string()); kinds[3] += 1;
            } else if hooks && k == 19 {
                let fo = interesting(&mut rng, &d, bs, last);
                ops.push(format!("r{}", fo)); kinds[4] += 1;
            } else {
                let fo = interesting(&mut rng, &d, bs, last);
                ops.push(format!("s{}", fo)); last = Some(fo); kinds[0] += 1;
            }
        }
        let req0 = format!("syslc {} {} {} {}", bs, if lru { 1 } else { 0 }, hex(&d), ops.join(" "));
        let (_, obs, _) = replay_full(&req0);
        // annotate in-block ops with what the walk answered
        let ops2: Vec<String> = ops.iter().enumerate().map(|(i, op)| {
            if op.starts_with('i') { match obs.get(i) { Some(Some(true)) => format!("{}:f", op), Some(Some(false)) => format!("{}:d", op), _ => op.clone() } } else { op.clone() }
        }).collect();
        let req = format!("syslc {} {} {} {}", bs, if lru { 1 } else { 0 }, hex(&d), ops2.join(" "));
        let (reply, _, c) = replay_full(&req);
        writeln!(out, "{}\t{}", req, reply).unwrap();
        nops += ops.len();
        nreq += 1;
        tot.lru_hit += c.lru_hit; tot.lru_miss += c.lru_miss; tot.range_hit += c.range_hit; tot.range_miss += c.range_miss;
        tot.sl_hit += c.sl_hit; tot.sl_miss += c.sl_miss; tot.panics += c.panics; tot.finds += c.finds; tot.findibs += c.findibs;
        tot.drops += c.drops; tot.founds += c.founds; tot.dones += c.dones;
    }
    writeln!(out, "# stats {{\"requests\":{},\"ops\":{},\"find\":{},\"findib\":{},\"drop\":{},\"clear\":{},\"remove\":{},\"found\":{},\"done\":{},\"panic\":{},\"lru_hit\":{},\"lru_miss\":{},\"by_range_hit\":{},\"by_range_miss\":{},\"syslines_hit\":{},\"full_walk\":{}}}",
        nreq, nops, kinds[0], kinds[1], kinds[2], kinds[3], kinds[4], tot.founds, tot.dones, tot.panics,
        tot.lru_hit, tot.lru_miss, tot.range_hit, tot.range_miss, tot.sl_hit, tot.sl_miss).unwrap();
    eprintln!(
        "syslc: requests={} ops={} find={} findib={} drop={} clear={} remove={} | replies found={} done={} panic={} | reader counters: lru_hit={} lru_miss={} by_range_hit={} by_range_miss={} syslines_hit={} syslines_miss(=full walk)={}",
        nreq, nops, kinds[0], kinds[1], kinds[2], kinds[3], kinds[4], tot.founds, tot.dones, tot.panics,
        tot.lru_hit, tot.lru_miss, tot.range_hit, tot.range_miss, tot.sl_hit, tot.sl_miss
    );
}
