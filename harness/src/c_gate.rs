//! component `gate`: SyslogProcessor stage 0 + stage 1 (block-zero analysis) verdict.
//! request: gate <bs> <hex d>   -> FileOk | FileErrNoSyslinesFound | ...
use crate::c_line::{write_tmp, FT_TEXT};
use crate::c_sysl::gen_log;
use crate::util::*;
use chrono::FixedOffset;
use s4lib::common::FileProcessingResult;
use s4lib::readers::syslogprocessor::SyslogProcessor;
use std::io::Write;

pub fn replay_line(req: &str) -> String {
    let w: Vec<&str> = req.split_whitespace().collect();
    if w.len() != 3 || w[0] != "gate" { return "bad-op".to_string(); }
    let bs: u64 = w[1].parse().unwrap();
    let d = unhex(w[2]);
    let f = write_tmp(&d, ".log");
    let path = f.path().to_str().unwrap().to_string();
    let r = guarded(move || {
        let mut sp = match SyslogProcessor::new(path, FT_TEXT, bs, FixedOffset::east_opt(0).unwrap(), None, None) {
            Ok(v) => v,
            Err(e) => return format!("err-new {}", e.kind()),
        };
        let r0 = sp.process_stage0_valid_file_check();
        if !r0.is_ok() {
            return format!("{:?}", r0).split('(').next().unwrap().to_string();
        }
        let r1 = sp.process_stage1_blockzero_analysis();
        match r1 {
            FileProcessingResult::FileErrIo(_) | FileProcessingResult::FileErrIoPath(_) => "FileErrIo".to_string(),
            other => format!("{:?}", other).split('(').next().unwrap().to_string(),
        }
    });
    match r { Ok(s) => s, Err(m) => format!("panic {}", m) }
}

pub fn run(o: &Opts, out: &mut dyn Write) {
    quiet_panics();
    let mut rng = Rng::new(o.seed ^ 0x6a7e);
    let emit = |out: &mut dyn Write, bs: usize, d: &[u8]| {
        let req = format!("gate {} {}", bs, hex(d));
        let r = replay_line(&req);
        writeln!(out, "{}\t{}", req, r).unwrap();
    };
    for i in 0..o.n {
        let (mut d, _) = gen_log(&mut rng, if i % 5 == 0 { 40 } else { 6 }, true);
        match i % 9 {
            1 => { // long first line (F1 territory)
                let mut h: Vec<u8> = b"2021-03-04 05:06:07 ".to_vec();
                for _ in 0..rng.below(200) { h.push(b'q'); }
                h.push(b'\n');
                h.extend(&d);
                d = h;
            }
            2 => { d = vec![0u8; rng.below(300)]; }                           // NUL bytes
            3 => { d.truncate(rng.below(12)); }                               // tiny
            4 => { let n = 8000 + rng.below(400);                              // around SYSLOG_SZ_MAX
                   while d.len() < n { let (e, _) = gen_log(&mut rng, 10, true); d.extend(e); if rng.chance(1, 3) { for _ in 0..rng.below(3000) { d.push(b'z'); } d.push(b'\n'); } }
                   d.truncate(n); }
            5 => { // one huge message
                let mut h: Vec<u8> = b"2021-03-04 05:06:07 start\n".to_vec();
                for _ in 0..(100 + rng.below(100)) { h.extend(b"  continuation line without digits\n"); }
                d = h; }
            6 => { d = b"no timestamps here\njust text\n".to_vec(); for _ in 0..rng.below(20) { d.extend(b"more text\n"); } }
            _ => {}
        }
        let bss = [64, 65, 64 + rng.below(200), 64 + rng.below(1000), 4096, 8095, 8096, 8097, 0x10000];
        for _ in 0..3 {
            let bs = rng.pick(&bss);
            emit(out, bs, &d);
        }
        // block size right around the first line's end
        if let Some(p) = d.iter().position(|&b| b == b'\n') {
            for bs in [p, p + 1, p + 2] { if bs >= 64 { emit(out, bs, &d); } }
        }
    }
}
