//! component `year`: the REAL `SyslogProcessor` driven through stages 0, 1, 2 (stage 2 calls
//! `process_missing_year(self.mtime(), --dt-after)`) over generated year-less syslog files, against
//! `S4V.Model.Year.processMissingYearL` (driver op `time yearx`, executable `drv_time`).
//!
//! request   time yearx <mtime s> <off s> <after s|n> <lead> <mo>:<day>:<sod>,… <cont> <bs>
//!   lead    number of lines without a timestamp before the first message (0-2)
//!   cont    one digit per message: number of continuation lines after its head line   (implementation side only)
//!   bs      block size                                                                (implementation side only)
//!   the file is `Mon DD HH:MM:SS host prog: msg <tag>\n` per message (+ continuation lines), its mtime is set to
//!   <mtime>, the processor's `tz_offset` is <off>, `filter_dt_after_opt` is <after> (UTC instant).
//! reply     <t|n>,<t|n>,…   one entry per message in file order: the epoch seconds of the sysline STORED at the
//!           message's offset after stage 2 (as `find_sysline(offset)` then answers from its store), `n` when
//!           nothing is stored there (the offset lies inside an earlier stored sysline = swallowed, or the sysline
//!           found there is a fresh parse with the dummy year 1972 = never re-dated). `-` for no messages.
//!           Suffixes `!ext<i>` flag a stored sysline whose extent is not "up to the next stored message".
//!           | verdict <name>   a stage did not return FileOk
use crate::c_line::{write_tmp, FT_TEXT};
use crate::util::*;
use chrono::{Datelike, FixedOffset, NaiveDate, TimeZone};
use s4lib::common::{FileProcessingResult, ResultS3};
use s4lib::data::datetime::DateTimeLOpt;
use s4lib::readers::syslogprocessor::SyslogProcessor;
use std::collections::BTreeMap;
use std::io::Write;

const MON: [&str; 12] = ["Jan", "Feb", "Mar", "Apr", "May", "Jun", "Jul", "Aug", "Sep", "Oct", "Nov", "Dec"];
const OFFS: [i64; 7] = [0, 0, 19800, -28800, 50400, -43200, 3600];
const DUMMY_YEAR: i32 = 1972;
const J: i64 = 25 * 3600;

fn jan1(y: i32) -> i64 {
    NaiveDate::from_ymd_opt(y, 1, 1).unwrap().and_hms_opt(0, 0, 0).unwrap().and_utc().timestamp()
}

fn ymd(t: i64) -> (i32, u32, u32, u32) {
    let d = chrono::DateTime::from_timestamp(t, 0).unwrap().naive_utc();
    (d.year(), d.month(), d.day(), (t.rem_euclid(86400)) as u32)
}

/// (file bytes, begin offset of every message)
fn render(lead: usize, msgs: &[(u32, u32, u32)], cont: &[u8]) -> (Vec<u8>, Vec<usize>) {
    let mut d: Vec<u8> = vec![];
    let mut begs = vec![];
    let leads = ["leading text without a timestamp\n", "second leading line, still no timestamp\n"];
    for j in 0..lead.min(2) { d.extend_from_slice(leads[j].as_bytes()); }
    for (i, (mo, day, sod)) in msgs.iter().enumerate() {
        begs.push(d.len());
        let tag: String = std::iter::repeat((b'a' + (i % 26) as u8) as char).take(1 + i % 3).collect();
        d.extend_from_slice(format!("{} {:>2} {:02}:{:02}:{:02} host prog: msg n{}\n",
            MON[(*mo as usize - 1) % 12], day, sod / 3600, sod % 3600 / 60, sod % 60, tag).as_bytes());
        for _ in 0..cont.get(i).copied().unwrap_or(0) {
            d.extend_from_slice(b"    continuation line of the message above\n");
        }
    }
    (d, begs)
}

fn parse_msgs(s: &str) -> Option<Vec<(u32, u32, u32)>> {
    if s == "-" { return Some(vec![]); }
    let mut v = vec![];
    for p in s.split(',') {
        let w: Vec<&str> = p.split(':').collect();
        if w.len() != 3 { return None; }
        let (mo, day, sod): (u32, u32, u32) = (w[0].parse().ok()?, w[1].parse().ok()?, w[2].parse().ok()?);
        if !(1..=12).contains(&mo) || !(1..=31).contains(&day) || sod >= 86400 { return None; }
        v.push((mo, day, sod));
    }
    Some(v)
}

pub fn replay_line(req: &str) -> String {
    let w: Vec<&str> = req.split_whitespace().collect();
    if w.len() != 9 || w[0] != "time" || w[1] != "yearx" { return "bad-op".to_string(); }
    let mtime: i64 = match w[2].parse() { Ok(v) => v, Err(_) => return "bad-op".to_string() };
    let off: i32 = match w[3].parse() { Ok(v) => v, Err(_) => return "bad-op".to_string() };
    let after: DateTimeLOpt = if w[4] == "n" { None } else {
        match w[4].parse::<i64>() { Ok(t) => Some(FixedOffset::east_opt(0).unwrap().timestamp_opt(t, 0).unwrap()), Err(_) => return "bad-op".to_string() }
    };
    let lead: usize = match w[5].parse() { Ok(v) => v, Err(_) => return "bad-op".to_string() };
    let msgs = match parse_msgs(w[6]) { Some(v) => v, None => return "bad-op".to_string() };
    let cont: Vec<u8> = w[7].bytes().filter(|b| b.is_ascii_digit()).map(|b| b - b'0').collect();
    let bs: u64 = match w[8].parse() { Ok(v) => v, Err(_) => return "bad-op".to_string() };
    if mtime < 0 || lead > 2 { return "bad-op".to_string(); }
    if msgs.is_empty() { return "-".to_string(); }
    let (d, begs) = render(lead, &msgs, &cont);
    let f = write_tmp(&d, ".log");
    if f.as_file().set_modified(std::time::UNIX_EPOCH + std::time::Duration::from_secs(mtime as u64)).is_err() {
        return "err-set-mtime".to_string();
    }
    let path = f.path().to_str().unwrap().to_string();
    let dlen = d.len();
    let r = guarded(move || {
        let tz = match FixedOffset::east_opt(off) { Some(t) => t, None => return "bad-op".to_string() };
        let mut sp = match SyslogProcessor::new(path, FT_TEXT, bs, tz, after, None) {
            Ok(v) => v,
            Err(e) => return format!("err-new {}", e.kind()),
        };
        let name = |r: &FileProcessingResult<std::io::Error>| format!("{:?}", r).split('(').next().unwrap().to_string();
        let r0 = sp.process_stage0_valid_file_check();
        if !r0.is_ok() { return format!("verdict {}", name(&r0)); }
        let r1 = sp.process_stage1_blockzero_analysis();
        if !r1.is_ok() { return format!("verdict {}", name(&r1)); }
        let r2 = sp.process_stage2_find_dt(&after);
        if !r2.is_ok() { return format!("verdict {}", name(&r2)); }
        // what is stored at every message's offset (file order; a fresh parse of an unstored message only adds
        // a sysline over that message's own lines)
        let mut out: Vec<String> = vec![];
        let mut stored: Vec<(usize, usize, usize)> = vec![]; // (message index, begin, end)
        for (i, &b) in begs.iter().enumerate() {
            match sp.find_sysline(b as u64) {
                ResultS3::Found((_, s)) => {
                    let (sb, se) = (s.fileoffset_begin() as usize, s.fileoffset_end() as usize);
                    if sb != b {
                        // inside an earlier sysline: must be one we saw stored
                        if stored.last().map(|x| x.1) == Some(sb) { out.push("n".to_string()); } else { out.push(format!("inside{}", sb)); }
                    } else if s.dt().year() == DUMMY_YEAR {
                        out.push("n".to_string());
                    } else {
                        out.push(format!("{}", s.dt().timestamp()));
                        stored.push((i, sb, se));
                    }
                }
                ResultS3::Done => out.push("done".to_string()),
                ResultS3::Err(e) => out.push(format!("err-{}", e.kind())),
            }
        }
        // extents: a stored sysline runs up to the byte before the next stored message (or the end of the file)
        let mut flags = String::new();
        for (k, &(i, _sb, se)) in stored.iter().enumerate() {
            let want_end = if k + 1 < stored.len() { stored[k + 1].1 - 1 } else { dlen - 1 };
            if se != want_end { flags.push_str(&format!("!ext{}", i)); }
        }
        format!("{}{}", out.join(","), flags)
    });
    match r { Ok(s) => s, Err(m) => format!("panic {}", m) }
}

struct Case { mtime: i64, off: i64, after: Option<i64>, lead: usize, msgs: Vec<(u32, u32, u32)>, cont: Vec<u8>, bs: u64,
              wraps: usize, wrap_first: bool, wrap_last: bool, feb29: bool, wild: bool, equal_run: bool, after_kind: &'static str }

fn req_of(c: &Case) -> String {
    let msgs = if c.msgs.is_empty() { "-".to_string() } else {
        c.msgs.iter().map(|(a, b, s)| format!("{}:{}:{}", a, b, s)).collect::<Vec<_>>().join(",")
    };
    let cont: String = if c.cont.is_empty() { "-".to_string() } else { c.cont.iter().map(|x| (b'0' + x) as char).collect() };
    format!("time yearx {} {} {} {} {} {} {}", c.mtime, c.off, c.after.map(|a| a.to_string()).unwrap_or("n".to_string()), c.lead, msgs, cont, c.bs)
}

fn gen_case(rng: &mut Rng, k: usize) -> Case {
    let n: usize = match k % 8 { 0 => 1 + rng.below(3), 1 => 2, _ => 1 + rng.below(40) };
    let want_wraps = (k / 2) % 4;
    let wild = k % 11 == 10;
    let off = rng.pick(&OFFS);
    // where the year wraps (index i = between message i-1 and i)
    let mut wrap_at: Vec<usize> = vec![];
    if n >= 2 {
        let mut w = want_wraps.min(n - 1);
        if w > 0 && k % 3 == 0 { wrap_at.push(1); w -= 1; }
        if w > 0 && k % 3 == 1 && !wrap_at.contains(&(n - 1)) { wrap_at.push(n - 1); w -= 1; }
        let mut guard = 0;
        while w > 0 && guard < 100 {
            guard += 1;
            let p = 1 + rng.below(n - 1);
            if !wrap_at.contains(&p) { wrap_at.push(p); w -= 1; }
        }
    }
    let y0 = 1990 + rng.below(80) as i32;
    let mut t: i64 = jan1(y0) + rng.below(365 * 86400) as i64;
    if wrap_at.contains(&1) && rng.chance(1, 2) {
        // December just before the wrap
        t = jan1(y0 + 1) - 1 - rng.below(20 * 86400) as i64;
    }
    let mut times: Vec<i64> = vec![];
    let mut equal_run = false;
    for i in 0..n {
        if i > 0 {
            let y = ymd(t).0;
            if wrap_at.contains(&i) {
                let ny = jan1(y + 1);
                let span = if rng.chance(1, 3) { 3600 } else { 40 * 86400 };
                let mut nt = ny + rng.below(span) as i64;
                if !wild && nt - t >= 365 * 86400 - J { nt = (t + 365 * 86400 - J - 1).max(ny); }
                t = nt;
            } else {
                let step: i64 = match rng.below(12) {
                    0 | 1 | 2 => { equal_run = true; 0 }
                    3 | 4 => rng.below(5) as i64,
                    5 | 6 => rng.below(7200) as i64,
                    7 | 8 => rng.below(20 * 86400) as i64,
                    9 => -(rng.below(24 * 3600) as i64),
                    10 => rng.below(26 * 3600) as i64,
                    _ => if wild { rng.range(-90 * 86400, 500 * 86400) } else { rng.below(60) as i64 },
                };
                let nt = t + step;
                if wild || ymd(nt).0 == y { t = nt; } else { equal_run = true; }
            }
        }
        times.push(t);
    }
    let mut msgs: Vec<(u32, u32, u32)> = times.iter().map(|&t| { let (_, m, d, s) = ymd(t); (m, d, s) }).collect();
    let wraps = times.windows(2).filter(|w| ymd(w[0]).0 != ymd(w[1]).0).count();
    let wrap_first = n >= 2 && ymd(times[0]).0 != ymd(times[1]).0;
    let wrap_last = n >= 2 && ymd(times[n - 2]).0 != ymd(times[n - 1]).0;
    // 29 February lines
    let mut feb29 = msgs.iter().any(|m| m.0 == 2 && m.1 == 29);
    if k % 6 == 5 {
        let pos = match rng.below(4) { 0 => 0, 1 => msgs.len(), _ => rng.below(msgs.len() + 1) };
        msgs.insert(pos, (2, 29, rng.below(86400) as u32));
        times.insert(pos, if pos > 0 { times[pos - 1] } else { times[0] });
        if rng.chance(1, 3) && msgs.len() < 41 { msgs.insert(pos, (2, 29, rng.below(86400) as u32)); times.insert(pos, times[pos]); }
        feb29 = true;
    }
    if k % 9 == 8 {
        // several 29 February lines, mostly at the beginning of the file; mtime year leap or not by the timeline
        for _ in 0..(1 + rng.below(4)) {
            if msgs.len() >= 41 { break; }
            let pos = if rng.chance(2, 3) { rng.below(3.min(msgs.len() + 1)) } else { rng.below(msgs.len() + 1) };
            msgs.insert(pos, (2, 29, rng.below(86400) as u32));
            times.insert(pos, if pos > 0 { times[pos - 1] } else { times[0] });
        }
        feb29 = true;
    }
    let cont: Vec<u8> = (0..msgs.len()).map(|_| if rng.chance(1, 4) { 1 + rng.below(2) as u8 } else { 0 }).collect();
    let lead = match k % 5 { 3 => 1, 4 => if rng.chance(1, 2) { 2 } else { 0 }, _ => 0 };
    // mtime: inside the local year of the last message, on its edges, the message itself; sometimes a year later
    let last = *times.last().unwrap();
    let ly = ymd(last).0;
    let (lo, hi) = (jan1(ly) - off, jan1(ly + 1) - off - 1);
    let mut mtime = match rng.below(6) { 0 => lo, 1 => hi, 2 => last - off, 3 => hi - rng.below(3) as i64, _ => lo + rng.below((hi - lo + 1) as usize) as i64 };
    if k % 13 == 12 { mtime += 366 * 86400; }
    let mtime = mtime.max(1);
    // --dt-after: exactly on a message's (true) instant, next to it, or anywhere
    let (after, after_kind) = match rng.below(8) {
        0 | 1 | 2 => (Some(rng.pick(&times) - off), "on-true-instant"),
        3 => (Some(rng.pick(&times) - off + rng.pick(&[-1i64, 1])), "next-to-instant"),
        4 => (Some(times[0] - off + rng.range(-86400, (last - times[0]).max(1) + 86400)), "random"),
        _ => (None, "none"),
    };
    // block size: the whole first message (and what precedes it) inside block zero
    let (d, begs) = render(lead, &msgs, &cont);
    let first_end = if begs.len() >= 2 { begs[1] } else { d.len() };
    let bs = (rng.pick(&[0x10000usize, 0x10000, 4096, 1024, 512, 256, 128, 100])).max(first_end + 2) as u64;
    Case { mtime, off, after, lead, msgs, cont, bs, wraps, wrap_first, wrap_last, feb29, wild, equal_run, after_kind }
}

pub fn run(o: &Opts, out: &mut dyn Write) {
    quiet_panics();
    let mut rng = Rng::new(o.seed ^ 0x11c11);
    let mut dist: BTreeMap<String, usize> = BTreeMap::new();
    let bump = |dist: &mut BTreeMap<String, usize>, k: String| { *dist.entry(k).or_insert(0) += 1; };
    // fixed scenarios: the December→January wrap between message 1 and 2 / the last two; equal instants under -a
    let mut fixed: Vec<Case> = vec![];
    for lead in 0..=2usize {
        for off in [0i64, 19800, -28800] {
            for cont0 in [0u8, 1] {
                let base = |msgs: Vec<(u32, u32, u32)>, mtime: i64, after: Option<i64>, bs: u64| Case {
                    mtime, off, after, lead, cont: { let mut c = vec![0u8; msgs.len()]; c[0] = cont0; c }, msgs, bs,
                    wraps: 0, wrap_first: false, wrap_last: false, feb29: false, wild: false, equal_run: false, after_kind: "fixed" };
                let m2021 = jan1(2021) + 40 * 86400 - off;
                // wrap between message 1 and 2
                fixed.push(base(vec![(12, 31, 86399), (1, 1, 0)], m2021, None, 0x10000));
                fixed.push(base(vec![(12, 30, 100), (1, 1, 0), (1, 2, 5)], m2021, None, 0x10000));
                fixed.push(base(vec![(12, 31, 86399), (1, 1, 0)], m2021, None, 128));
                // two wraps, 3 messages
                fixed.push(base(vec![(12, 1, 0), (6, 1, 0), (1, 3, 7)], m2021, None, 0x10000));
                // equal instants, -a exactly on them / one second later / earlier
                let a = jan1(2021) + 10 * 86400 + 3600 - off;
                for after in [Some(a), Some(a + 1), Some(a - 1), None] {
                    fixed.push(base(vec![(1, 11, 3600), (1, 11, 3600)], m2021, after, 0x10000));
                    fixed.push(base(vec![(1, 10, 0), (1, 11, 3600), (1, 11, 3600), (1, 11, 3600), (1, 12, 0)], m2021, after, 0x10000));
                    fixed.push(base(vec![(12, 31, 0), (1, 11, 3600), (1, 11, 3600)], m2021, after, 0x10000));
                }
                // 29 February
                fixed.push(base(vec![(1, 2, 0), (2, 29, 43200), (2, 20, 0)], jan1(2025) + 60 * 86400 - off, None, 0x10000));
                fixed.push(base(vec![(2, 29, 43200), (1, 5, 1800)], jan1(2025) + 60 * 86400 - off, None, 0x10000));
                fixed.push(base(vec![(2, 27, 36000), (2, 29, 43200), (1, 5, 1800)], jan1(2025) + 60 * 86400 - off, None, 0x10000));
                fixed.push(base(vec![(2, 28, 0), (2, 29, 43200)], jan1(2024) + 70 * 86400 - off, None, 0x10000));
                fixed.push(base(vec![(2, 29, 43200)], jan1(2023) + 70 * 86400 - off, None, 0x10000));
                // trailing 29 February stored with a leap mtime year, then swallowed (YearSpec.C11_last_feb29_lost)
                fixed.push(base(vec![(10, 31, 0), (2, 29, 0)], jan1(2044) + 55 * 86400 - off, None, 0x10000));
                // leading 29 February in a leap mtime year: the next message is found again (YearSpec.C11_refind_redates)
                fixed.push(base(vec![(2, 29, 0), (1, 4, 0), (1, 15, 0)], jan1(2004) + 80 * 86400 - off, None, 0x10000));
            }
        }
    }
    let nfixed = fixed.len();
    let mut cases: Vec<Case> = fixed;
    for k in 0..o.n { cases.push(gen_case(&mut rng, k)); }
    for (idx, c) in cases.iter_mut().enumerate() {
        if idx < nfixed {
            // keep the whole first message inside block zero
            let (d, begs) = render(c.lead, &c.msgs, &c.cont);
            let first_end = if begs.len() >= 2 { begs[1] } else { d.len() };
            c.bs = c.bs.max(first_end as u64 + 2);
        }
        let req = req_of(c);
        let r = replay_line(&req);
        writeln!(out, "{}\t{}", req, r).unwrap();
        if idx < nfixed { bump(&mut dist, "fixed-scenarios".to_string()); continue; }
        bump(&mut dist, format!("wraps={}", c.wraps.min(4)));
        if c.wrap_first { bump(&mut dist, "wrap-between-msg-1-and-2".to_string()); }
        if c.wrap_last { bump(&mut dist, "wrap-between-last-two".to_string()); }
        if c.wraps > 0 && !(c.wrap_first && c.wraps == 1) && !(c.wrap_last && c.wraps == 1) { bump(&mut dist, "wrap-in-the-middle".to_string()); }
        if c.feb29 { bump(&mut dist, "has-feb29".to_string()); }
        if c.wild { bump(&mut dist, "wild-timeline".to_string()); }
        if c.equal_run { bump(&mut dist, "has-equal-instants".to_string()); }
        if c.lead > 0 { bump(&mut dist, format!("lead={}", c.lead)); }
        if c.cont.iter().any(|&x| x > 0) { bump(&mut dist, "multi-line-messages".to_string()); }
        if c.bs < 0x10000 { bump(&mut dist, "multi-block".to_string()); }
        bump(&mut dist, format!("after={}", c.after_kind));
        bump(&mut dist, format!("msgs={}", match c.msgs.len() { 1 => "1", 2 => "2", 3..=10 => "3-10", _ => "11-41" }));
        let ents: Vec<&str> = r.split(',').collect();
        if let Some(a) = c.after {
            let astr = a.to_string();
            let hits = ents.iter().filter(|e| **e == astr).count();
            if hits >= 1 { bump(&mut dist, "after-exactly-on-a-stored-instant".to_string()); }
            if hits >= 2 { bump(&mut dist, "after-exactly-on-a-run-of-equal-instants".to_string()); }
        }
        let nn = ents.iter().filter(|e| **e == "n").count();
        bump(&mut dist, (if r.starts_with("verdict") || r.starts_with("panic") { "reply:other" } else if nn == 0 { "reply:all-stored" } else if nn == ents.len() { "reply:none-stored" } else { "reply:some-not-stored" }).to_string());
    }
    let js: Vec<String> = dist.iter().map(|(k, v)| format!("\"{}\": {}", k, v)).collect();
    writeln!(out, "# dist {{{}}}", js.join(", ")).unwrap();
}
