//! component `path`: `path cls <hex name> <0|1>` -> canonical filetype string.
use crate::util::*;
use s4lib::common::{FileType, FileTypeArchive, FileTypeFixedStruct};
use s4lib::readers::filepreprocessor::{path_to_filetype, PathToFiletypeResult, FileTypeArchiveMultiple};
use std::ffi::OsStr;
use std::io::Write;
use std::os::unix::ffi::OsStrExt;
use std::path::PathBuf;

fn arch(a: FileTypeArchive) -> &'static str {
    match a {
        FileTypeArchive::Normal => "Normal",
        FileTypeArchive::Bz2 => "Bz2",
        FileTypeArchive::Gz => "Gz",
        FileTypeArchive::Lz4 => "Lz4",
        FileTypeArchive::Tar => "Tar",
        FileTypeArchive::Xz => "Xz",
    }
}

fn fixed(t: FileTypeFixedStruct) -> &'static str {
    match t {
        FileTypeFixedStruct::Acct => "Acct",
        FileTypeFixedStruct::AcctV3 => "AcctV3",
        FileTypeFixedStruct::Lastlog => "Lastlog",
        FileTypeFixedStruct::Lastlogx => "Lastlogx",
        FileTypeFixedStruct::Utmp => "Utmp",
        FileTypeFixedStruct::Utmpx => "Utmpx",
    }
}

pub fn canon(r: PathToFiletypeResult) -> String {
    match r {
        PathToFiletypeResult::Filetype(ft) => match ft {
            FileType::Unparsable => "Unparsable".to_string(),
            FileType::Evtx { archival_type } => format!("Evtx {}", arch(archival_type)),
            FileType::Journal { archival_type } => format!("Journal {}", arch(archival_type)),
            FileType::Text { archival_type, .. } => format!("Text {}", arch(archival_type)),
            FileType::FixedStruct { archival_type, fixedstruct_type } => {
                format!("Fixed {} {}", fixed(fixedstruct_type), arch(archival_type))
            }
        },
        PathToFiletypeResult::Archive(FileTypeArchiveMultiple::Tar, a) => format!("ArchiveTar {}", arch(a)),
    }
}

pub fn classify_impl(name: &[u8], ua: bool, with_dir: bool) -> String {
    let mut p = PathBuf::new();
    if with_dir {
        p.push("d.log");
    }
    p.push(OsStr::from_bytes(name));
    let name_v = p.clone();
    match guarded(move || path_to_filetype(&name_v, ua)) {
        Ok(r) => canon(r),
        Err(m) => format!("panic {}", m),
    }
}

const TYPE_WORDS: &[&str] = &[
    "log", "txt", "text", "utmp", "wtmp", "btmp", "utmpx", "wtmpx", "btmpx", "lastlog", "lastlogx",
    "acct", "pacct", "journal", "evtx", "tar", "messages", "syslog", "dmesg", "history", "kernlog",
    "kernellog", "kernelog",
];
const COMPRESS: &[&str] = &["gz", "gzip", "bz2", "xz", "xzip", "lz4"];
const NONLOG: &[&str] = &["png", "zip", "exe", "7z", "a", "c", "tgz", "so", "bz", "py", "html"];
// the last two are longer than any recognised word (17+ bytes): rotation stamps such as `.2023-01-01T00-00-00Z` (seeded change C16-d ignored extensions over 16 bytes)
const UNKNOWN: &[&str] = &["old", "bak", "1", "20230101", "99999999999", "-1", "+5", "x", "LOG1", "tmp", "0", "", "é", "日本", "2023-01-01T00-00-00Z", "backup-before-upgrade-of-the-host"];
const STEMS: &[&str] = &["a", "foo", "log_media", "media_log", "LOG_x", "x_LOG", "system@0005", "user-1000", "", "my.host", "file name"];
const JUNK: &[u8] = b"~-,?;";
const JUNKL: &[u8] = b"~-,?;.";

fn recase(rng: &mut Rng, s: &str) -> Vec<u8> {
    match rng.below(4) {
        0 => s.to_ascii_uppercase().into_bytes(),
        1 => {
            let mut b = s.as_bytes().to_vec();
            for x in b.iter_mut() {
                if rng.chance(1, 2) { *x = x.to_ascii_uppercase(); }
            }
            b
        }
        _ => s.as_bytes().to_vec(),
    }
}

fn gen_valid(rng: &mut Rng) -> Vec<u8> {
    let mut name: Vec<u8> = vec![];
    for _ in 0..rng.below(3) {
        if rng.chance(1, 2) { name.push(rng.pick(JUNKL)); }
    }
    let stem: &str = if rng.chance(1, 2) { rng.pick(STEMS) } else { rng.pick(TYPE_WORDS) };
    name.extend(recase(rng, stem));
    for _ in 0..rng.below(5) {
        name.push(b'.');
        let w: &str = match rng.below(10) {
            0..=2 => rng.pick(TYPE_WORDS),
            3..=4 => rng.pick(COMPRESS),
            5 => rng.pick(NONLOG),
            _ => rng.pick(UNKNOWN),
        };
        name.extend(recase(rng, w));
        if rng.chance(1, 12) { name.push(rng.pick(JUNK)); }
    }
    for _ in 0..rng.below(3) {
        if rng.chance(1, 2) { name.push(rng.pick(JUNK)); }
    }
    name
}

const ALPHA: &[u8] = &[b'.', b'~', b'-', b'a', b'1', b'+', b'G', 0xFF, b'z', b'g', 0xC3, 0xA9, b'_', b' '];

fn gen_malformed(rng: &mut Rng) -> Vec<u8> {
    let len = rng.below(9);
    let mut v = vec![];
    for _ in 0..len {
        if rng.chance(1, 20) {
            let mut b = (rng.next() & 0xFF) as u8;
            if b == b'/' || b == 0 { b = b'.'; }
            v.push(b);
        } else {
            v.push(rng.pick(ALPHA));
        }
    }
    if rng.chance(1, 3) {
        v.push(b'.');
        v.extend(rng.pick(TYPE_WORDS).as_bytes());
    }
    v
}

pub fn run(o: &Opts, out: &mut dyn Write) {
    quiet_panics();
    let mut rng = Rng::new(o.seed);
    let emit = |out: &mut dyn Write, name: &[u8], ua: bool| {
        let r0 = classify_impl(name, ua, false);
        let r1 = classify_impl(name, ua, true);
        // a directory prefix must not matter (the model sees only the name)
        let r = if r0 == r1 || matches!(name, b"" | b"." | b"..") { r0 } else { format!("dir-dependent {} | {}", r0, r1) };
        writeln!(out, "path cls {} {}\t{}", hex(name), if ua { 1 } else { 0 }, r).unwrap();
    };
    // exhaustive small names over a short alphabet (first, fixed)
    let small: &[u8] = &[b'.', b'~', b'a', b'1', 0xFF];
    let maxlen = if o.thorough { 5 } else { 4 };
    let mut names: Vec<Vec<u8>> = vec![vec![]];
    let mut frontier: Vec<Vec<u8>> = vec![vec![]];
    for _ in 0..maxlen {
        let mut next = vec![];
        for f in &frontier {
            for c in small {
                let mut g = f.clone();
                g.push(*c);
                next.push(g);
            }
        }
        names.extend(next.iter().cloned());
        frontier = next;
    }
    for nm in &names {
        emit(out, nm, false);
        emit(out, nm, true);
    }
    for i in 0..o.n {
        let nm = if i % 4 == 3 { gen_malformed(&mut rng) } else { gen_valid(&mut rng) };
        let ua = rng.chance(1, 2);
        emit(out, &nm, ua);
    }
}

// ---------------------------------------------------------------- oracle
// Implementation-side metamorphic relations of C16/C15 (never stronger than
// the property). Output: `O<TAB>ok|<signature><TAB>detail`.

fn o(out: &mut dyn Write, sig: &str, detail: String) {
    writeln!(out, "O\t{}\t{}", sig, detail).unwrap();
}

fn clean_base(rng: &mut Rng) -> Vec<u8> {
    // stem of letters/digits, then 0-3 components from the word lists; no junk
    let stems: &[&str] = &["a", "foo", "host1", "log_media", "media_log", "system@0005", "user-1000", "x86"];
    let st: &str = rng.pick(stems);
    let mut name = recase(rng, st);
    for _ in 0..rng.below(4) {
        name.push(b'.');
        let w: &str = match rng.below(10) {
            0..=3 => rng.pick(TYPE_WORDS),
            4..=5 => rng.pick(COMPRESS),
            6 => rng.pick(NONLOG),
            _ => rng.pick(&["old", "bak", "1", "20230101", "x", "tmp", "0", "2023-01-01T00-00-00Z", "rotated-2023-01-01_00-00-00"]),
        };
        name.extend(recase(rng, w));
    }
    name
}

pub fn oracle(op: &Opts, out: &mut dyn Write) {
    quiet_panics();
    let mut rng = Rng::new(op.seed ^ 0x5151);
    let cls = |n: &[u8], ua: bool| classify_impl(n, ua, false);
    // names handed over by the check (e.g. those on which model and implementation disagreed) come
    // first; on them only the relations proved for EVERY name are evaluated (case, rotation,
    // trailing junk of UTF-8 names, explicit/same-type, directory independence)
    let given: Vec<Vec<u8>> = op.extra.iter().filter(|x| x.as_str() != "--names").map(|h| unhex(h)).collect();
    let total = op.n + given.len() * 2;
    for i in 0..total {
        let from_given = i < given.len() * 2;
        let b = if from_given { given[i / 2].clone() } else if i % 5 == 4 { gen_valid(&mut rng) } else { clean_base(&mut rng) };
        let ua = if from_given { i % 2 == 0 } else { rng.chance(1, 2) };
        let base = cls(&b, ua);
        let h = hex(&b);
        // no panic, ever
        if base.starts_with("panic") {
            o(out, "panic", format!("{} {}", h, base));
            continue;
        }
        // dir independence
        for d in ["x.journal", "y.gz", "plain"] {
            let mut p = PathBuf::from(d);
            p.push(OsStr::from_bytes(&b));
            if b.is_empty() || b == b"." || b == b".." { continue; }
            let r = match guarded(move || path_to_filetype(&p, ua)) { Ok(r) => canon(r), Err(m) => format!("panic {}", m) };
            if r != base { o(out, "dir-dependent", format!("{} ua={} alone={} in {}={}", h, ua, base, d, r)); } else { o(out, "ok", String::new()); }
        }
        // explicit always / same type
        let rt = cls(&b, true);
        let rf = cls(&b, false);
        if rt == "Unparsable" { o(out, "explicit-unparsable", h.clone()); } else { o(out, "ok", String::new()); }
        if rf != "Unparsable" && rf != rt { o(out, "walk-vs-named-type", format!("{} {} {}", h, rf, rt)); } else { o(out, "ok", String::new()); }
        if (!from_given && i % 5 == 4) || b.is_empty() { continue; }
        if from_given {
            for k in ["1", "old", "2023-01-01T00-00-00Z"] {
                let mut n2 = b.clone(); n2.push(b'.'); n2.extend(k.as_bytes());
                let r = cls(&n2, ua);
                if r != base { o(out, "rotation", format!("{} +.{} {} vs {}", h, k, r, base)); } else { o(out, "ok", String::new()); }
            }
            let up = b.to_ascii_uppercase();
            let lo = b.to_ascii_lowercase();
            if cls(&up, ua) != base || cls(&lo, ua) != base {
                o(out, "case", format!("{} is {}; upper-cased {}; lower-cased {}", h, base, cls(&up, ua), cls(&lo, ua)));
            } else { o(out, "ok", String::new()); }
            if std::str::from_utf8(&b).is_ok() {
                let mut j = b.clone(); j.push(b'~');
                if cls(&j, ua) != base { o(out, "junk-trailing", format!("{} {} vs {}", hex(&j), cls(&j, ua), base)); } else { o(out, "ok", String::new()); }
            }
            continue;
        }
        // rotation suffixes
        for k in ["1", "20230101", "old", "BAK", "99999999999", "2023-01-01T00-00-00Z", "backup-before-upgrade-of-the-host"] {
            let mut n2 = b.clone(); n2.push(b'.'); n2.extend(k.as_bytes());
            let r = cls(&n2, ua);
            if r != base { o(out, "rotation", format!("{} +.{} {} vs {}", h, k, r, base)); } else { o(out, "ok", String::new()); }
        }
        // letter case
        let up = b.to_ascii_uppercase();
        let lo = b.to_ascii_lowercase();
        if cls(&up, ua) != base || cls(&lo, ua) != base { o(out, "case", format!("{} {}", h, base)); } else { o(out, "ok", String::new()); }
        // junk: trailing any of ~-,?; ; leading any of ~-,?; or one '.'
        let mut j = b.clone();
        for _ in 0..(1 + rng.below(2)) { j.push(rng.pick(JUNK)); }
        if cls(&j, ua) != base { o(out, "junk-trailing", format!("{} {} vs {}", hex(&j), cls(&j, ua), base)); } else { o(out, "ok", String::new()); }
        let mut j2: Vec<u8> = vec![];
        if rng.chance(1, 2) { j2.push(b'.'); } else { for _ in 0..(1 + rng.below(2)) { j2.push(rng.pick(JUNK)); } }
        j2.extend(&b);
        if cls(&j2, ua) != base { o(out, "junk-leading", format!("{} {} vs {}", hex(&j2), cls(&j2, ua), base)); } else { o(out, "ok", String::new()); }
        // one compression suffix: same kind, container set when base had none
        for (k, a) in [("gz", "Gz"), ("GZIP", "Gz"), ("bz2", "Bz2"), ("xz", "Xz"), ("xzip", "Xz"), ("lz4", "Lz4")] {
            let mut n2 = b.clone(); n2.push(b'.'); n2.extend(k.as_bytes());
            let r = cls(&n2, ua);
            let expect = if base == "Unparsable" { base.clone() }
                else if base.ends_with(" Normal") { format!("{} {}", &base[..base.len() - 7], a) }
                else { base.clone() };
            if r != expect { o(out, "compress", format!("{} +.{} {} expected {}", h, k, r, expect)); } else { o(out, "ok", String::new()); }
        }
        // type word in suffix position decides
        for (w, e) in [("log", "Text Normal"), ("TXT", "Text Normal"), ("utmp", "Fixed Utmp Normal"), ("wtmpx", "Fixed Utmpx Normal"),
                       ("btmp", "Fixed Utmp Normal"), ("lastlog", "Fixed Lastlog Normal"), ("lastlogx", "Fixed Lastlogx Normal"),
                       ("acct", "Fixed Acct Normal"), ("pacct", "Fixed AcctV3 Normal"), ("journal", "Journal Normal"), ("Evtx", "Evtx Normal")] {
            let mut n2 = b.clone(); n2.push(b'.'); n2.extend(w.as_bytes());
            let r = cls(&n2, ua);
            if r != e { o(out, "type-word", format!("{} +.{} {} expected {}", h, w, r, e)); } else { o(out, "ok", String::new()); }
            // ... and survives a rotation + compression suffix
            n2.extend(b".2.gz");
            let r2 = cls(&n2, ua);
            let e2 = format!("{} Gz", &e[..e.len() - 7]);
            if r2 != e2 { o(out, "type-word-rot-gz", format!("{} {} expected {}", hex(&n2), r2, e2)); } else { o(out, "ok", String::new()); }
        }
    }
    // witnesses of the two corners where junk characters DO matter (known findings F13, F14):
    // proved in Lean as C16_junk_leading_full_false / C16_junk_trailing_full_false
    for (a, b) in [(&b"..x"[..], &b"x"[..]), (&b"~.x"[..], &b"x"[..]), (&b"-.README"[..], &b"README"[..])] {
        if cls(a, false) != cls(b, false) {
            o(out, "junk-leading:dot-after-junk-unparsable", format!("{} is {} but {} is {} (walked directory)", hex(a), cls(a, false), hex(b), cls(b, false)));
        } else { o(out, "ok", String::new()); }
    }
    {
        let a: &[u8] = &[0xFF, b'.', b'l', b'o', b'g', b'~'];
        let b: &[u8] = &[0xFF, b'.', b'l', b'o', b'g'];
        if cls(a, false) != cls(b, false) {
            o(out, "junk-trailing:non-utf8-name-not-trimmed", format!("{} is {} but {} is {}", hex(a), cls(a, false), hex(b), cls(b, false)));
        } else { o(out, "ok", String::new()); }
    }
    // default text: stems with no recognised word
    for s in ["a", "foo", "README", "x86", "host1", "hello world", "日本語"] {
        let r = cls(s.as_bytes(), false);
        if r != "Text Normal" { o(out, "default-text", format!("{} {}", s, r)); } else { o(out, "ok", String::new()); }
    }
}

pub fn replay_line(req: &str) -> String {
    let w: Vec<&str> = req.split_whitespace().collect();
    if w.len() != 4 || w[0] != "path" || w[1] != "cls" { return "bad-op".to_string(); }
    let name = unhex(w[2]);
    let ua = w[3] == "1";
    let r0 = classify_impl(&name, ua, false);
    let r1 = classify_impl(&name, ua, true);
    if r0 == r1 || matches!(&name[..], b"" | b"." | b"..") { r0 } else { format!("dir-dependent {} | {}", r0, r1) }
}
