//! component `path`: `path cls <hex name> <0|1>` -> canonical filetype string.
use crate::util::*;
use s4lib::common::{FileType, FileTypeArchive, FileTypeFixedStruct};
use s4lib::readers::filepreprocessor::{path_to_filetype, PathToFiletypeResult, FileTypeArchiveMultiple};
use std::ffi::OsStr;
use std::io::Write;
use std::os::unix::ffi::OsStrExt;
use std::path::PathBuf;

fn arch(a: FileTypeArchive) -> &'static str {
    match a {
        FileTypeArchive::Normal => "Normal",
        FileTypeArchive::Bz2 => "Bz2",
        FileTypeArchive::Gz => "Gz",
        FileTypeArchive::Lz4 => "Lz4",
        FileTypeArchive::Tar => "Tar",
        FileTypeArchive::Xz => "Xz",
    }
}

fn fixed(t: FileTypeFixedStruct) -> &'static str {
    match t {
        FileTypeFixedStruct::Acct => "Acct",
        FileTypeFixedStruct::AcctV3 => "AcctV3",
        FileTypeFixedStruct::Lastlog => "Lastlog",
        FileTypeFixedStruct::Lastlogx => "Lastlogx",
        FileTypeFixedStruct::Utmp => "Utmp",
        FileTypeFixedStruct::Utmpx => "Utmpx",
    }
}

pub fn canon(r: PathToFiletypeResult) -> String {
    match r {
        PathToFiletypeResult::Filetype(ft) => match ft {
            FileType::Unparsable => "Unparsable".to_string(),
            FileType::Evtx { archival_type } => format!("Evtx {}", arch(archival_type)),
            FileType::Journal { archival_type } => format!("Journal {}", arch(archival_type)),
            FileType::Text { archival_type, .. } => format!("Text {}", arch(archival_type)),
            FileType::FixedStruct { archival_type, fixedstruct_type } => {
                format!("Fixed {} {}", fixed(fixedstruct_type), arch(archival_type))
            }
        },
        PathToFiletypeResult::Archive(FileTypeArchiveMultiple::Tar, a) => format!("ArchiveTar {}", arch(a)),
    }
}

pub fn classify_impl(name: &[u8], ua: bool, with_dir: bool) -> String {
    let mut p = PathBuf::new();
    if with_dir {
        p.push("d.log");
    }
    p.push(OsStr::from_bytes(name));
    let name_v = p.clone();
    match guarded(move || path_to_filetype(&name_v, ua)) {
        Ok(r) => canon(r),
        Err(m) => format!("panic {}", m),
    }
}

const TYPE_WORDS: &[&str] = &[
    "log", "txt", "text", "utmp", "wtmp", "btmp", "utmpx", "wtmpx", "btmpx", "lastlog", "lastlogx",
    "acct", "pacct", "journal", "evtx", "tar", "messages", "syslog", "dmesg", "history", "kernlog",
    "kernellog", "kernelog",
];
const COMPRESS: &[&str] = &["gz", "gzip", "bz2", "xz", "xzip", "lz4"];
const NONLOG: &[&str] = &["png", "zip", "exe", "7z", "a", "c", "tgz", "so", "bz", "py", "html"];
const UNKNOWN: &[&str] = &["old", "bak", "1", "20230101", "99999999999", "-1", "+5", "x", "LOG1", "tmp", "0", "", "é", "日本"];
const STEMS: &[&str] = &["a", "foo", "log_media", "media_log", "LOG_x", "x_LOG", "system@0005", "user-1000", "", "my.host", "file name"];
const JUNK: &[u8] = b"~-,?;";
const JUNKL: &[u8] = b"~-,?;.";

fn recase(rng: &mut Rng, s: &str) -> Vec<u8> {
    match rng.below(4) {
        0 => s.to_ascii_uppercase().into_bytes(),
        1 => {
            let mut b = s.as_bytes().to_vec();
            for x in b.iter_mut() {
                if rng.chance(1, 2) { *x = x.to_ascii_uppercase(); }
            }
            b
        }
        _ => s.as_bytes().to_vec(),
    }
}

fn gen_valid(rng: &mut Rng) -> Vec<u8> {
    let mut name: Vec<u8> = vec![];
    for _ in 0..rng.below(3) {
        if rng.chance(1, 2) { name.push(rng.pick(JUNKL)); }
    }
    let stem: &str = if rng.chance(1, 2) { rng.pick(STEMS) } else { rng.pick(TYPE_WORDS) };
    name.extend(recase(rng, stem));
    for _ in 0..rng.below(5) {
        name.push(b'.');
        let w: &str = match rng.below(10) {
            0..=2 => rng.pick(TYPE_WORDS),
            3..=4 => rng.pick(COMPRESS),
            5 => rng.pick(NONLOG),
            _ => rng.pick(UNKNOWN),
        };
        name.extend(recase(rng, w));
        if rng.chance(1, 12) { name.push(rng.pick(JUNK)); }
    }
    for _ in 0..rng.below(3) {
        if rng.chance(1, 2) { name.push(rng.pick(JUNK)); }
    }
    name
}

const ALPHA: &[u8] = &[b'.', b'~', b'-', b'a', b'1', b'+', b'G', 0xFF, b'z', b'g', 0xC3, 0xA9, b'_', b' '];

fn gen_malformed(rng: &mut Rng) -> Vec<u8> {
    let len = rng.below(9);
    let mut v = vec![];
    for _ in 0..len {
        if rng.chance(1, 20) {
            let mut b = (rng.next() & 0xFF) as u8;
            if b == b'/' || b == 0 { b = b'.'; }
            v.push(b);
        } else {
            v.push(rng.pick(ALPHA));
        }
    }
    if rng.chance(1, 3) {
        v.push(b'.');
        v.extend(rng.pick(TYPE_WORDS).as_bytes());
    }
    v
}

pub fn run(o: &Opts, out: &mut dyn Write) {
    quiet_panics();
    let mut rng = Rng::new(o.seed);
    let emit = |out: &mut dyn Write, name: &[u8], ua: bool| {
        let r0 = classify_impl(name, ua, false);
        let r1 = classify_impl(name, ua, true);
        // a directory prefix must not matter (the model sees only the name)
        let r = if r0 == r1 || matches!(name, b"" | b"." | b"..") { r0 } else { format!("dir-dependent {} | {}", r0, r1) };
        writeln!(out, "path cls {} {}\t{}", hex(name), if ua { 1 } else { 0 }, r).unwrap();
    };
    // exhaustive small names over a short alphabet (first, fixed)
    let small: &[u8] = &[b'.', b'~', b'a', b'1', 0xFF];
    let maxlen = if o.thorough { 5 } else { 4 };
    let mut names: Vec<Vec<u8>> = vec![vec![]];
    let mut frontier: Vec<Vec<u8>> = vec![vec![]];
    for _ in 0..maxlen {
        let mut next = vec![];
        for f in &frontier {
            for c in small {
                let mut g = f.clone();
                g.push(*c);
                next.push(g);
            }
        }
        names.extend(next.iter().cloned());
        frontier = next;
    }
    for nm in &names {
        emit(out, nm, false);
        emit(out, nm, true);
    }
    for i in 0..o.n {
        let nm = if i % 4 == 3 { gen_malformed(&mut rng) } else { gen_valid(&mut rng) };
        let ua = rng.chance(1, 2);
        emit(out, &nm, ua);
    }
}
