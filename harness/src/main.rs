//! Correspondence harness (Tie B): calls the real `s4lib` in-process and
//! prints one `request<TAB>implementation-reply` line per case. The same
//! requests are piped to the Lean driver and the replies compared.
mod util;
#[cfg(feature = "c_path")]
mod c_path;
#[cfg(feature = "c_line")]
mod c_line;
#[cfg(feature = "c_sysl")]
mod c_sysl;
#[cfg(feature = "c_gate")]
mod c_gate;
#[cfg(feature = "c_proc")]
mod c_proc;
#[cfg(feature = "c_walk")]
mod c_walk;
#[cfg(feature = "c_walktar")]
mod c_walktar;
#[cfg(feature = "c_strm")]
mod c_strm;
#[cfg(feature = "c_prt")]
mod c_prt;
#[cfg(feature = "c_boxp")]
mod c_boxp;
#[cfg(feature = "c_asm")]
mod c_asm;
#[cfg(feature = "c_time")]
mod c_time;
#[cfg(feature = "c_time")]
mod c_e2e;
#[cfg(feature = "c_year")]
mod c_year;
#[cfg(feature = "c_fixed")]
mod c_fixed;
#[cfg(feature = "c_wskel")]
mod c_wskel;
#[cfg(feature = "c_gskel")]
mod c_gskel;
#[cfg(feature = "c_evtxr")]
mod c_evtxr;
#[cfg(feature = "c_lskel")]
mod c_lskel;
#[cfg(feature = "c_capx")]
mod c_capx;
#[cfg(feature = "c_summ")]
mod c_summ;
#[cfg(feature = "c_fixedwalk")]
mod c_fixedwalk;
#[cfg(feature = "c_tarmember")]
mod c_tarmember;
#[cfg(feature = "c_jrender")]
mod c_jrender;
#[cfg(feature = "c_srch")]
mod c_srch;
#[cfg(feature = "c_layout")]
mod c_layout;
#[cfg(feature = "c_fixedfile")]
mod c_fixedfile;
#[cfg(feature = "c_patsel")]
mod c_patsel;
#[cfg(feature = "c_frender")]
mod c_frender;
#[cfg(feature = "c_syslc")]
mod c_syslc;
#[cfg(feature = "c_rgx")]
mod c_rgx;
#[cfg(feature = "c_rgx")]
mod c_rgxr;

use std::io::Write;

fn replay_loop(out: &mut dyn Write, f: fn(&str) -> String) {
    util::quiet_panics();
    let stdin = std::io::stdin();
    let mut line = String::new();
    loop {
        line.clear();
        if std::io::BufRead::read_line(&mut stdin.lock(), &mut line).unwrap() == 0 { break; }
        let req = line.trim_end_matches('\n');
        if req.is_empty() { continue; }
        writeln!(out, "{}\t{}", req, f(req)).unwrap();
    }
}

fn main() {
    let args: Vec<String> = std::env::args().collect();
    if args.len() < 2 {
        eprintln!("usage: s4h <component> [--seed N] [--n N] [--tier quick|thorough] [extra...]");
        std::process::exit(2);
    }
    let comp = args[1].clone();
    if comp == "evtx-dump" {
        // independent reader: (record id, timestamp ns) in file (enumeration) order
        let mut parser = evtx::EvtxParser::from_path(&args[2]).unwrap();
        for r in parser.records() {
            match r {
                Ok(rec) => println!("{} {}", rec.event_record_id, rec.timestamp.timestamp_nanos_opt().unwrap_or(0)),
                Err(e) => println!("err {}", e.to_string().replace('\n', " ")),
            }
        }
        return;
    }
    if comp == "pack" {
        // s4h pack lz4 <in> <out> [flush-every-N-bytes]
        let data = std::fs::read(&args[3]).unwrap();
        match args[2].as_str() {
            "lz4" => {
                let f = std::fs::File::create(&args[4]).unwrap();
                let mut enc = lz4_flex::frame::FrameEncoder::new(f);
                // optional 5th argument: flush after every N bytes, so that the frame holds NON-FINAL blocks shorter than the
                // encoder's block size (a streaming writer that flushes; the decoder then returns short reads mid-stream)
                match args.get(5).and_then(|a| a.parse::<usize>().ok()) {
                    Some(n) if n > 0 => {
                        for ch in data.chunks(n) {
                            enc.write_all(ch).unwrap();
                            enc.flush().unwrap();
                        }
                    }
                    _ => enc.write_all(&data).unwrap(),
                }
                enc.finish().unwrap();
            }
            "xz" => {
                let mut f = std::fs::File::create(&args[4]).unwrap();
                lzma_rs::xz_compress(&mut std::io::Cursor::new(&data), &mut f).unwrap();
            }
            _ => { eprintln!("unknown pack kind"); std::process::exit(2); }
        }
        return;
    }
    let mut opts = util::Opts { seed: 1, n: 1000, thorough: false, extra: vec![] };
    let mut i = 2;
    let mut replay = false;
    while i < args.len() {
        match args[i].as_str() {
            "--seed" => { opts.seed = args[i + 1].parse().unwrap(); i += 2; }
            "--n" => { opts.n = args[i + 1].parse().unwrap(); i += 2; }
            "--replay" => { replay = true; i += 2; }
            "--tier" => { opts.thorough = args[i + 1] == "thorough"; i += 2; }
            _ => { opts.extra.push(args[i].clone()); i += 1; }
        }
    }
    let stdout = std::io::stdout();
    let mut out = std::io::BufWriter::new(stdout.lock());
    match comp.as_str() {
        #[cfg(feature = "c_path")]
        "path" => if replay { replay_loop(&mut out, c_path::replay_line) } else { c_path::run(&opts, &mut out) },
        #[cfg(feature = "c_line")]
        "line" => if replay { replay_loop(&mut out, c_line::replay_line) } else { c_line::run(&opts, &mut out) },
        #[cfg(feature = "c_sysl")]
        "sysl" => if replay { replay_loop(&mut out, c_sysl::replay_line) } else { c_sysl::run(&opts, &mut out) },
        #[cfg(feature = "c_gate")]
        "gate" => if replay { replay_loop(&mut out, c_gate::replay_line) } else { c_gate::run(&opts, &mut out) },
        #[cfg(feature = "c_proc")]
        "proc" => if replay { replay_loop(&mut out, c_proc::replay_line) } else { c_proc::run(&opts, &mut out) },
        #[cfg(feature = "c_walk")]
        "walk" => if replay { replay_loop(&mut out, c_walk::replay_line) } else { c_walk::run(&opts, &mut out) },
        #[cfg(feature = "c_prt")]
        "prt" => if replay { replay_loop(&mut out, c_prt::replay_line) } else { c_prt::run(&opts, &mut out) },
        #[cfg(feature = "c_strm")]
        "strm" => if replay { replay_loop(&mut out, c_strm::replay_line) } else { c_strm::run(&opts, &mut out) },
        #[cfg(feature = "c_walktar")]
        "walktar" => if replay { replay_loop(&mut out, c_walktar::replay_line) } else { c_walktar::run(&opts, &mut out) },
        #[cfg(feature = "c_boxp")]
        "boxp" => if replay { replay_loop(&mut out, c_boxp::replay_line) } else { c_boxp::run(&opts, &mut out) },
        #[cfg(feature = "c_asm")]
        "asm" => if replay { replay_loop(&mut out, c_asm::replay_line) } else { c_asm::run(&opts, &mut out) },
        #[cfg(feature = "c_time")]
        "time" => if replay { replay_loop(&mut out, c_time::replay_line) } else { c_time::run(&opts, &mut out) },
        #[cfg(feature = "c_time")]
        "e2e" => if replay { replay_loop(&mut out, c_e2e::replay_line) } else { c_e2e::run(&opts, &mut out) },
        #[cfg(feature = "c_fixed")]
        "fixed" => if replay { replay_loop(&mut out, c_fixed::replay_line) } else { c_fixed::run(&opts, &mut out) },
        #[cfg(feature = "c_year")]
        "year" => if replay { replay_loop(&mut out, c_year::replay_line) } else { c_year::run(&opts, &mut out) },
        #[cfg(feature = "c_wskel")]
        "wskel" => if replay { replay_loop(&mut out, c_wskel::replay_line) } else { c_wskel::run(&opts, &mut out) },
        #[cfg(feature = "c_gskel")]
        "gskel" => if replay { replay_loop(&mut out, c_gskel::replay_line) } else { c_gskel::run(&opts, &mut out) },
        #[cfg(feature = "c_evtxr")]
        "evtxr" => if replay { replay_loop(&mut out, c_evtxr::replay_line) } else { c_evtxr::run(&opts, &mut out) },
        #[cfg(feature = "c_lskel")]
        "lskel" => if replay { replay_loop(&mut out, c_lskel::replay_line) } else { c_lskel::run(&opts, &mut out) },
        #[cfg(feature = "c_capx")]
        "capx" => if replay { replay_loop(&mut out, c_capx::replay_line) } else { c_capx::run(&opts, &mut out) },
        #[cfg(feature = "c_summ")]
        "summ" => if replay { replay_loop(&mut out, c_summ::replay_line) } else { c_summ::run(&opts, &mut out) },
        #[cfg(feature = "c_fixedwalk")]
        "fwalk" => if replay { replay_loop(&mut out, c_fixedwalk::replay_line) } else { c_fixedwalk::run(&opts, &mut out) },
        #[cfg(feature = "c_tarmember")]
        "tarm" => if replay { replay_loop(&mut out, c_tarmember::replay_line) } else { c_tarmember::run(&opts, &mut out) },
        #[cfg(feature = "c_jrender")]
        "jrender" => if replay { replay_loop(&mut out, c_jrender::replay_line) } else { c_jrender::run(&opts, &mut out) },
        #[cfg(feature = "c_srch")]
        "srch" => if replay { replay_loop(&mut out, c_srch::replay_line) } else { c_srch::run(&opts, &mut out) },
        #[cfg(feature = "c_layout")]
        "layout" => if replay { replay_loop(&mut out, c_layout::replay_line) } else { c_layout::run(&opts, &mut out) },
        #[cfg(feature = "c_fixedfile")]
        "fixedfile" => if replay { replay_loop(&mut out, c_fixedfile::replay_line) } else { c_fixedfile::run(&opts, &mut out) },
        #[cfg(feature = "c_patsel")]
        "patsel" => if replay { replay_loop(&mut out, c_patsel::replay_line) } else { c_patsel::run(&opts, &mut out) },
        #[cfg(feature = "c_frender")]
        "frender" => if replay { replay_loop(&mut out, c_frender::replay_line) } else { c_frender::run(&opts, &mut out) },
        #[cfg(feature = "c_syslc")]
        "syslc" => if replay { replay_loop(&mut out, c_syslc::replay_line) } else { c_syslc::run(&opts, &mut out) },
        #[cfg(feature = "c_rgx")]
        "rgx" => if replay { replay_loop(&mut out, c_rgx::replay_line) } else { c_rgx::run(&opts, &mut out) },
        #[cfg(feature = "c_rgx")]
        "rgxr" => if replay { replay_loop(&mut out, c_rgxr::replay_line) } else { c_rgxr::run(&opts, &mut out) },
        #[cfg(feature = "c_path")]
        "path-oracle" => c_path::oracle(&opts, &mut out),
        _ => {
            eprintln!("unknown component {}", comp);
            std::process::exit(2);
        }
    }
    out.flush().unwrap();
}
