//! component `capx` (C04, slice CapXlate): the third party of the `time norm` correspondence.
//!   capx norm <row> <hex line> <fill year|n> <off s> <group>=<hex> ...  -> ns | none | panic
//! Same request fields and the same real call as `time norm` (c_time.rs: the public
//! `bytes_to_regex_to_datetime`, which runs `captures_to_buffer_bytes` on the row's captures, on the
//! line sliced to the row's range_regex). The model side of `capx` (lean/S4V/Drv/Captures.lean,
//! `drv_cap`) answers from the interpreter over the REGENERATED `captures_to_buffer_bytes`
//! (S4V.Gen.Captures) and reports `SPLIT …` when the hand model's buffer differs from the
//! interpreter's, so one pass compares real code = hand model = interpreter.
//! The generator is c_time's (every renderable DTPD! row: date/time boundary values, 1–9 fraction
//! digits, zone spellings incl. U+2212 and every zone name, padded / unpadded days, month spellings).
use crate::util::*;
use std::io::Write;

pub fn replay_line(req: &str) -> String {
    match req.strip_prefix("capx ") {
        Some(rest) if rest.starts_with("norm ") => crate::c_time::replay_line(&format!("time {}", rest)),
        _ => "bad-op".to_string(),
    }
}

pub fn run(o: &Opts, out: &mut dyn Write) {
    let mut buf: Vec<u8> = vec![];
    // two seeds of c_time's generator (its per-row count grows with n)
    for k in 0..2u64 {
        let o2 = Opts { seed: o.seed.wrapping_add(k * 0x9e37), n: o.n, thorough: o.thorough, extra: vec![] };
        crate::c_time::run(&o2, &mut buf);
    }
    let text = String::from_utf8_lossy(&buf).to_string();
    let mut n = 0usize;
    let mut seen = std::collections::HashSet::new();
    for l in text.lines() {
        if let Some(rest) = l.strip_prefix("time norm ") {
            if !seen.insert(rest.to_string()) { continue; }
            writeln!(out, "capx norm {}", rest).unwrap();
            n += 1;
        }
    }
    writeln!(out, "# capx {{\"norm_requests\": {}}}", n).unwrap();
}
