//! component `tarm`: WHICH member of a real `.tar` a listed entry `archive|member` reads back.
//!   `tarm <bs> <archive> <members> <probes>`
//! writes `<tmp>/<archive>` (a tar file written here header by header), runs the real
//! `process_path(<tmp>/<archive>, true)` and then, for EVERY returned entry and for every probe name,
//! the two real readers on the string `<tmp>/<archive>|<name>`:
//!   * `BlockReader::new(.., Text/Tar, bs)` + `read_block(0..)` until `Done`  (sites `BlockReader::new`, `read_block_FileTar`)
//!   * `decompress_to_ntf(.., Journal/Tar)` + the bytes of the temporary file   (site `decompress_to_ntf`)
//! reply `<listing>#<probes>`:
//!   listing `-` or `;`-joined `<k><hex listed name>=<br>/<ntf>`; `<k>` `m` a member (FileValid / FileErrNotSupported),
//!           `e` FileErrEmpty, `x` any other result (then `<hex of the whole path>` and no readers)
//!   probes  `-` or `;`-joined `<br>/<ntf>`
//!   `<br>`  `ok:<hex>` all blocks concatenated | `empty` (`Done` at block 0) | `err:<kind>` (`read_block` failed) | `new:<kind>` (`new` failed)
//!   `<ntf>` `ok:<hex>` | `none` (`Ok(None)`) | `err:<kind>`
//!   `<bs>`       block size handed to `BlockReader::new`
//!   `<archive>`  hex of the archive's path below the temporary directory (may contain `|` and `/`)
//!   `<members>`  `-` or `,`-joined `<hex stored path>:<type>:<fmt>:<hex data>`; `<type>` `r` typeflag `0`, `R` typeflag NUL
//!                (both regular), else the typeflag itself; `<fmt>` `u` ustar, `p` ustar with the directory part in the
//!                prefix field, `g` GNU, `o` v7, `x` ustar preceded by a pax `x` record carrying `path=`. Stored paths longer
//!                than 100 bytes get a GNU `L` long-name record (a pax record for `x`) and the first 100 bytes in the header.
//!   `<probes>`   `-` or `,`-joined hex names
use crate::util::*;
use s4lib::common::{FileType, FileTypeArchive, FileTypeTextEncoding, ResultS3};
use s4lib::readers::blockreader::BlockReader;
use s4lib::readers::filedecompressor::decompress_to_ntf;
use s4lib::readers::filepreprocessor::{process_path, ProcessPathResult};
use std::ffi::OsStr;
use std::io::Write;
use std::os::unix::ffi::OsStrExt;

#[derive(Clone, Debug)]
pub struct Member {
    name: Vec<u8>,
    ty: char,
    fmt: char,
    data: Vec<u8>,
}

#[derive(Clone, Debug)]
pub struct Case {
    bs: u64,
    archive: Vec<u8>,
    members: Vec<Member>,
    probes: Vec<Vec<u8>>,
}

fn hexlist(v: &[Vec<u8>]) -> String {
    if v.is_empty() { "-".to_string() } else { v.iter().map(|x| hex(x)).collect::<Vec<_>>().join(",") }
}

pub fn encode(c: &Case) -> String {
    let mems = if c.members.is_empty() {
        "-".to_string()
    } else {
        c.members.iter().map(|m| format!("{}:{}:{}:{}", hex(&m.name), m.ty, m.fmt, hex(&m.data))).collect::<Vec<_>>().join(",")
    };
    format!("tarm {} {} {} {}", c.bs, hex(&c.archive), mems, hexlist(&c.probes))
}

pub fn decode(w: &[&str]) -> Option<Case> {
    if w.len() != 4 { return None; }
    let bs: u64 = w[0].parse().ok()?;
    if bs == 0 { return None; }
    let mut members = vec![];
    if w[2] != "-" {
        for tok in w[2].split(',') {
            let f: Vec<&str> = tok.split(':').collect();
            if f.len() != 4 { return None; }
            members.push(Member { name: unhex(f[0]), ty: f[1].chars().next()?, fmt: f[2].chars().next()?, data: unhex(f[3]) });
        }
    }
    let probes = if w[3] == "-" { vec![] } else { w[3].split(',').map(unhex).collect() };
    Some(Case { bs, archive: unhex(w[1]), members, probes })
}

// ------------------------------------------------------------------ tar bytes

fn pad512(v: &mut Vec<u8>) {
    while v.len() % 512 != 0 { v.push(0); }
}

fn raw_header(name: &[u8], prefix: &[u8], typeflag: u8, size: u64, fmt: char, link: bool) -> Vec<u8> {
    let mut h = match fmt {
        'u' | 'p' | 'x' => tar::Header::new_ustar(),
        'g' => tar::Header::new_gnu(),
        _ => tar::Header::new_old(),
    };
    {
        let old = h.as_old_mut();
        old.name = [0u8; 100];
        let n = name.len().min(100);
        old.name[..n].copy_from_slice(&name[..n]);
        old.linkflag = [typeflag];
        if link {
            old.linkname = [0u8; 100];
            old.linkname[..6].copy_from_slice(b"target");
        }
    }
    if !prefix.is_empty() {
        if let Some(us) = h.as_ustar_mut() {
            let n = prefix.len().min(155);
            us.prefix[..n].copy_from_slice(&prefix[..n]);
        }
    }
    h.set_mode(0o644);
    h.set_uid(0);
    h.set_gid(0);
    h.set_mtime(1_700_000_000);
    h.set_size(size);
    h.set_cksum();
    h.as_bytes().to_vec()
}

/// one pax record `<len> path=<name>\n` where `<len>` counts the whole record
fn pax_path_record(name: &[u8]) -> Vec<u8> {
    let body_len = " path=".len() + name.len() + 1;
    let mut len = body_len + 1;
    loop {
        let total = body_len + len.to_string().len();
        if total == len { break; }
        len = total;
    }
    let mut r = len.to_string().into_bytes();
    r.extend(b" path=");
    r.extend(name);
    r.push(b'\n');
    r
}

pub fn tar_bytes(c: &Case) -> Vec<u8> {
    let mut out: Vec<u8> = vec![];
    for m in c.members.iter() {
        let typeflag: u8 = match m.ty { 'r' => b'0', 'R' => 0, t => t as u8 };
        let (prefix, name): (&[u8], &[u8]) = if m.fmt == 'p' && m.name.len() <= 100 {
            match m.name.iter().rposition(|&b| b == b'/') {
                Some(p) if p > 0 && p + 1 < m.name.len() => (&m.name[..p], &m.name[p + 1..]),
                _ => (&[], &m.name[..]),
            }
        } else {
            (&[], &m.name[..])
        };
        if m.fmt == 'x' {
            let rec = pax_path_record(&m.name);
            out.extend(raw_header(b"PaxHeaders/x", &[], b'x', rec.len() as u64, 'u', false));
            out.extend(&rec);
            pad512(&mut out);
        } else if m.name.len() > 100 {
            out.extend(raw_header(b"././@LongLink", &[], b'L', (m.name.len() + 1) as u64, 'g', false));
            out.extend(&m.name);
            out.push(0);
            pad512(&mut out);
        }
        out.extend(raw_header(name, prefix, typeflag, m.data.len() as u64, m.fmt, m.ty == '1' || m.ty == '2'));
        out.extend(&m.data);
        pad512(&mut out);
    }
    out.extend(std::iter::repeat(0u8).take(1024));
    out
}

// ------------------------------------------------------------------ the real readers

fn kind(e: &std::io::Error) -> String {
    format!("{:?}", e.kind())
}

fn read_br(full: String, bs: u64) -> String {
    let r = guarded(move || {
        let ft = FileType::Text { archival_type: FileTypeArchive::Tar, encoding_type: FileTypeTextEncoding::Utf8Ascii };
        let mut br = match BlockReader::new(full, ft, bs) {
            Ok(v) => v,
            Err(e) => return format!("new:{}", kind(&e)),
        };
        let mut data: Vec<u8> = vec![];
        let mut k: u64 = 0;
        loop {
            match br.read_block(k) {
                ResultS3::Found(bp) => data.extend(bp.iter()),
                ResultS3::Done => break,
                ResultS3::Err(e) => return format!("err:{}", kind(&e)),
            }
            k += 1;
            if k > 100_000 { return "runaway".to_string(); }
        }
        if k == 0 { "empty".to_string() } else { format!("ok:{}", hex(&data)) }
    });
    match r { Ok(s) => s, Err(m) => format!("panic {}", m) }
}

fn read_ntf(full: String) -> String {
    let r = guarded(move || {
        let ft = FileType::Journal { archival_type: FileTypeArchive::Tar };
        match decompress_to_ntf(std::path::Path::new(&full), &ft) {
            Ok(None) => "none".to_string(),
            Ok(Some((ntf, _mtime, _sz))) => match std::fs::read(ntf.path()) {
                Ok(b) => format!("ok:{}", hex(&b)),
                Err(e) => format!("err-read:{}", kind(&e)),
            },
            Err(e) => format!("err:{}", kind(&e)),
        }
    });
    match r { Ok(s) => s, Err(m) => format!("panic {}", m) }
}

pub fn case_impl(c: &Case) -> String {
    let tmp = match tempfile::Builder::new().prefix("s4h-tarm-").tempdir() {
        Ok(t) => t,
        Err(e) => return format!("io {}", e.kind()),
    };
    let tpath = tmp.path().join(OsStr::from_bytes(&c.archive));
    let r: std::io::Result<()> = (|| {
        if let Some(d) = tpath.parent() { std::fs::create_dir_all(d)?; }
        std::fs::write(&tpath, tar_bytes(c))
    })();
    if let Err(e) = r { return format!("io {:?}", e.kind()); }
    let tp: String = match tpath.to_str() { Some(s) => s.to_string(), None => return "not-utf8".to_string() };
    let arg = tp.clone();
    let results = match guarded(move || process_path(&arg, true)) {
        Ok(r) => r,
        Err(m) => return format!("panic {}", m),
    };
    let member_prefix = format!("{}|", tp);
    let mut parts: Vec<String> = vec![];
    for r in results.iter() {
        let (k, p): (char, &String) = match r {
            ProcessPathResult::FileValid(p, _) => ('m', p),
            ProcessPathResult::FileErrNotSupported(p, _) => ('m', p),
            ProcessPathResult::FileErrEmpty(p, _) => ('e', p),
            ProcessPathResult::FileErrTooSmall(p, _, _) => ('x', p),
            ProcessPathResult::FileErrNoPermissions(p) => ('x', p),
            ProcessPathResult::FileErrNotAFile(p) => ('x', p),
            ProcessPathResult::FileErrNotExist(p) => ('x', p),
            ProcessPathResult::FileErrLoadingLibrary(p, _, _) => ('x', p),
            ProcessPathResult::FileErr(p, _) => ('x', p),
        };
        match (k, p.strip_prefix(member_prefix.as_str())) {
            ('x', _) | (_, None) => parts.push(format!("x{}", hex(p.strip_prefix(tmp.path().to_str().unwrap()).unwrap_or(p).as_bytes()))),
            (_, Some(name)) => parts.push(format!("{}{}={}/{}", k, hex(name.as_bytes()), read_br(p.clone(), c.bs), read_ntf(p.clone()))),
        }
    }
    let mut probes: Vec<String> = vec![];
    for q in c.probes.iter() {
        let full = match std::str::from_utf8(q) {
            Ok(s) => format!("{}|{}", tp, s),
            Err(_) => { probes.push("not-utf8".to_string()); continue; }
        };
        probes.push(format!("{}/{}", read_br(full.clone(), c.bs), read_ntf(full)));
    }
    let j = |v: Vec<String>| if v.is_empty() { "-".to_string() } else { v.join(";") };
    format!("{}#{}", j(parts), j(probes))
}

// ------------------------------------------------------------------ generator

const LONG_A: &[u8] = b"very/long/path/that/needs/a/long/name/record/because/it/has/more/than/one/hundred/bytes/in/it/really/it/does/app.log";
const LONG_B: &[u8] = b"very/long/path/that/needs/a/long/name/record/because/it/has/more/than/one/hundred/bytes/in/it/really/it/does/other.log";
const LONG_C: &[u8] = b"another/quite/long/path/that/needs/a/long/name/record/because/it/has/more/than/one/hundred/bytes/in/it/x.journal";

const NAMES: &[&[u8]] = &[
    b"app.log", b"app.log", b"old/app.log", b"./app.log", b"app.log/", b"b.log", b"sub/b.log", b"sub/deep/b.log", b"./sub/b.log",
    b"a|b.log", b"x|app.log", b"|", b"app.log|", b"\xFF.log", b"\xFE.log", b"x\xC3", "日本.log".as_bytes(), "é.log".as_bytes(),
    b"log", b"p.log", b"app", b"sub//b.log", b"sub/./b.log", b"../b.log", b"/abs/b.log", b"wtmp", b"user.journal", b"sys.evtx",
    LONG_A, LONG_B, LONG_C,
];

const PROBES: &[&[u8]] = &[
    b"app.log", b"log", b"p.log", b"old/app.log", b"./app.log", b"app.log/", b"b.log", b"sub/b.log", b"nothere.log", b"app",
    "\u{FFFD}.log".as_bytes(), b"a|b.log", b"a", b"sub", b"sub/", LONG_A, b"does/app.log",
];

const ARCHIVES: &[&[u8]] = &[b"a.tar", b"a.tar", b"a.tar", b"logs.tar", b"d/x.tar", b"d|x/a.tar", b"p|q.tar", b"X.TAR"];

const DATA: &[&[u8]] = &[
    b"", b"A\n", b"2020-01-01 00:00:00 first\n", b"2020-01-01 00:00:01 second\n", b"2020-01-01 00:00:02 third copy\n",
    b"x", b"0123456789abcdef", b"0123456789abcdefg", b"\x00\x01\x02\xff", b"line one\nline two\nline three\n",
];

fn gen_member(rng: &mut Rng, seen: &[Member]) -> Member {
    // half of the later members repeat an earlier name
    let name: Vec<u8> = if !seen.is_empty() && rng.chance(2, 5) { seen[rng.below(seen.len())].name.clone() } else { rng.pick(NAMES).to_vec() };
    let fmt = rng.pick(&['u', 'u', 'p', 'g', 'o', 'x']);
    let k = rng.below(100);
    let ty = if k < 70 { 'r' } else if k < 76 { 'R' } else { rng.pick(&['1', '2', '5', '6', '7', '3']) };
    let data: Vec<u8> = if matches!(ty, '1' | '2' | '5' | '6' | '3') && !rng.chance(1, 4) { vec![] } else {
        let mut d = rng.pick(DATA).to_vec();
        if !d.is_empty() && rng.chance(1, 3) { d.extend(format!("#{}", rng.below(1000)).as_bytes()); }
        d
    };
    Member { name, ty, fmt, data }
}

fn gen_case(rng: &mut Rng) -> Case {
    let bs = rng.pick(&[1u64, 2, 4, 7, 16, 64, 512, 0xFFFF]);
    let archive = rng.pick(ARCHIVES).to_vec();
    let mut members: Vec<Member> = vec![];
    for _ in 0..rng.below(7) { let m = gen_member(rng, &members); members.push(m); }
    let mut probes: Vec<Vec<u8>> = vec![];
    for _ in 0..rng.below(4) {
        let q = if !members.is_empty() && rng.chance(1, 2) {
            // a proper suffix / prefix of a stored name
            let n = &members[rng.below(members.len())].name;
            let a = rng.below(n.len() + 1);
            let s = if rng.chance(1, 2) { n[a..].to_vec() } else { n[..a].to_vec() };
            if std::str::from_utf8(&s).is_ok() { s } else { rng.pick(PROBES).to_vec() }
        } else { rng.pick(PROBES).to_vec() };
        probes.push(if q.is_empty() { b"app.log".to_vec() } else { q });
    }
    Case { bs, archive, members, probes }
}

fn fixed_cases() -> Vec<Case> {
    let m = |n: &[u8], ty: char, fmt: char, d: &[u8]| Member { name: n.to_vec(), ty, fmt, data: d.to_vec() };
    let c = |bs: u64, a: &[u8], members: Vec<Member>, probes: &[&[u8]]| Case { bs, archive: a.to_vec(), members, probes: probes.iter().map(|p| p.to_vec()).collect() };
    let one = b"2020-01-01 00:00:00 first copy\n";
    let two = b"2020-01-01 00:00:01 second copy\n";
    vec![
        // F33: two members of the same name
        c(16, b"dup.tar", vec![m(b"app.log", 'r', 'u', one), m(b"app.log", 'r', 'u', two)], &[b"app.log"]),
        // a non-regular entry of the same name in front of the regular one (symlink, then `tar -r` of the file)
        c(16, b"a.tar", vec![m(b"app.log", '2', 'u', b""), m(b"app.log", 'r', 'u', two)], &[]),
        c(16, b"a.tar", vec![m(b"app.log", '7', 'u', one), m(b"app.log", 'r', 'u', two)], &[]),
        // distinct stored names, same lossy name
        c(16, b"a.tar", vec![m(b"\xFF.log", 'r', 'u', one), m(b"\xFE.log", 'r', 'u', two)], &[]),
        // the `ends_with` witness: all names distinct
        c(16, b"a.tar", vec![m(b"old/app.log", 'r', 'u', one), m(b"app.log", 'r', 'u', two)], &[b"log", b"p.log"]),
        // long names sharing the first 100 bytes (GNU and pax)
        c(64, b"a.tar", vec![m(LONG_A, 'r', 'g', one), m(LONG_B, 'r', 'g', two)], &[&LONG_A[..100]]),
        c(64, b"a.tar", vec![m(LONG_A, 'r', 'x', one), m(LONG_B, 'r', 'x', two), m(b"short.log", 'r', 'x', b"pax short\n")], &[]),
        // member names containing the separator; archive paths containing it
        c(16, b"a.tar", vec![m(b"a|b.log", 'r', 'u', one), m(b"b.log", 'r', 'u', two)], &[b"a|b.log", b"b.log"]),
        c(16, b"d|x/a.tar", vec![m(b"app.log", 'r', 'u', one)], &[b"app.log"]),
        c(16, b"d|x/a.tar", vec![m(b"a|b.log", 'r', 'u', one)], &[]),
        // `./` and prefix-field names are not normalised
        c(16, b"a.tar", vec![m(b"./app.log", 'r', 'u', one), m(b"app.log", 'r', 'u', two), m(b"sub/b.log", 'r', 'p', b"prefix\n")], &[b"app.log", b"./app.log", b"sub/b.log", b"b.log"]),
        // nothing matches: empty archive, non-empty archive
        c(16, b"a.tar", vec![], &[b"app.log"]),
        c(16, b"a.tar", vec![m(b"b.log", 'r', 'u', one)], &[b"app.log", b"b.lo"]),
        // zero-size member
        c(16, b"a.tar", vec![m(b"z.log", 'r', 'u', b""), m(b"b.log", 'r', 'u', one)], &[b"z.log"]),
    ]
}

pub fn run(o: &Opts, out: &mut dyn Write) {
    quiet_panics();
    let mut rng = Rng::new(o.seed ^ 0x7a4d);
    let mut dist = std::collections::BTreeMap::<String, usize>::new();
    let mut cases: Vec<Case> = fixed_cases();
    for _ in 0..o.n { cases.push(gen_case(&mut rng)); }
    let (mut listed, mut wrong_member, mut sites_differ) = (0usize, 0usize, 0usize);
    for c in cases.iter() {
        let reply = case_impl(c);
        // statistics: per listed entry, does it read the k-th regular member's data?
        let regs: Vec<&Member> = c.members.iter().filter(|m| m.ty == 'r' || m.ty == 'R').collect();
        let l = reply.split('#').next().unwrap_or("");
        for (k, part) in l.split(';').filter(|p| *p != "-").enumerate() {
            listed += 1;
            let rd = part.split_once('=').map(|x| x.1).unwrap_or("x");
            let (b, n) = rd.split_once('/').unwrap_or((rd, ""));
            let class = |s: &str| s.split(':').next().unwrap_or("").to_string();
            *dist.entry(format!("br={} ntf={}", if b.starts_with("new:") || b.starts_with("err:") { b.to_string() } else { class(b) },
                                if n.starts_with("err:") { n.to_string() } else { class(n) })).or_insert(0) += 1;
            if let Some(m) = regs.get(k) {
                let want = if m.data.is_empty() { "empty".to_string() } else { format!("ok:{}", hex(&m.data)) };
                if b != want { wrong_member += 1; }
                let bn = if b == "empty" { "ok:-".to_string() } else { b.replace("new:", "err:") };
                if bn != n { sites_differ += 1; }
            }
        }
        writeln!(out, "{}\t{}", encode(c), reply).unwrap();
    }
    let d: Vec<String> = dist.iter().map(|(k, v)| format!("\"{}\": {}", k, v)).collect();
    writeln!(out, "# outcomes {{{}}}", d.join(", ")).unwrap();
    writeln!(out, "# listed {} not_own_data {} sites_differ {}", listed, wrong_member, sites_differ).unwrap();
}

pub fn replay_line(req: &str) -> String {
    let w: Vec<&str> = req.split_whitespace().collect();
    if w.len() == 5 && w[0] == "tarm" {
        match decode(&w[1..]) {
            Some(c) => case_impl(&c),
            None => "bad-op".to_string(),
        }
    } else {
        "bad-op".to_string()
    }
}
