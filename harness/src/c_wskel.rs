//! component `wskel`: the `walk` and `walktar` cases (real `process_path` on real directory trees and real tar
//! files, see c_walk.rs / c_walktar.rs) under the request word `wskel`, so that `drvmux` routes them to
//! `drv_wskel` = the INTERPRETER of the regenerated `process_path` skeleton (S4V.Gen.WalkSkel).
//! requests: wskel tree <spec> | wskel named <hex> <hex|-> | wskel tar <u> <dirs> <tar> <siblings> <end> <members>
use crate::util::*;
use std::io::Write;

pub fn replay_line(req: &str) -> String {
    match req.strip_prefix("wskel ") {
        Some(rest) => crate::c_walk::replay_line(&format!("walk {}", rest)),
        None => "bad-op".to_string(),
    }
}

pub fn run(o: &Opts, out: &mut dyn Write) {
    for part in 0..2 {
        let mut buf: Vec<u8> = Vec::new();
        if part == 0 { crate::c_walk::run(o, &mut buf) } else { crate::c_walktar::run(o, &mut buf) }
        for line in String::from_utf8_lossy(&buf).lines() {
            match line.strip_prefix("walk ") {
                Some(rest) => writeln!(out, "wskel {}", rest).unwrap(),
                None => writeln!(out, "{}", line).unwrap(),
            }
        }
    }
}
