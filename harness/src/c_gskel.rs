//! component `gskel`: the `gate` cases (real SyslogProcessor stages 0-1, see c_gate.rs) under the request
//! word `gskel`, so that `drvmux` routes them to `drv_gskel` = the INTERPRETER of the regenerated gate
//! skeleton (S4V.Gen.Gate). request: gskel <bs> <hex d>  -> FileOk | FileErrNoSyslinesFound | ...
use crate::util::*;
use std::io::Write;

pub fn replay_line(req: &str) -> String {
    match req.strip_prefix("gskel ") {
        Some(rest) => crate::c_gate::replay_line(&format!("gate {}", rest)),
        None => "bad-op".to_string(),
    }
}

pub fn run(o: &Opts, out: &mut dyn Write) {
    let mut buf: Vec<u8> = Vec::new();
    crate::c_gate::run(o, &mut buf);
    for line in String::from_utf8_lossy(&buf).lines() {
        match line.strip_prefix("gate ") {
            Some(rest) => writeln!(out, "gskel {}", rest).unwrap(),
            None => writeln!(out, "{}", line).unwrap(),
        }
    }
}
