//! component `jrender`: the REAL `JournalReader` (all ten `--journal-output` renderings, several `--tz-offset`s) on
//! the shipped journals — as they are, inside every shipped container, and with data objects patched in place so that
//! every present/missing combination of `_HOSTNAME` / `SYSLOG_IDENTIFIER` / `_COMM` / `_PID` / `SYSLOG_PID` / `MESSAGE`
//! and non-UTF-8 / multi-line / `=`-carrying values occur — against `S4V.Model.JournalRender.render` (driver op
//! `jrender`, executable `drv_jrender`).
//!
//! What the model is fed is obtained independently of the rendering under test: cursor, realtime, monotonic time and
//! the field VALUES come from `journalctl --file … -o export` (binary-safe parse); only the field ORDER (libsystemd's
//! enumeration order, which journalctl does not preserve) is taken from the real export rendering, by splitting its
//! text into exactly the items journalctl reported (every byte accounted for, otherwise the entry is counted as
//! `unparsed` and compared with an empty item list, which shows up as a disagreement).
//!
//! request   jrender e <mode> <offset s> <cursor hex|none> <realtime µs> <monotonic µs|none> <items: hex,hex,… | ->
//! reply     found <hex text> | skip (`ErrIgnore`) | stop (`Err`)
//! request   jrender fmt <pattern hex> <µs> <offset s>      reply <hex>   chrono `format` of `realtime_timestamp_to_datetimel`
//! request   jrender mono <µs>                              reply <hex>   `format!("{:>12.6}", µs as f64 / 1000000.0)` (copy of the expression in `next_short`)
use crate::util::*;
use chrono::FixedOffset;
use s4lib::common::{FileType, FileTypeArchive, ResultFind4};
use s4lib::data::journal::realtime_timestamp_to_datetimel;
use s4lib::libload::systemd_dlopen2::{load_library_systemd, LoadLibraryError};
use s4lib::readers::journalreader::{JournalOutput, JournalReader};
use std::collections::{BTreeMap, HashMap};
use std::io::{Read, Write};
use std::path::{Path, PathBuf};

/// copies of the `DATETIME_FORMAT_*` constants (private in the crate): used only to GENERATE `fmt` requests; the
/// request carries the pattern, and the real constants are exercised through the journal runs
const PATTERNS: [&str; 7] = ["%b %d %H:%M:%S", "%b %d %H:%M:%S.%6f", "%Y-%m-%d %H:%M:%S", "%Y-%m-%dT%H:%M:%S.%6f%z",
    "%a %Y-%m-%d %H:%M:%S %Z", "%s.%6f", "%a %Y-%m-%d %H:%M:%S.%6f %Z"];

const KEYS: [&[u8]; 6] = [b"_HOSTNAME=", b"SYSLOG_IDENTIFIER=", b"_COMM=", b"_PID=", b"SYSLOG_PID=", b"MESSAGE="];

fn repo_dir(o: &Opts) -> PathBuf {
    let mut i = 0;
    while i + 1 < o.extra.len() {
        if o.extra[i] == "--repo" { return PathBuf::from(&o.extra[i + 1]); }
        i += 1;
    }
    if let Ok(r) = std::env::var("S4_REPO") { return PathBuf::from(r); }
    // the path dependency of this crate
    let toml = std::fs::read_to_string(concat!(env!("CARGO_MANIFEST_DIR"), "/Cargo.toml")).unwrap_or_default();
    for l in toml.lines() {
        if l.starts_with("s4lib") {
            if let Some(p) = l.split("path = \"").nth(1) { return PathBuf::from(p.split('"').next().unwrap()); }
        }
    }
    PathBuf::from("/repo")
}

fn fmt_reply(pat: &[u8], us: u64, off: i32) -> String {
    let pat = match std::str::from_utf8(pat) { Ok(p) => p.to_string(), Err(_) => return "bad-op".into() };
    let fo = match FixedOffset::east_opt(off) { Some(f) => f, None => return "bad-op".into() };
    match guarded(move || realtime_timestamp_to_datetimel(&fo, &us).format(&pat).to_string()) {
        Ok(s) => hex(s.as_bytes()),
        Err(m) => format!("panic:{}", m.replace(' ', "_")),
    }
}

fn mono_reply(mu: u64) -> String {
    let mud = mu as f64 / 1000000.0;
    hex(format!("{:>12.6}", mud).as_bytes())
}

pub fn replay_line(req: &str) -> String {
    let w: Vec<&str> = req.split_whitespace().collect();
    if w.len() < 2 || w[0] != "jrender" { return "bad-op".into(); }
    match (w[1], w.len()) {
        ("fmt", 5) => match (w[3].parse::<u64>(), w[4].parse::<i32>()) {
            (Ok(us), Ok(off)) => fmt_reply(&unhex(w[2]), us, off),
            _ => "bad-op".into(),
        },
        ("mono", 3) => match w[2].parse::<u64>() { Ok(mu) => mono_reply(mu), _ => "bad-op".into() },
        // an `e` request needs the journal it was read from
        ("e", _) => "no-replay".into(),
        _ => "bad-op".into(),
    }
}

// ------------------------------------------------------------------ independent reader: journalctl -o export

struct RefEntry {
    cursor: Vec<u8>,
    realtime: u64,
    monotonic: Option<u64>,
    /// every stored `KEY=VALUE` item (multiset)
    items: Vec<Vec<u8>>,
}

fn journalctl_export(path: &Path) -> Vec<RefEntry> {
    let out = std::process::Command::new("journalctl").arg("--file").arg(path).args(["-o", "export", "--no-pager", "--all"]).output();
    let out = match out { Ok(o) => o.stdout, Err(_) => return vec![] };
    let mut ents = vec![];
    let mut cur: Vec<(Vec<u8>, Vec<u8>)> = vec![];
    let mut p = 0;
    while p < out.len() {
        let nl = match out[p..].iter().position(|&b| b == b'\n') { Some(i) => p + i, None => break };
        let line = &out[p..nl];
        if line.is_empty() {
            if !cur.is_empty() { ents.push(std::mem::take(&mut cur)); }
            p = nl + 1;
            continue;
        }
        match line.iter().position(|&b| b == b'=') {
            Some(eq) => { cur.push((line[..eq].to_vec(), line[eq + 1..].to_vec())); p = nl + 1; }
            None => {
                // binary form: KEY \n le64 length, data, \n
                if nl + 9 > out.len() { break; }
                let len = u64::from_le_bytes(out[nl + 1..nl + 9].try_into().unwrap()) as usize;
                if nl + 9 + len > out.len() { break; }
                cur.push((line.to_vec(), out[nl + 9..nl + 9 + len].to_vec()));
                p = nl + 9 + len + 1;
            }
        }
    }
    if !cur.is_empty() { ents.push(cur); }
    ents.into_iter().map(|kv| {
        let get = |k: &[u8]| kv.iter().find(|(a, _)| a.as_slice() == k).map(|(_, v)| v.clone());
        let num = |k: &[u8]| get(k).and_then(|v| String::from_utf8(v).ok()).and_then(|s| s.parse::<u64>().ok());
        RefEntry {
            cursor: get(b"__CURSOR").unwrap_or_default(),
            realtime: num(b"__REALTIME_TIMESTAMP").unwrap_or(0),
            monotonic: num(b"__MONOTONIC_TIMESTAMP"),
            // `__`-prefixed fields are synthesised by journalctl (address fields), not stored items
            items: kv.iter().filter(|(k, _)| !k.starts_with(b"__")).map(|(k, v)| { let mut d = k.clone(); d.push(b'='); d.extend_from_slice(v); d }).collect(),
        }
    }).collect()
}

/// split `text` (= concatenation of `item + "\n"`) into items of the multiset `avail`, every item used at most once
fn split_items(text: &[u8], avail: &mut HashMap<Vec<u8>, usize>, out: &mut Vec<Vec<u8>>, budget: &mut usize) -> bool {
    if text.is_empty() { return true; }
    if *budget == 0 { return false; }
    *budget -= 1;
    let mut q = 0;
    while q < text.len() {
        if text[q] == b'\n' {
            let cand = &text[..q];
            if let Some(c) = avail.get_mut(cand) {
                if *c > 0 {
                    *c -= 1;
                    out.push(cand.to_vec());
                    if split_items(&text[q + 1..], avail, out, budget) { return true; }
                    out.pop();
                    *avail.get_mut(cand).unwrap() += 1;
                }
            }
        }
        q += 1;
    }
    false
}

// ------------------------------------------------------------------ the real reader

#[derive(Clone, PartialEq)]
enum Reply { Found(Vec<u8>), Skip, Stop }

impl Reply {
    fn show(&self) -> String {
        match self { Reply::Found(b) => format!("found {}", hex(b)), Reply::Skip => "skip".into(), Reply::Stop => "stop".into() }
    }
}

fn read_all(path: &Path, mode: JournalOutput, off: i32, arch: FileTypeArchive) -> Result<Vec<Reply>, String> {
    let fo = FixedOffset::east_opt(off).unwrap();
    let p = path.to_str().unwrap().to_string();
    guarded(move || {
        let mut jr = match JournalReader::new(p, mode, fo, FileType::Journal { archival_type: arch }) {
            Ok(j) => j,
            Err(e) => return Err(format!("new:{}", e).replace([' ', '\n', '\t'], "_")),
        };
        if let Err(e) = jr.analyze(&None) { return Err(format!("analyze:{}", e).replace([' ', '\n', '\t'], "_")); }
        let mut v = vec![];
        loop {
            match jr.next(&None) {
                ResultFind4::Found(je) => v.push(Reply::Found(je.as_bytes().to_vec())),
                ResultFind4::Done => break,
                ResultFind4::ErrIgnore(_) => v.push(Reply::Skip),
                ResultFind4::Err(_) => { v.push(Reply::Stop); break; }
            }
            if v.len() > 1_000_000 { break; }
        }
        Ok(v)
    }).unwrap_or_else(|m| Err(format!("panic:{}", m.replace(' ', "_"))))
}

fn gunzip(p: &Path) -> Vec<u8> {
    let mut v = vec![];
    flate2::read::GzDecoder::new(std::fs::File::open(p).unwrap()).read_to_end(&mut v).unwrap();
    v
}

/// offsets of `key` (e.g. `_PID=`) where it starts a token (not preceded by a letter, digit or `_`)
fn occurrences(data: &[u8], key: &[u8]) -> Vec<usize> {
    let mut v = vec![];
    let mut i = 0;
    while i + key.len() <= data.len() {
        if &data[i..i + key.len()] == key && (i == 0 || !(data[i - 1].is_ascii_alphanumeric() || data[i - 1] == b'_')) { v.push(i); }
        i += 1;
    }
    v
}

struct Stats {
    per_mode: BTreeMap<String, (usize, usize, usize)>, // found, skip, stop
    branch: BTreeMap<&'static str, usize>,
    emitted: usize,
}

fn mode_name(m: &JournalOutput) -> String { format!("{}", m) }

struct Case<'a> { label: String, path: &'a Path, arch: FileTypeArchive, plain: &'a Path, keep: f64, offs: Vec<i32> }

fn run_case(c: &Case, rng: &mut Rng, st: &mut Stats, out: &mut dyn Write) {
    let refs = journalctl_export(c.plain);
    if refs.is_empty() { writeln!(out, "# {}: journalctl returned nothing", c.label).unwrap(); return; }
    // field order: the real export rendering, split into journalctl's items
    let exp = match read_all(c.path, JournalOutput::Export, 0, c.arch) {
        Ok(v) => v,
        Err(e) => { writeln!(out, "jrender e export 0 none 0 none -\topen-failed:{} {}", e, c.label).unwrap(); return; }
    };
    let mut ordered: Vec<Vec<Vec<u8>>> = vec![];
    let mut unparsed = 0;
    for (i, r) in refs.iter().enumerate() {
        let mut items = vec![];
        if let Some(Reply::Found(t)) = exp.get(i) {
            // skip the synthetic lines (they are compared like everything else; here only the item part is needed)
            let mut p = 0;
            for k in [&b"__CURSOR="[..], b"__REALTIME_TIMESTAMP=", b"__MONOTONIC_TIMESTAMP="] {
                if t[p..].starts_with(k) { p += t[p..].iter().position(|&b| b == b'\n').map(|x| x + 1).unwrap_or(0); }
            }
            let body = if t.len() > p { &t[p..t.len() - 1] } else { &t[0..0] };
            let mut avail: HashMap<Vec<u8>, usize> = HashMap::new();
            for it in &r.items { *avail.entry(it.clone()).or_insert(0) += 1; }
            let mut budget = 200_000;
            let ok = split_items(body, &mut avail, &mut items, &mut budget);
            // nothing stored may be missing from the rendering, except beyond the 200 items the export loop visits;
            // those are appended (their order cannot matter to a rendering that never looks at them, and `cat` /
            // the source timestamp ask libsystemd for the first item of a given name)
            if !ok || items.len() != r.items.len().min(200) { items.clear(); unparsed += 1; }
            else if r.items.len() > 200 {
                if !items.iter().any(|d| d.starts_with(b"MESSAGE=")) && r.items.iter().any(|d| d.starts_with(b"MESSAGE=")) {
                    *st.branch.entry("MESSAGE only beyond the 200th field").or_insert(0) += 1;
                }
                for it in &r.items {
                    if let Some(c) = avail.get_mut(it) { if *c > 0 { *c -= 1; items.push(it.clone()); } }
                }
            }
        } else { unparsed += 1; }
        ordered.push(items);
    }
    if exp.len() != refs.len() || unparsed > 0 {
        writeln!(out, "# {}: export rendering has {} entries, journalctl {}; {} entries could not be split into journalctl's items", c.label, exp.len(), refs.len(), unparsed).unwrap();
    }
    // branch statistics (per case, over all entries)
    for (r, items) in refs.iter().zip(ordered.iter()) {
        let has = |k: &[u8]| items.iter().any(|d| d.starts_with(k));
        *st.branch.entry("(all entries read, over all cases)").or_insert(0) += 1;
        if !has(b"_HOSTNAME=") { *st.branch.entry("no _HOSTNAME").or_insert(0) += 1; }
        if !has(b"SYSLOG_IDENTIFIER=") && has(b"_COMM=") { *st.branch.entry("identifier from _COMM").or_insert(0) += 1; }
        if !has(b"SYSLOG_IDENTIFIER=") && !has(b"_COMM=") { *st.branch.entry("no identifier at all").or_insert(0) += 1; }
        if !has(b"_PID=") && has(b"SYSLOG_PID=") { *st.branch.entry("pid from SYSLOG_PID").or_insert(0) += 1; }
        if !has(b"_PID=") && !has(b"SYSLOG_PID=") { *st.branch.entry("no pid at all").or_insert(0) += 1; }
        if !has(b"MESSAGE=") { *st.branch.entry("no MESSAGE").or_insert(0) += 1; }
        if items.iter().any(|d| d.starts_with(b"MESSAGE=") && d.contains(&b'\n')) { *st.branch.entry("multi-line MESSAGE").or_insert(0) += 1; }
        if items.iter().any(|d| d.contains(&b'\n')) { *st.branch.entry("some multi-line value").or_insert(0) += 1; }
        if items.iter().any(|d| std::str::from_utf8(d).is_err()) { *st.branch.entry("non-UTF-8 value").or_insert(0) += 1; }
        if items.iter().any(|d| d.contains(&0u8)) { *st.branch.entry("NUL in a value").or_insert(0) += 1; }
        if items.len() > 200 { *st.branch.entry("more than 200 fields").or_insert(0) += 1; }
        let mut keys: Vec<&[u8]> = items.iter().map(|d| &d[..d.iter().position(|&b| b == b'=').unwrap_or(d.len())]).collect();
        keys.sort();
        if keys.windows(2).any(|w| w[0] == w[1]) { *st.branch.entry("repeated key").or_insert(0) += 1; }
        if items.iter().any(|d| d.starts_with(b"_SELINUX_CONTEXT=") && d.last().map_or(false, |b| b" \n\r\0".contains(b))) { *st.branch.entry("_SELINUX_CONTEXT trimmed").or_insert(0) += 1; }
        if items.iter().any(|d| d.starts_with(b"_SOURCE_REALTIME_TIMESTAMP=")) { *st.branch.entry("has _SOURCE_REALTIME_TIMESTAMP").or_insert(0) += 1; }
        if r.monotonic.is_none() { *st.branch.entry("no monotonic").or_insert(0) += 1; }
    }
    for mode in JournalOutput::iterator() {
        for &off in &c.offs {
            let got = match read_all(c.path, *mode, off, c.arch) {
                Ok(v) => v,
                Err(e) => { writeln!(out, "jrender e {} {} none 0 none -\topen-failed:{} {}", mode_name(mode), off, e, c.label).unwrap(); continue; }
            };
            if got.len() != refs.len() {
                writeln!(out, "jrender e {} {} none 0 none -\tentry-count:{}!={} {}", mode_name(mode), off, got.len(), refs.len(), c.label).unwrap();
            }
            for (i, r) in refs.iter().enumerate() {
                let g = match got.get(i) { Some(g) => g, None => break };
                let e = st.per_mode.entry(mode_name(mode)).or_insert((0, 0, 0));
                match g { Reply::Found(_) => e.0 += 1, Reply::Skip => e.1 += 1, Reply::Stop => e.2 += 1 }
                if c.keep < 1.0 && (rng.next() % 1_000_000) as f64 / 1_000_000.0 >= c.keep { continue; }
                let items = if ordered[i].is_empty() { "-".to_string() } else {
                    ordered[i].iter().map(|d| if d.is_empty() { ".".to_string() } else { hex(d) }).collect::<Vec<_>>().join(",")
                };
                let mono = match r.monotonic { Some(m) => m.to_string(), None => "none".into() };
                writeln!(out, "jrender e {} {} {} {} {} {}\t{}", mode_name(mode), off, if r.cursor.is_empty() { "none".into() } else { hex(&r.cursor) },
                         r.realtime, mono, items, g.show()).unwrap();
                st.emitted += 1;
            }
        }
    }
}

pub fn run(o: &Opts, out: &mut dyn Write) {
    quiet_panics();
    let mut rng = Rng::new(o.seed ^ 0x6a72656e);
    let n = o.n.max(200);
    // ---- synthetic part 1: chrono formatting of every admitted pattern at random instants / zones (1/4 of the budget)
    let n_fmt = n / 4;
    let mut fmt_count = 0;
    for k in 0..n_fmt {
        let pat = PATTERNS[k % PATTERNS.len()];
        let us: u64 = match rng.below(6) {
            0 => rng.next() % (1u64 << 55),                                     // everything libsystemd accepts (< year 3112)
            1 => rng.next() % 100_000_000_000_000,                              // 1970 .. 1973
            2 => 1_600_000_000_000_000 + rng.next() % 200_000_000_000_000,      // 2020 .. 2027
            3 => (rng.next() % 40_000) * 86_400_000_000 + rng.pick(&[0u64, 1, 999_999, 86_399_999_999, 43_200_000_000]), // day edges
            4 => { // end of February / end of year
                let y = 1970 + rng.below(1100) as i64;
                let d = chrono::NaiveDate::from_ymd_opt(y as i32, rng.pick(&[2u32, 3, 12, 1]), rng.pick(&[1u32, 28, 31 - 3])).unwrap();
                (d.and_hms_opt(23, 59, 59).unwrap().and_utc().timestamp() as u64) * 1_000_000 + rng.next() % 2_000_000
            }
            _ => rng.next() % 4_102_444_800_000_000,                            // 1970 .. 2100
        };
        let off: i32 = match rng.below(5) {
            0 => 0,
            1 => rng.pick(&[-43200, -28800, -12600, -3600, 3600, 19800, 20700, 34200, 50400]),
            2 => rng.range(-1439, 1439) as i32 * 60,
            3 => rng.range(-86399, 86399) as i32,
            _ => rng.pick(&[29, 30, 31, -29, -30, -31, 59, -59, 3599, 3570, -3570, 86399, -86399]),
        };
        writeln!(out, "jrender fmt {} {} {}\t{}", hex(pat.as_bytes()), us, off, fmt_reply(pat.as_bytes(), us, off)).unwrap();
        fmt_count += 1;
    }
    // ---- synthetic part 2: the monotonic number below the exactness bound (1/8)
    let mut mono_count = 0;
    for _ in 0..n / 8 {
        let mu: u64 = match rng.below(6) {
            0 => rng.next() % 1000,
            1 => rng.next() % 100_000_000,
            2 => rng.next() % 100_000_000_000,
            3 => rng.next() % 4_294_967_296_000_000,
            4 => 4_294_967_296_000_000 - 1 - rng.next() % 10_000,
            _ => (rng.next() % 4_000_000_000) * 1_000_000 + rng.pick(&[0u64, 1, 5, 499_999, 500_000, 999_999, 999_995]),
        };
        writeln!(out, "jrender mono {}\t{}", mu, mono_reply(mu)).unwrap();
        mono_count += 1;
    }
    // ---- the journals
    match load_library_systemd() {
        LoadLibraryError::Ok => {}
        _ => { writeln!(out, "# libsystemd could not be loaded: no journal cases").unwrap(); return; }
    }
    let repo = repo_dir(o);
    let jdir = repo.join("logs/programs/journal");
    let tmp = tempfile::tempdir().unwrap();
    let mut st = Stats { per_mode: BTreeMap::new(), branch: BTreeMap::new(), emitted: 0 };
    let budget = (n - n_fmt - n / 8) as f64;
    let small_gz = jdir.join("Ubuntu22-user-1000x3.journal.gz");
    let big_gz = jdir.join("RHE_91_system.journal.gz");
    let mut cases_run = 0;
    let offs_all: [i32; 8] = [0, -28800, 19800, 3600, 20700, -12600, 3723, -86399];
    // small journal: as shipped, every container, every subset of the six keys renamed, value patches
    if small_gz.exists() {
        let data = gunzip(&small_gz);
        let plain = tmp.path().join("small.journal");
        std::fs::write(&plain, &data).unwrap();
        for (suffix, arch) in [("", FileTypeArchive::Normal), (".gz", FileTypeArchive::Gz), (".xz", FileTypeArchive::Xz), (".bz2", FileTypeArchive::Bz2), (".lz4", FileTypeArchive::Lz4)] {
            let p = if suffix.is_empty() { plain.clone() } else { jdir.join(format!("Ubuntu22-user-1000x3.journal{}", suffix)) };
            if !p.exists() { continue; }
            run_case(&Case { label: format!("small{}", suffix), path: &p, arch, plain: &plain, keep: 1.0, offs: vec![0, rng.pick(&offs_all)] }, &mut rng, &mut st, out);
            cases_run += 1;
        }
        let occ: Vec<Vec<usize>> = KEYS.iter().map(|k| occurrences(&data, k)).collect();
        let nsub = if o.thorough { 64 } else { 24 };
        for s in 0..nsub {
            let mask = if o.thorough { s } else if s < 8 { [1usize, 2, 4, 8, 16, 32, 63, 6][s] } else { 1 + rng.below(63) };
            let mut b = data.clone();
            for (ki, k) in KEYS.iter().enumerate() {
                if mask >> ki & 1 == 1 {
                    // rename all, or (sometimes) only some of the data objects of this key
                    let partial = rng.chance(1, 3);
                    for &at in &occ[ki] { if !partial || rng.chance(1, 2) { b[at + k.len() - 2] = b'X'; } }
                }
            }
            // value patches: bytes >= 0x80, a newline, `=`, NUL inside MESSAGE / _HOSTNAME / SYSLOG_IDENTIFIER values
            if s % 3 == 2 {
                for k in [&b"MESSAGE="[..], b"_HOSTNAME=", b"SYSLOG_IDENTIFIER=", b"_PID="] {
                    for at in occurrences(&b, k) {
                        let v = at + k.len();
                        if v + 6 < b.len() && b[v..v + 6].iter().all(|c| c.is_ascii_graphic() || *c == b' ') && rng.chance(1, 2) {
                            let pat: &[u8] = rng.pick(&[&b"\xff\xfe"[..], b"\n", b"=", b"\0", b"\n\n", b"\xc3(", b"a\n="]);
                            b[v + 1..v + 1 + pat.len()].copy_from_slice(pat);
                        }
                    }
                }
            }
            let p = tmp.path().join(format!("small_p{}.journal", s));
            std::fs::write(&p, &b).unwrap();
            run_case(&Case { label: format!("small-patched-{:02x}", mask), path: &p, arch: FileTypeArchive::Normal, plain: &p, keep: 1.0, offs: vec![rng.pick(&offs_all)] }, &mut rng, &mut st, out);
            let _ = std::fs::remove_file(&p);
            cases_run += 1;
        }
    }
    // corpus journals written by the real journald from crafted entries (tools/make_synth_journal.sh): more than 200
    // fields, repeated keys, binary / empty / multi-line / large compressed values
    let cdir = Path::new(concat!(env!("CARGO_MANIFEST_DIR"), "/../corpus/jrender"));
    if let Ok(rd) = std::fs::read_dir(cdir) {
        let mut files: Vec<PathBuf> = rd.filter_map(|e| e.ok()).map(|e| e.path()).filter(|p| p.to_str().map_or(false, |s| s.ends_with(".journal.xz"))).collect();
        files.sort();
        for (fi, f) in files.iter().enumerate() {
            let mut data = vec![];
            if lzma_rs::xz_decompress(&mut std::io::BufReader::new(std::fs::File::open(f).unwrap()), &mut data).is_err() { continue; }
            let plain = tmp.path().join(format!("corpus{}.journal", fi));
            std::fs::write(&plain, &data).unwrap();
            let name = f.file_name().unwrap().to_str().unwrap().to_string();
            run_case(&Case { label: format!("corpus:{}", name), path: &plain, arch: FileTypeArchive::Normal, plain: &plain, keep: 1.0, offs: vec![0, rng.pick(&offs_all), rng.pick(&offs_all)] }, &mut rng, &mut st, out);
            run_case(&Case { label: format!("corpus:{} (xz)", name), path: f, arch: FileTypeArchive::Xz, plain: &plain, keep: 1.0, offs: vec![rng.pick(&offs_all)] }, &mut rng, &mut st, out);
            cases_run += 2;
            let occ: Vec<Vec<usize>> = KEYS.iter().map(|k| occurrences(&data, k)).collect();
            for s in 0..(if o.thorough { 63 } else { 12 }) {
                let mask = if o.thorough { s + 1 } else if s < 6 { 1usize << s } else { 1 + rng.below(63) };
                let mut b = data.clone();
                for (ki, k) in KEYS.iter().enumerate() {
                    if mask >> ki & 1 == 1 { for &at in &occ[ki] { if rng.chance(3, 4) { b[at + k.len() - 2] = b'X'; } } }
                }
                let p = tmp.path().join(format!("corpus{}_p{}.journal", fi, s));
                std::fs::write(&p, &b).unwrap();
                run_case(&Case { label: format!("corpus:{}-patched-{:02x}", name, mask), path: &p, arch: FileTypeArchive::Normal, plain: &p, keep: 1.0, offs: vec![rng.pick(&offs_all)] }, &mut rng, &mut st, out);
                let _ = std::fs::remove_file(&p);
                cases_run += 1;
            }
        }
    }
    // large journal: sampled
    if big_gz.exists() {
        let data = gunzip(&big_gz);
        let plain = tmp.path().join("big.journal");
        std::fs::write(&plain, &data).unwrap();
        let left = (budget - st.emitted as f64).max(500.0);
        let nvar = if o.thorough { 12 } else { 4 };
        // requests per (variant, mode, offset) ~ entries * keep ; 10 modes, 1 offset, ~2081 entries
        let keep = (left / ((nvar + 2) as f64 * 10.0 * 2081.0)).min(1.0);
        run_case(&Case { label: "big".into(), path: &plain, arch: FileTypeArchive::Normal, plain: &plain, keep, offs: vec![rng.pick(&offs_all)] }, &mut rng, &mut st, out);
        let xz = jdir.join("RHE_91_system.journal.xz");
        if xz.exists() {
            run_case(&Case { label: "big.xz".into(), path: &xz, arch: FileTypeArchive::Xz, plain: &plain, keep, offs: vec![rng.pick(&offs_all)] }, &mut rng, &mut st, out);
        }
        cases_run += 2;
        let occ: Vec<Vec<usize>> = KEYS.iter().map(|k| occurrences(&data, k)).collect();
        for v in 0..nvar {
            let mut b = data.clone();
            let mask = if v < 6 { 1usize << v } else { 1 + rng.below(63) };
            for (ki, k) in KEYS.iter().enumerate() {
                if mask >> ki & 1 == 1 { for &at in &occ[ki] { if rng.chance(2, 3) { b[at + k.len() - 2] = b'X'; } } }
            }
            let p = tmp.path().join(format!("big_p{}.journal", v));
            std::fs::write(&p, &b).unwrap();
            run_case(&Case { label: format!("big-patched-{:02x}", mask), path: &p, arch: FileTypeArchive::Normal, plain: &p, keep, offs: vec![rng.pick(&offs_all)] }, &mut rng, &mut st, out);
            let _ = std::fs::remove_file(&p);
            cases_run += 1;
        }
    }
    writeln!(out, "# jrender: {} fmt requests, {} mono requests, {} journal cases, {} entry requests", fmt_count, mono_count, cases_run, st.emitted).unwrap();
    for (m, (f, s, x)) in &st.per_mode { writeln!(out, "# mode {}: read {} found, {} skipped (ErrIgnore), {} stopped (Err)", m, f, s, x).unwrap(); }
    for (b, c) in &st.branch { writeln!(out, "# entries: {}: {}", b, c).unwrap(); }
}
