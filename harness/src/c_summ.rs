//! component `summ`: the REAL `SummaryPrinted::summaryprint_update_*` / `summaryprint_map_update_*` (src/printer/summary.rs)
//! driven in-process, against the interpreter of the regenerated accounting (`S4V.Model.Summary`, driver `drv_summ`).
//!
//! request   summ upd <pid>,<kind>,<nlines>,<printed>,<flushed>,<dt> …     kind = s | f | e | j
//!           for every op, in order: a real message of that kind with datetime `dt` (epoch seconds, UTC) is built
//!           (`Sysline::from_parts` with `nlines` empty lines; `FixedStruct::new` on a Linux x86 lastlog record;
//!           `Evtx::from_evtxrs`; `JournalEntry::new_with_date`), then — as `processing_loop` does —
//!           `SummaryPrinted::summaryprint_map_update_<kind>(&msg, &pid, &mut map, printed, flushed)` and
//!           `total.summaryprint_update_<kind>(&msg, printed, flushed)`; `total` starts as `SummaryPrinted::default()`,
//!           `map` as `MapPathIdSummaryPrint::new()`
//! reply     T <c> | <pid>:<c> | …    c = bytes,flushed,lines,syslines,fixedstructentries,evtxentries,journalentries,
//!           dt_first,dt_last (epoch seconds, `-` = None); per-file entries in the map's iteration order
//!           err-fixedstruct          `FixedStruct::new` refused the record
use crate::util::*;
use chrono::{DateTime, FixedOffset, TimeZone, Utc};
use s4lib::common::{Count, PathId};
use s4lib::data::evtx::Evtx;
use s4lib::data::fixedstruct::{FixedStruct, FixedStructType};
use s4lib::data::journal::{DtUsesSource, JournalEntry};
use s4lib::data::line::{Line, Lines};
use s4lib::data::sysline::{Sysline, SyslineP};
use s4lib::printer::summary::{MapPathIdSummaryPrint, SummaryPrinted};
use std::io::Write;
use std::sync::Arc;

fn show(sp: &SummaryPrinted) -> String {
    let d = |o: &Option<DateTime<FixedOffset>>| match o { Some(dt) => dt.timestamp().to_string(), None => "-".to_string() };
    format!("{},{},{},{},{},{},{},{},{}", sp.bytes, sp.flushed, sp.lines, sp.syslines, sp.fixedstructentries,
        sp.evtxentries, sp.journalentries, d(&sp.dt_first), d(&sp.dt_last))
}

pub fn replay_line(req: &str) -> String {
    let w: Vec<&str> = req.split_whitespace().collect();
    if w.len() < 2 || w[0] != "summ" || w[1] != "upd" { return "bad-op".to_string(); }
    let mut ops: Vec<(PathId, char, usize, Count, Count, i64)> = vec![];
    for t in &w[2..] {
        let f: Vec<&str> = t.split(',').collect();
        if f.len() != 6 || f[1].len() != 1 { return "bad-op".to_string(); }
        match (f[0].parse(), f[2].parse(), f[3].parse(), f[4].parse(), f[5].parse()) {
            (Ok(a), Ok(c), Ok(d), Ok(e), Ok(g)) => ops.push((a, f[1].chars().next().unwrap(), c, d, e, g)),
            _ => return "bad-op".to_string(),
        }
    }
    match guarded(move || {
        let tz = FixedOffset::east_opt(0).unwrap();
        let mut total: SummaryPrinted = SummaryPrinted::default();
        let mut map = MapPathIdSummaryPrint::new();
        for (pid, k, nlines, printed, flushed, secs) in ops {
            let dt: DateTime<FixedOffset> = tz.timestamp_opt(secs, 0).unwrap();
            match k {
                's' => {
                    let mut lines = Lines::new();
                    for _ in 0..nlines { lines.push(Arc::new(Line::new())); }
                    let s: SyslineP = Arc::new(Sysline::from_parts(lines, 0, 0, dt));
                    SummaryPrinted::summaryprint_map_update_sysline(&s, &pid, &mut map, printed, flushed);
                    total.summaryprint_update_sysline(&s, printed, flushed);
                }
                'f' => {
                    // Linux x86 lastlog: ll_time i32 @0, ll_line[32] @4, ll_host[256] @36
                    let t = FixedStructType::Fs_Linux_x86_Lastlog;
                    let mut rec = vec![0u8; t.size()];
                    rec[0..4].copy_from_slice(&(secs as i32).to_le_bytes());
                    rec[4..9].copy_from_slice(b"pts/1");
                    rec[36..40].copy_from_slice(b"host");
                    let fs = match FixedStruct::new(0, &tz, &rec, t) { Ok(v) => v, Err(_) => return "err-fixedstruct".to_string() };
                    SummaryPrinted::summaryprint_map_update_fixedstruct(&fs, &pid, &mut map, printed, flushed);
                    total.summaryprint_update_fixedstruct(&fs, printed, flushed);
                }
                'e' => {
                    let rec = evtx::SerializedEvtxRecord::<String> {
                        event_record_id: 1,
                        timestamp: Utc.timestamp_opt(secs, 0).unwrap(),
                        data: String::from("<Event/>"),
                    };
                    let e = Evtx::from_evtxrs(&rec);
                    SummaryPrinted::summaryprint_map_update_evtx(&e, &pid, &mut map, printed, flushed);
                    total.summaryprint_update_evtx(&e, printed, flushed);
                }
                'j' => {
                    let j = JournalEntry::new_with_date(b"MESSAGE=x\n".to_vec(), (secs as u64) * 1_000_000, None, dt,
                        DtUsesSource::RealtimeTimestamp, 0, 0);
                    SummaryPrinted::summaryprint_map_update_journalentry(&j, &pid, &mut map, printed, flushed);
                    total.summaryprint_update_journalentry(&j, printed, flushed);
                }
                _ => return "bad-op".to_string(),
            }
        }
        let mut parts = vec![format!("T {}", show(&total))];
        for (pid, sp) in map.iter() { parts.push(format!("{}:{}", pid, show(sp))); }
        parts.join(" | ")
    }) {
        Ok(s) => s,
        Err(m) => format!("panic:{}", m.replace(' ', "_")),
    }
}

pub fn run(o: &Opts, out: &mut dyn Write) {
    let mut rng = Rng::new(o.seed ^ 0x5u64);
    for i in 0..o.n {
        let nops = if i % 50 == 0 { 0 } else { 1 + rng.below(if o.thorough { 24 } else { 10 }) };
        let nfiles = 1 + rng.below(4);
        // every file has a kind; now and then an op of another kind lands on the same pid (release builds do not assert)
        let kinds: Vec<char> = (0..nfiles).map(|_| rng.pick(&['s', 'f', 'e', 'j'])).collect();
        let base: i64 = rng.range(1, 1_900_000_000);
        let mut toks = vec![];
        for _ in 0..nops {
            let pid = rng.below(nfiles);
            let k = if rng.chance(1, 12) { rng.pick(&['s', 'f', 'e', 'j']) } else { kinds[pid] };
            let nlines = if k == 's' { 1 + rng.below(4) } else { 0 };
            let printed = match rng.below(4) { 0 => 0, 1 => rng.below(100), 2 => rng.below(5000), _ => rng.below(1 << 20) };
            let flushed = rng.below(6);
            // out of order on purpose; ties too
            let dt = match rng.below(4) { 0 => base, 1 => base + rng.range(-5, 5), _ => (base + rng.range(-100_000, 100_000)).max(1) };
            toks.push(format!("{},{},{},{},{},{}", pid, k, nlines, printed, flushed, dt.max(1)));
        }
        let req = format!("summ upd {}", toks.join(" ")).trim_end().to_string();
        let rep = replay_line(&req);
        writeln!(out, "{}\t{}", req, rep).unwrap();
    }
}
