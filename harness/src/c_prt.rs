//! component `prt` (op `sys`): the real `PrinterLogMessage::print_sysline` on real `Sysline`s vs the
//! buffer/lineparts model.
//!
//! request: prt sys <bs> <file_hex> <color 0|1> <file_field_hex|n> <dfmt 0|1|2> <r,g,b> @ <pal> <msg> …
//!   before `@`: what the harness needs (the file is read with block size <bs>, so a line that crosses
//!   block boundaries has several lineparts; every sysline of the file is printed, in order, by ONE
//!   printer). After `@` (derived here, for the model): the escape bytes of the printer's three colour
//!   specs (computed here from the colour, not taken from termcolor) and per message
//!   `<date_field_hex|n>;<dt_beg>;<dt_end>;<line>/…` with line = `<part_hex>,…`.
//!   dt_beg/dt_end are read from `Debug` of the Sysline; the parts are the pieces of the line between
//!   block boundaries (checked against `count_lineparts()` and `verif_bytes()`).
//! reply: per message `<stdout hex> <printed> <flushed> <label:hex,…>` joined by ` | `; stdout is the
//!   process's fd 1 redirected to a file around the call.
use crate::c_line::write_tmp;
use crate::util::*;
use chrono::FixedOffset;
use s4lib::common::{FileType, FileTypeArchive, FileTypeTextEncoding, ResultS3};
use s4lib::data::sysline::SyslineP;
use s4lib::printer::printers::{Color, ColorChoice, PrinterLogMessage};
use s4lib::readers::syslinereader::SyslineReader;
use std::io::{Read, Seek, SeekFrom, Write};
use std::os::unix::io::AsRawFd;

extern "C" {
    fn dup(fd: i32) -> i32;
    fn dup2(a: i32, b: i32) -> i32;
    fn close(fd: i32) -> i32;
}

/// run `f` with fd 1 redirected to an anonymous file; returns f's value and the bytes written
fn capture<R, F: FnOnce() -> R>(f: F) -> (R, Vec<u8>) {
    let _ = std::io::stdout().flush();
    let mut file = tempfile::tempfile().unwrap();
    let saved = unsafe { dup(1) };
    assert!(saved >= 0);
    assert!(unsafe { dup2(file.as_raw_fd(), 1) } >= 0);
    let r = f();
    let _ = std::io::stdout().flush();
    assert!(unsafe { dup2(saved, 1) } >= 0);
    unsafe { close(saved) };
    let mut v = vec![];
    file.seek(SeekFrom::Start(0)).unwrap();
    file.read_to_end(&mut v).unwrap();
    (r, v)
}

const DFMT: [&str; 3] = ["", "%s|", "%Y%m%dT%H%M%S%z "];

fn pal(r: u8, g: u8, b: u8) -> (Vec<u8>, Vec<u8>, Vec<u8>) {
    let fg = format!("\x1b[38;2;{};{};{}m", r, g, b).into_bytes();
    let dflt = b"\x1b[0m\x1b[37m".to_vec();
    let mut txt = b"\x1b[0m".to_vec();
    txt.extend(&fg);
    let mut dt = b"\x1b[0m\x1b[4m".to_vec();
    dt.extend(&fg);
    (dflt, txt, dt)
}

/// runs of bytes under one colour label (N none yet, D default, T text, U datetime, X unknown escape)
fn labelled(out: &[u8], p: &(Vec<u8>, Vec<u8>, Vec<u8>), cur: &mut char) -> String {
    let mut runs: Vec<(char, Vec<u8>)> = vec![];
    let mut i = 0;
    while i < out.len() {
        if out[i] == 0x1b {
            let rest = &out[i..];
            if rest.starts_with(&p.2) { *cur = 'U'; i += p.2.len(); continue; }
            if rest.starts_with(&p.1) { *cur = 'T'; i += p.1.len(); continue; }
            if rest.starts_with(&p.0) { *cur = 'D'; i += p.0.len(); continue; }
            *cur = 'X';
        }
        match runs.last_mut() {
            Some((l, v)) if *l == *cur => v.push(out[i]),
            _ => runs.push((*cur, vec![out[i]])),
        }
        i += 1;
    }
    if runs.is_empty() { return "-".to_string(); }
    runs.iter().map(|(l, v)| format!("{}:{}", l, hex(v))).collect::<Vec<_>>().join(",")
}

fn field_after(s: &str, key: &str) -> Option<usize> {
    let i = s.find(key)? + key.len();
    let t: String = s[i..].chars().take_while(|c| c.is_ascii_digit()).collect();
    t.parse().ok()
}

pub struct Stats {
    pub files: usize,
    pub msgs: usize,
    pub first_multi: usize,
    pub straddle: usize,
    pub overflow: usize,
    pub bigwrite: usize,
    pub color: usize,
    pub nosys: usize,
    pub multiline: usize,
}

/// (derived request suffix, reply)
fn do_case(pre: &[&str], st: &mut Stats) -> (String, String) {
    let bs: u64 = pre[0].parse().unwrap();
    let d = unhex(pre[1]);
    let color = pre[2] == "1";
    let ffield: Option<String> = if pre[3] == "n" { None } else { Some(String::from_utf8(unhex(pre[3])).unwrap()) };
    let dfmt: usize = pre[4].parse().unwrap();
    let rgb: Vec<u8> = pre[5].split(',').map(|x| x.parse().unwrap()).collect();
    let p = pal(rgb[0], rgb[1], rgb[2]);
    let f = write_tmp(&d, ".log");
    let path = f.path().to_str().unwrap().to_string();
    let tz0 = FixedOffset::east_opt(0).unwrap();
    let ft = FileType::Text { archival_type: FileTypeArchive::Normal, encoding_type: FileTypeTextEncoding::Utf8Ascii };
    let palstr = format!("{},{},{}", hex(&p.0), hex(&p.1), hex(&p.2));
    let r = guarded(std::panic::AssertUnwindSafe(move || {
        let mut sr = match SyslineReader::new(path, ft, bs, tz0) {
            Ok(v) => v,
            Err(e) => return (String::new(), format!("err-new {}", e.kind())),
        };
        let mut sys: Vec<SyslineP> = vec![];
        let mut fo: u64 = 0;
        loop {
            match sr.find_sysline(fo) {
                ResultS3::Found((next, s)) => {
                    let last = sr.is_sysline_last(&s);
                    sys.push(s);
                    if last || sys.len() >= 16 { break; }
                    fo = next;
                }
                ResultS3::Done => break,
                ResultS3::Err(e) => return (String::new(), format!("err-find {}", e.kind())),
            }
        }
        let mut printer = PrinterLogMessage::new(
            if color { ColorChoice::Always } else { ColorChoice::Never },
            Color::Rgb(rgb[0], rgb[1], rgb[2]),
            ffield.clone(),
            if dfmt == 0 { None } else { Some(DFMT[dfmt].to_string()) },
            tz0,
        );
        let mut derived: Vec<String> = vec![];
        let mut replies: Vec<String> = vec![];
        let mut cur = 'N';
        st.files += 1;
        if color { st.color += 1; }
        if sys.is_empty() { st.nosys += 1; }
        for s in sys.iter() {
            // the message as the model sees it
            let dbg = format!("{:?}", s);
            let (b, e) = match (field_after(&dbg, "dt_beg: "), field_after(&dbg, "dt_end: ")) {
                (Some(b), Some(e)) => (b, e),
                _ => return (String::new(), "err-debug-format".to_string()),
            };
            let nparts_dbg: Vec<usize> = dbg.match_indices("count_lineparts() ").filter_map(|(i, k)| field_after(&dbg[i..], k)).collect();
            let mut lines: Vec<String> = vec![];
            let mut nparts: Vec<usize> = vec![];
            let mut bytes: Vec<u8> = vec![];
            let mut first_parts: Vec<(usize, usize)> = vec![];
            for (li, (lb, le)) in s.verif_lines().iter().enumerate() {
                let (lb, le) = (*lb as usize, *le as usize);
                let mut parts: Vec<String> = vec![];
                let mut a = lb;
                while a <= le {
                    let blk_end = ((a as u64 / bs + 1) * bs) as usize; // first offset of the next block
                    let z = std::cmp::min(blk_end, le + 1);
                    parts.push(hex(&d[a..z]));
                    if li == 0 { first_parts.push((a - lb, z - lb)); }
                    bytes.extend(&d[a..z]);
                    a = z;
                }
                nparts.push(parts.len());
                lines.push(parts.join(","));
            }
            if nparts != nparts_dbg || bytes != s.verif_bytes() {
                return (String::new(), format!("PARTS-MISMATCH computed {:?} reader {:?}", nparts, nparts_dbg));
            }
            let date: Option<Vec<u8>> = match dfmt {
                0 => None,
                1 => Some(format!("{}|", s.dt().timestamp()).into_bytes()),
                _ => Some(s.dt().with_timezone(&tz0).format(DFMT[2]).to_string().into_bytes()),
            };
            derived.push(format!("{};{};{};{}", match &date { Some(x) => hex(x), None => "n".to_string() }, b, e, lines.join("/")));
            // statistics
            st.msgs += 1;
            if nparts[0] >= 2 { st.first_multi += 1; }
            if nparts.len() >= 2 { st.multiline += 1; }
            if e > b && first_parts.iter().any(|(pa, pz)| *pa <= b && b < *pz && e > *pz) { st.straddle += 1; }
            let perline = ffield.as_ref().map(|x| x.len()).unwrap_or(0) + date.as_ref().map(|x| x.len()).unwrap_or(0);
            if bytes.len() + perline * nparts.len() > 2056 { st.overflow += 1; }
            // the real call
            let (res, out) = capture(|| printer.print_sysline(s));
            let (printed, flushed) = match res {
                Ok((p, f)) => (p as i64, f as i64),
                Err(_) => (-1, -1),
            };
            let lab = labelled(&out, &p, &mut cur);
            replies.push(format!("{} {} {} {}", hex(&out), printed, flushed, lab));
        }
        (derived.join(" "), replies.join(" | "))
    }));
    match r {
        Ok((der, rep)) => (format!("{} {}", palstr, der).trim_end().to_string(), rep),
        Err(m) => (palstr, format!("panic {}", m)),
    }
}

pub fn replay_line(req: &str) -> String {
    let w: Vec<&str> = req.split_whitespace().collect();
    if w.len() < 8 || w[0] != "prt" || w[1] != "sys" { return "bad-op".to_string(); }
    let mut st = Stats { files: 0, msgs: 0, first_multi: 0, straddle: 0, overflow: 0, bigwrite: 0, color: 0, nosys: 0, multiline: 0 };
    do_case(&w[2..8], &mut st).1
}

fn letters(rng: &mut Rng, n: usize) -> Vec<u8> {
    let mut v = Vec::with_capacity(n);
    for _ in 0..n {
        v.push(if rng.chance(1, 7) { b' ' } else { b'a' + rng.below(26) as u8 });
    }
    v
}

const PFX: &[&str] = &["", "", "<14>", "[", "<165>1 ", "host7 ", "kernel: ", "abcdefghijk lmnop "];

pub fn gen_file(rng: &mut Rng) -> Vec<u8> {
    let mut d: Vec<u8> = vec![];
    let n = 1 + rng.below(3);
    let mut t: i64 = 1_577_836_800 + rng.below(1_000_000) as i64;
    let pfx = rng.pick(PFX);
    let iso = rng.chance(1, 2);
    for _ in 0..n {
        t += rng.pick(&[0i64, 1, 5, 3600]);
        let ts = FixedOffset::east_opt(0).unwrap();
        let dt = chrono::TimeZone::timestamp_opt(&ts, t, 0).unwrap();
        d.extend(pfx.as_bytes());
        d.extend(dt.format(if iso { "%Y-%m-%dT%H:%M:%S" } else { "%Y-%m-%d %H:%M:%S" }).to_string().as_bytes());
        let blen = match rng.below(12) {
            0 => 0,
            1 | 2 => 2040 + rng.below(40),          // around the buffer capacity
            3 => 2100 + rng.below(2500),            // larger than the buffer
            _ => 1 + rng.below(150),
        };
        if blen > 0 {
            d.push(b' ');
            d.extend(letters(rng, blen));
        }
        d.push(b'\n');
        if rng.chance(1, 3) {
            for _ in 0..(1 + rng.below(3)) {
                let clen = match rng.below(10) { 0 => 2057 + rng.below(1200), 1 => 0, 2 => 600 + rng.below(900), _ => 1 + rng.below(120) };
                if clen > 0 {
                    d.extend(b"  ");
                    d.extend(letters(rng, clen));
                }
                d.push(b'\n');
            }
        }
    }
    if rng.chance(1, 5) { d.pop(); }
    d
}

pub fn run(o: &Opts, out: &mut dyn Write) {
    quiet_panics();
    let mut rng = Rng::new(o.seed ^ 0x7072);
    let mut st = Stats { files: 0, msgs: 0, first_multi: 0, straddle: 0, overflow: 0, bigwrite: 0, color: 0, nosys: 0, multiline: 0 };
    for _ in 0..o.n {
        let d = gen_file(&mut rng);
        let bs: u64 = match rng.below(8) { 0 => 8, 1 => 16, 2 => 20, 3 => 32, 4 => 64, 5 => 100, 6 => (1 + rng.below(300)) as u64, _ => 0x2000 };
        let color = rng.chance(3, 5);
        let ff = match rng.below(4) { 0 => "n".to_string(), 1 => hex(b"f.log:"), 2 => hex(b"/var/log/some/dir/messages.1 |"), _ => "n".to_string() };
        let dfmt = rng.below(3);
        let rgb = match rng.below(3) { 0 => (102u8, 230u8, 102u8), 1 => (255, 255, 255), _ => (rng.below(256) as u8, rng.below(256) as u8, rng.below(256) as u8) };
        let pre = format!("{} {} {} {} {} {},{},{}", bs, hex(&d), if color { 1 } else { 0 }, ff, dfmt, rgb.0, rgb.1, rgb.2);
        let w: Vec<&str> = pre.split(' ').collect();
        let (der, rep) = do_case(&w, &mut st);
        writeln!(out, "prt sys {} @ {}\t{}", pre, der, rep).unwrap();
    }
    writeln!(out, "# distribution {{\"files\":{},\"colour\":{},\"messages\":{},\"multi_line_messages\":{},\"first_line_ge2_parts\":{},\"datetime_straddles_boundary\":{},\"overflow_gt_2056B\":{},\"no_sysline_files\":{}}}",
             st.files, st.color, st.msgs, st.multiline, st.first_multi, st.straddle, st.overflow, st.nosys).unwrap();
    eprintln!("prt-sys distribution: files={} colour={} messages={} multi-line-messages={} first-line>=2parts={} datetime-straddles-boundary={} overflow(>2056B)={} no-sysline-files={}",
              st.files, st.color, st.msgs, st.multiline, st.first_multi, st.straddle, st.overflow, st.nosys);
}
