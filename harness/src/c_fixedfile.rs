//! oracle `fixedfile` (implementation side, no model): accounting-record FILES of EVERY `FixedStructType`
//! layout through the REAL `FixedStructReader`, driven exactly as `exec_fixedstructprocessor` drives it
//! (`new` -> `fileoffset_first` -> `process_entry_at` until `Done`), checked against the statement of C08:
//! every non-null record exactly once, ordered by its embedded time (read with the layout's DECLARED type
//! and width, by this file, independently of the crate), equal times in file order.
//!
//! Two of three files are read under a window whose bounds lie on / 1 microsecond beside record instants (C03).
//! output   O<TAB>ok|<signature><TAB><detail>     one line per file
//!          signatures: fixed:order-differs-from-stable-sort, fixed:record-missing-or-repeated,
//!                      fixed:reader-error, fixed:panic;  `skip:<why>` lines are counted, not failures
//!          (a file detected as another layout than intended is `skip:detected-as-<layout>`)
use crate::c_line::tmpdir;
use crate::util::*;
use chrono::FixedOffset;
use s4lib::common::{FileType, ResultS3};
use s4lib::data::fixedstruct::{FixedStructType, ENTRY_SZ_MAX};
use s4lib::readers::filepreprocessor::{path_to_filetype, PathToFiletypeResult};
use s4lib::readers::fixedstructreader::{FixedStructReader, ResultFixedStructReaderNew};
use std::io::Write;

use FixedStructType::*;

/// layout, file name that `path_to_filetype` maps to its kind, seconds (offset, width, signed), microseconds
/// (offset, width) or none, a text field to carry the record's index (offset, length), other text fields to
/// make plausible (offset, length), `ut_type` offset or none, extra integer fields forced small
#[allow(clippy::type_complexity)]
const L: [(FixedStructType, &str, (usize, usize, bool), Option<(usize, usize)>, (usize, usize), &[(usize, usize)], Option<usize>); 16] = [
    (Fs_Freebsd_x8664_Utmpx, "utmpx", (8, 8, true), Some((16, 8)), (36, 32), &[(24, 8), (68, 16), (84, 128)], Some(0)),
    (Fs_Linux_Arm64Aarch64_Lastlog, "lastlog", (0, 8, true), None, (8, 32), &[(40, 256)], None),
    (Fs_Linux_Arm64Aarch64_Utmpx, "wtmp", (344, 8, true), Some((352, 8)), (44, 32), &[(8, 32), (40, 4), (76, 256)], Some(0)),
    (Fs_Linux_x86_Acct, "acct", (8, 4, false), None, (36, 17), &[], None),
    (Fs_Linux_x86_Acct_v3, "pacct", (24, 4, false), None, (48, 16), &[], None),
    (Fs_Linux_x86_Lastlog, "lastlog", (0, 4, true), None, (4, 32), &[(36, 256)], None),
    (Fs_Linux_x86_Utmpx, "wtmp", (340, 4, true), Some((344, 4)), (44, 32), &[(8, 32), (40, 4), (76, 256)], Some(0)),
    (Fs_Netbsd_x8632_Acct, "acct", (24, 8, true), None, (0, 16), &[], None),
    (Fs_Netbsd_x8632_Lastlogx, "lastlogx", (0, 8, true), Some((8, 4)), (12, 32), &[(44, 256)], None),
    (Fs_Netbsd_x8632_Utmpx, "utmpx", (464, 8, true), Some((472, 4)), (0, 32), &[(32, 4), (36, 32), (68, 256)], Some(326)),
    (Fs_Netbsd_x8664_Lastlog, "lastlog", (0, 8, true), None, (8, 8), &[(16, 16)], None),
    (Fs_Netbsd_x8664_Lastlogx, "lastlogx", (0, 8, true), Some((8, 4)), (16, 32), &[(48, 256)], None),
    (Fs_Netbsd_x8664_Utmp, "utmp", (32, 8, true), None, (8, 8), &[(0, 8), (16, 16)], None),
    (Fs_Netbsd_x8664_Utmpx, "utmpx", (464, 8, true), Some((472, 4)), (0, 32), &[(32, 4), (36, 32), (68, 256)], Some(326)),
    (Fs_Openbsd_x86_Lastlog, "lastlog", (0, 8, true), None, (8, 8), &[(16, 256)], None),
    (Fs_Openbsd_x86_Utmp, "utmp", (296, 8, true), None, (8, 32), &[(0, 8), (40, 256)], None),
];

fn put(rec: &mut [u8], off: usize, width: usize, v: i128) {
    let b = v.to_le_bytes();
    rec[off..off + width].copy_from_slice(&b[..width]);
}

fn get(rec: &[u8], off: usize, width: usize, signed: bool) -> i128 {
    let mut b = [0u8; 16];
    b[..width].copy_from_slice(&rec[off..off + width]);
    let v = u128::from_le_bytes(b);
    if signed && width < 16 && (v >> (width * 8 - 1)) & 1 == 1 {
        (v as i128) - (1i128 << (width * 8))
    } else {
        v as i128
    }
}

fn put_text(rec: &mut [u8], off: usize, len: usize, s: &str) {
    let b = s.as_bytes();
    let n = b.len().min(len.saturating_sub(1));
    rec[off..off + n].copy_from_slice(&b[..n]);
}

/// one file: returns (signature, detail)
fn one(rng: &mut Rng, k: usize, li: usize, dir: &std::path::Path) -> (String, String) {
    let (t, name, (so, sw, ssigned), us, (io, il), texts, utt) = L[li];
    let sz = t.size();
    let n = 2 + rng.below(12);
    // times: a pool with ties; values above 2^31 (and above 2^32 for 8-byte fields) mixed with ordinary ones
    let base: i128 = 1_600_000_000 + rng.below(1000) as i128;
    let mut pool: Vec<i128> = vec![base, base + 1, base + 1, base + 86_400, base - 3600];
    let big = rng.below(4);
    let top: i128 = if sw == 4 && ssigned { (1 << 31) - 1 } else if sw == 4 { (1u64 << 32) as i128 - 1 } else { 8_000_000_000 };
    if big >= 1 && top > (1 << 31) {
        pool.push((1 << 31) + rng.below(1000) as i128);
        pool.push((1 << 31) - 1 - rng.below(1000) as i128);
    }
    if big >= 2 && top > (1u64 << 32) as i128 {
        pool.push((1u64 << 32) as i128 + rng.below(1000) as i128);
        pool.push((1u64 << 32) as i128);
    }
    if big == 3 && top > 4_102_444_800 {
        pool.push(4_102_444_800 + rng.below(100000) as i128); // year 2100 and later
    }
    let mut data: Vec<u8> = Vec::with_capacity(n * sz);
    let mut times: Vec<(i128, i128)> = Vec::new();
    for i in 0..n {
        let mut rec = vec![0u8; sz];
        let null = rng.chance(1, 9);
        if !null {
            let sec = pool[rng.below(pool.len())].min(top);
            put(&mut rec, so, sw, sec);
            if let Some((uo, uw)) = us {
                let u: i128 = [0, 0, 1, 500_000, 999_999][rng.below(5)];
                put(&mut rec, uo, uw, u);
            }
            put_text(&mut rec, io, il, &format!("r{}", i));
            for (j, (o, l)) in texts.iter().enumerate() {
                put_text(&mut rec, *o, *l, ["pts/3", "tty1", "host.example", "10.0.0.7"][(i + j) % 4]);
            }
            if let Some(o) = utt {
                put(&mut rec, o, 2, [7i128, 8, 6, 1, 2][rng.below(5)]);
            }
        }
        let sec = get(&rec, so, sw, ssigned);
        let usec = match us { Some((uo, uw)) => get(&rec, uo, uw, true), None => 0 };
        times.push((sec, usec));
        data.extend_from_slice(&rec);
    }
    let d = dir.join(format!("ff{}", k));
    let _ = std::fs::create_dir_all(&d);
    let p = d.join(name);
    std::fs::write(&p, &data).unwrap();
    let fpath = p.to_string_lossy().to_string();
    let ft: FileType = match path_to_filetype(std::path::Path::new(&fpath), true) {
        PathToFiletypeResult::Filetype(ft) => ft,
        _ => return ("skip:not-a-plain-filetype".into(), name.into()),
    };
    let tz = FixedOffset::east_opt(0).unwrap();
    // window (C03): two of three files get bounds ON, or 1 microsecond beside, the instants of their own records
    // (seconds AND microseconds: a layout whose microseconds are dropped from the window key selects wrongly)
    let usable: Vec<(i128, i128)> = times.iter().copied().filter(|tv| *tv != (0, 0) && tv.0 > 0 && tv.0 < 8_000_000_000 && (0..1_000_000).contains(&tv.1)).collect();
    let mut bound = |rng: &mut Rng| -> Option<(i128, i128)> {
        if usable.is_empty() || rng.chance(1, 4) { return None; }
        let (s0, u0) = usable[rng.below(usable.len())];
        let total = s0 * 1_000_000 + u0 + [0i128, 0, 0, 1, -1][rng.below(5)];
        Some((total.div_euclid(1_000_000), total.rem_euclid(1_000_000)))
    };
    let (wa, wb) = if (k / L.len()) % 3 == 0 { (None, None) } else { (bound(rng), bound(rng)) };
    let to_dt = |b: Option<(i128, i128)>| b.map(|(s_, u_)| chrono::DateTime::from_timestamp(s_ as i64, (u_ * 1000) as u32).unwrap().with_timezone(&tz));
    let (dta, dtb) = (to_dt(wa), to_dt(wb));
    let case = format!("layout {:?} name {} records {} window {:?}..{:?} times {:?} file {}", t, name, n, wa, wb, times, hex(&data));
    let fp2 = fpath.clone();
    let res = guarded(move || {
        let mut r = match FixedStructReader::new(fp2, ft, 0x200, tz, dta, dtb) {
            ResultFixedStructReaderNew::FileOk(r) => r,
            other => return Err(format!("{:?}", other).chars().take(60).collect::<String>()),
        };
        let det = r.fixedstruct_type();
        let mut order: Vec<u64> = Vec::new();
        let mut err = None;
        if let Some(mut fo) = r.fileoffset_first() {
            let mut buffer = [0u8; ENTRY_SZ_MAX];
            let mut guard = 0;
            loop {
                guard += 1;
                if guard > 10_000 { err = Some("loop".to_string()); break; }
                match r.process_entry_at(fo, &mut buffer) {
                    ResultS3::Found((fo_next, entry)) => { order.push(entry.fileoffset_begin()); fo = fo_next; }
                    ResultS3::Done => break,
                    ResultS3::Err((fo_opt, e)) => {
                        err = Some(format!("{}", e).chars().take(80).collect());
                        match fo_opt { Some(f) => fo = f, None => break }
                    }
                }
            }
        }
        Ok((det, order, err))
    });
    let _ = std::fs::remove_dir_all(&d);
    let (det, order, err) = match res {
        Err(m) => return ("fixed:panic".into(), format!("{} :: {}", m, case)),
        Ok(Err(e)) => {
            // "nothing inside the window" is a wrong answer when some non-null record IS inside it
            let inwin0 = |tv: &(i128, i128)| wa.map_or(true, |a| *tv >= a) && wb.map_or(true, |b| *tv <= b);
            if e.contains("WithinDtFilters") && times.iter().any(|tv| *tv != (0, 0) && inwin0(tv)) {
                return ("fixed:window-selects-wrong-records".into(), format!("reader says no record inside the window :: {}", case));
            }
            // every record null, or the scorer rejected the file: not this oracle's business
            return (format!("skip:new-{}", e.split(|c: char| !c.is_alphanumeric()).next().unwrap_or("err")), String::new());
        }
        Ok(Ok(x)) => x,
    };
    if det != t {
        return (format!("skip:detected-as-{:?}", det), String::new());
    }
    if let Some(e) = err {
        return ("fixed:reader-error".into(), format!("{} :: {}", e, case));
    }
    // expected: non-null records in stable order of (sec, usec)
    let inwin = |tv: &(i128, i128)| wa.map_or(true, |a| *tv >= a) && wb.map_or(true, |b| *tv <= b);
    let mut exp: Vec<(i128, i128, u64)> = times.iter().enumerate().filter(|(_, tv)| **tv != (0, 0) && inwin(tv))
        .map(|(i, tv)| (tv.0, tv.1, (i * sz) as u64)).collect();
    exp.sort_by_key(|x| (x.0, x.1, x.2));
    let expo: Vec<u64> = exp.iter().map(|x| x.2).collect();
    if order == expo {
        return ("ok".into(), format!("{:?} {} records", t, n));
    }
    let mut a = order.clone();
    a.sort();
    let mut b = expo.clone();
    b.sort();
    if a != b && (wa.is_some() || wb.is_some()) {
        return ("fixed:window-selects-wrong-records".into(), format!("printed offsets {:?} expected {:?} :: {}", order, expo, case));
    }
    if a != b {
        return ("fixed:record-missing-or-repeated".into(), format!("printed offsets {:?} expected {:?} :: {}", order, expo, case));
    }
    ("fixed:order-differs-from-stable-sort".into(), format!("printed offsets {:?} expected {:?} :: {}", order, expo, case))
}

pub fn run(opts: &Opts, out: &mut dyn Write) {
    quiet_panics();
    let mut rng = Rng::new(opts.seed.wrapping_mul(0x2545F4914F6CDD1D).wrapping_add(4242));
    let dir = tmpdir();
    for k in 0..opts.n {
        let li = k % L.len();
        let (sig, detail) = one(&mut rng, k, li, &dir);
        if sig.starts_with("skip:") {
            writeln!(out, "S\t{}\t{:?}", sig, L[li].0).unwrap();
        } else {
            writeln!(out, "O\t{}\t{}", sig, detail).unwrap();
        }
    }
}

pub fn replay_line(_req: &str) -> String {
    "no-replay".to_string()
}
