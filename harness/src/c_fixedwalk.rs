//! component `fwalk`: the record walk of the REAL `FixedStructReader` and direct `BlockReader::read_data_to_buffer`
//! calls, against `S4V.Model.FixedWalk` (driver executable `drv_fwalk`).
//!
//! request   fwalk rd <plain|gz> <bs> <hex d> <beg:end:oneblock:buflen,…>
//!             one `BlockReader::new(path, Text/<kind>, bs)`, then `read_data_to_buffer(beg, end, oneblock, &mut [0; buflen])` in
//!             this order (block dropping as `new` leaves it: on; a gz reader asked out of order answers Done / Err / panics)
//! reply     r,r,…   r = F<n>:<hash of buffer[..n]> | D | E | P    (the sequence stops after P = panic)
//!
//! request   fwalk walk <kind> <plain|gz> <bs> <after sec:usec|n> <before sec:usec|n> <hex d>
//!             d = a synthesised accounting file (see c_fixedfile.rs) written under the name its kind needs (+ `.gz`);
//!             `FixedStructReader::new(path, filetype, bs, +00:00, after, before)`, then the loop of `exec_fixedstructprocessor`
//!             (`fileoffset_first`, `process_entry_at` until Done / unrecoverable Err). <kind> = the `FileTypeFixedStruct` the
//!             file NAME maps to (Acct|AcctV3|Lastlog|Lastlogx|Utmp|Utmpx); which layout is chosen is part of the reply.
//! reply     new:novalid | new:notinwindow | new:io | new:other |
//!           ok layout=<FixedStructType chosen> first=<fo|none> seq=<fo:hash of the record's raw bytes:L|l,…|-> end=<done|errstop|panic> ooo=<entries_out_of_order>
//!              maxlen=<map_tvpair_fo_max_len> hits=<cache hits> miss=<cache misses> proc=<entries_processed> dok=<drop_entry_ok>
//!              derr=<drop_entry_errors> fef=<first_entry_fileoffset>       (`!` in seq = a recoverable Err((Some(fo), _)))
//! hash      h = 7; h = (h * 31 + byte) mod 2^32
use crate::c_line::tmpdir;
use crate::util::*;
use chrono::{FixedOffset, TimeZone};
use s4lib::common::{FileType, FileTypeArchive, FileTypeTextEncoding, ResultS3};
use s4lib::data::fixedstruct::{FixedStruct, FixedStructType, ENTRY_SZ_MAX};
use s4lib::readers::blockreader::BlockReader;
use s4lib::readers::filepreprocessor::{path_to_filetype, PathToFiletypeResult};
use s4lib::readers::fixedstructreader::{FixedStructReader, ResultFixedStructReaderNew};
use std::collections::BTreeMap;
use std::io::Write;

use FixedStructType::*;

fn fwhash(b: &[u8]) -> u32 {
    let mut h: u32 = 7;
    for x in b {
        h = h.wrapping_mul(31).wrapping_add(*x as u32);
    }
    h
}

fn gz(d: &[u8]) -> Vec<u8> {
    let mut e = flate2::GzBuilder::new().mtime(0).write(Vec::new(), flate2::Compression::new(6));
    e.write_all(d).unwrap();
    e.finish().unwrap()
}

fn case_dir(tag: &str) -> std::path::PathBuf {
    static N: std::sync::atomic::AtomicUsize = std::sync::atomic::AtomicUsize::new(0);
    let k = N.fetch_add(1, std::sync::atomic::Ordering::SeqCst);
    let d = tmpdir().join(format!("fw-{}-{}-{}", std::process::id(), tag, k));
    std::fs::create_dir_all(&d).unwrap();
    d
}

// ------------------------------------------------------------------------------------------------ rd

fn replay_rd(w: &[&str]) -> String {
    if w.len() != 5 { return "bad-op".into(); }
    let kind = w[1];
    let bs: u64 = match w[2].parse() { Ok(v) => v, Err(_) => return "bad-op".into() };
    let d = unhex(w[3]);
    let calls: Vec<(u64, u64, bool, usize)> = if w[4] == "-" { vec![] } else {
        w[4].split(',').map(|c| {
            let p: Vec<&str> = c.split(':').collect();
            (p[0].parse().unwrap(), p[1].parse().unwrap(), p[2] == "1", p[3].parse().unwrap())
        }).collect()
    };
    let dir = case_dir("rd");
    let (path, ft) = match kind {
        "plain" => {
            let p = dir.join("data.log");
            std::fs::write(&p, &d).unwrap();
            (p, FileType::Text { archival_type: FileTypeArchive::Normal, encoding_type: FileTypeTextEncoding::Utf8Ascii })
        }
        "gz" => {
            let p = dir.join("data.log.gz");
            std::fs::write(&p, gz(&d)).unwrap();
            (p, FileType::Text { archival_type: FileTypeArchive::Gz, encoding_type: FileTypeTextEncoding::Utf8Ascii })
        }
        _ => return "bad-op".into(),
    };
    let fpath = path.to_string_lossy().to_string();
    let res = guarded(move || {
        let mut out: Vec<String> = vec![];
        let mut br = match BlockReader::new(fpath, ft, bs) {
            Ok(b) => b,
            Err(_) => return vec!["err-new".to_string()],
        };
        // BlockReader is not UnwindSafe-friendly across calls; a panic inside one call ends the sequence
        for (beg, end, one, buflen) in calls {
            let mut buf = vec![0xAAu8; buflen];
            let r = std::panic::catch_unwind(std::panic::AssertUnwindSafe(|| br.read_data_to_buffer(beg, end, one, &mut buf)));
            match r {
                Ok(ResultS3::Found(n)) => out.push(format!("F{}:{}", n, fwhash(&buf[..n.min(buf.len())]))),
                Ok(ResultS3::Done) => out.push("D".into()),
                Ok(ResultS3::Err(_)) => out.push("E".into()),
                Err(_) => { out.push("P".into()); break; }
            }
        }
        out
    });
    let _ = std::fs::remove_dir_all(&dir);
    match res {
        Ok(v) => v.join(","),
        Err(_) => "P".into(),
    }
}

// ------------------------------------------------------------------------------------------------ walk

/// as in c_fixedfile.rs: layout, file name, seconds (offset, width, signed), microseconds (offset, width), index text field,
/// other text fields, `ut_type` offset
#[allow(clippy::type_complexity)]
const L: [(FixedStructType, &str, (usize, usize, bool), Option<(usize, usize)>, (usize, usize), &[(usize, usize)], Option<usize>); 16] = [
    (Fs_Freebsd_x8664_Utmpx, "utmpx", (8, 8, true), Some((16, 8)), (36, 32), &[(24, 8), (68, 16), (84, 128)], Some(0)),
    (Fs_Linux_Arm64Aarch64_Lastlog, "lastlog", (0, 8, true), None, (8, 32), &[(40, 256)], None),
    (Fs_Linux_Arm64Aarch64_Utmpx, "wtmp", (344, 8, true), Some((352, 8)), (44, 32), &[(8, 32), (40, 4), (76, 256)], Some(0)),
    (Fs_Linux_x86_Acct, "acct", (8, 4, false), None, (36, 17), &[], None),
    (Fs_Linux_x86_Acct_v3, "pacct", (24, 4, false), None, (48, 16), &[], None),
    (Fs_Linux_x86_Lastlog, "lastlog", (0, 4, true), None, (4, 32), &[(36, 256)], None),
    (Fs_Linux_x86_Utmpx, "wtmp", (340, 4, true), Some((344, 4)), (44, 32), &[(8, 32), (40, 4), (76, 256)], Some(0)),
    (Fs_Netbsd_x8632_Acct, "acct", (24, 8, true), None, (0, 16), &[], None),
    (Fs_Netbsd_x8632_Lastlogx, "lastlogx", (0, 8, true), Some((8, 4)), (12, 32), &[(44, 256)], None),
    (Fs_Netbsd_x8632_Utmpx, "utmpx", (464, 8, true), Some((472, 4)), (0, 32), &[(32, 4), (36, 32), (68, 256)], Some(326)),
    (Fs_Netbsd_x8664_Lastlog, "lastlog", (0, 8, true), None, (8, 8), &[(16, 16)], None),
    (Fs_Netbsd_x8664_Lastlogx, "lastlogx", (0, 8, true), Some((8, 4)), (16, 32), &[(48, 256)], None),
    (Fs_Netbsd_x8664_Utmp, "utmp", (32, 8, true), None, (8, 8), &[(0, 8), (16, 16)], None),
    (Fs_Netbsd_x8664_Utmpx, "utmpx", (464, 8, true), Some((472, 4)), (0, 32), &[(32, 4), (36, 32), (68, 256)], Some(326)),
    (Fs_Openbsd_x86_Lastlog, "lastlog", (0, 8, true), None, (8, 8), &[(16, 256)], None),
    (Fs_Openbsd_x86_Utmp, "utmp", (296, 8, true), None, (8, 32), &[(0, 8), (40, 256)], None),
];

fn put(rec: &mut [u8], off: usize, width: usize, v: i128) {
    let b = v.to_le_bytes();
    rec[off..off + width].copy_from_slice(&b[..width]);
}

fn put_text(rec: &mut [u8], off: usize, len: usize, s: &str) {
    let b = s.as_bytes();
    let n = b.len().min(len.saturating_sub(1));
    rec[off..off + n].copy_from_slice(&b[..n]);
}

fn raw_bytes(fs: &FixedStruct) -> Vec<u8> {
    let n = fs.fixedstructptr.size();
    let p = &*fs.fixedstructptr as *const dyn s4lib::data::fixedstruct::FixedStructTrait as *const u8;
    // the boxed value is the `#[repr(C)]` record struct itself (size() bytes)
    unsafe { std::slice::from_raw_parts(p, n).to_vec() }
}

fn parse_tv(s: &str) -> Option<(i64, i64)> {
    if s == "n" { return None; }
    let p: Vec<&str> = s.split(':').collect();
    Some((p[0].parse().unwrap(), p[1].parse().unwrap()))
}

fn file_name_of(kind: &str) -> Option<&'static str> {
    match kind { "Acct" => Some("acct"), "AcctV3" => Some("pacct"), "Lastlog" => Some("lastlog"), "Lastlogx" => Some("lastlogx"),
                 "Utmp" => Some("utmp"), "Utmpx" => Some("utmpx"), _ => None }
}

/// run the real reader; returns (file kind per path_to_filetype, reply)
fn run_walk(name: &str, kind: &str, bs: u64, a: Option<(i64, i64)>, b: Option<(i64, i64)>, d: &[u8]) -> (Option<String>, String) {
    let dir = case_dir("wk");
    let p = if kind == "gz" { dir.join(format!("{}.gz", name)) } else { dir.join(name) };
    std::fs::write(&p, if kind == "gz" { gz(d) } else { d.to_vec() }).unwrap();
    let fpath = p.to_string_lossy().to_string();
    let ft: FileType = match path_to_filetype(std::path::Path::new(&fpath), true) {
        PathToFiletypeResult::Filetype(ft) => ft,
        _ => { let _ = std::fs::remove_dir_all(&dir); return (None, "new:other".into()); }
    };
    let fkind = match ft {
        FileType::FixedStruct { fixedstruct_type, .. } => format!("{:?}", fixedstruct_type),
        _ => { let _ = std::fs::remove_dir_all(&dir); return (None, "new:other".into()); }
    };
    let tz = FixedOffset::east_opt(0).unwrap();
    let dt = |t: Option<(i64, i64)>| t.map(|(s, u)| tz.timestamp_opt(s, (u as u32) * 1000).unwrap());
    let (da, db) = (dt(a), dt(b));
    let res = guarded(move || {
        let mut r = match FixedStructReader::new(fpath, ft, bs, tz, da, db) {
            ResultFixedStructReaderNew::FileOk(r) => r,
            ResultFixedStructReaderNew::FileErrNoValidFixedStruct => return "new:novalid".to_string(),
            ResultFixedStructReaderNew::FileErrNoFixedStructWithinDtFilters => return "new:notinwindow".to_string(),
            ResultFixedStructReaderNew::FileErrIo(_) => return "new:io".to_string(),
            _ => return "new:other".to_string(),
        };
        let det = format!("{:?}", r.fixedstruct_type());
        let first = r.fileoffset_first();
        let mut seq: Vec<String> = vec![];
        let mut end = "done";
        if let Some(mut fo) = first {
            let mut buffer = [0u8; ENTRY_SZ_MAX];
            let mut guard = 0;
            loop {
                guard += 1;
                if guard > 100_000 { end = "fuel"; break; }
                let step = std::panic::catch_unwind(std::panic::AssertUnwindSafe(|| r.process_entry_at(fo, &mut buffer)));
                match step {
                    Ok(ResultS3::Found((fo_next, entry))) => {
                        let il = r.is_last(&entry);
                        seq.push(format!("{}:{}:{}", entry.fileoffset_begin(), fwhash(&raw_bytes(&entry)), if il { "L" } else { "l" }));
                        fo = fo_next;
                    }
                    Ok(ResultS3::Done) => break,
                    Ok(ResultS3::Err((fo_opt, _e))) => {
                        match fo_opt { Some(f) => { seq.push("!".into()); fo = f; } None => { end = "errstop"; break; } }
                    }
                    Err(_) => { end = "panic"; break; }
                }
            }
        }
        let s = r.summary();
        let rep = format!("ok layout={} first={} seq={} end={} ooo={} maxlen={} hits={} miss={} proc={} dok={} derr={} fef={}",
            det, match first { Some(f) => f.to_string(), None => "none".into() },
            if seq.is_empty() { "-".to_string() } else { seq.join(",") }, end,
            s.fixedstructreader_entries_out_of_order, s.fixedstructreader_map_tvpair_fo_max_len,
            s.fixedstructreader_utmp_entries_hit, s.fixedstructreader_utmp_entries_miss, s.fixedstructreader_utmp_entries,
            s.fixedstructreader_drop_entry_ok, s.fixedstructreader_drop_entry_errors, s.fixedstructreader_first_entry_fileoffset);
        rep
    });
    let _ = std::fs::remove_dir_all(&dir);
    match res {
        Ok(x) => (Some(fkind), x),
        Err(_) => (Some(fkind), "new:panic".into()),
    }
}

fn replay_walk(w: &[&str]) -> String {
    if w.len() != 7 { return "bad-op".into(); }
    let name = match file_name_of(w[1]) { Some(n) => n, None => return "bad-kind".into() };
    let bs: u64 = match w[3].parse() { Ok(v) => v, Err(_) => return "bad-op".into() };
    let d = unhex(w[6]);
    run_walk(name, w[2], bs, parse_tv(w[4]), parse_tv(w[5]), &d).1
}

pub fn replay_line(req: &str) -> String {
    let w: Vec<&str> = req.split_whitespace().collect();
    if w.len() < 2 || w[0] != "fwalk" { return "bad-op".into(); }
    match w[1] {
        "rd" => replay_rd(&w[1..]),
        "walk" => replay_walk(&w[1..]),
        _ => "bad-op".into(),
    }
}

fn gen_rd(rng: &mut Rng) -> String {
    let kind = if rng.chance(1, 2) { "plain" } else { "gz" };
    let len = if kind == "gz" { 1 + rng.below(48) } else { rng.below(49) };
    let d: Vec<u8> = (0..len).map(|_| rng.next() as u8).collect();
    let bs = 1 + match rng.below(4) { 0 => rng.below(3), 1 => rng.below(8), 2 => rng.below(len + 4), _ => len + rng.below(3) };
    let ncalls = 1 + rng.below(6);
    let mut calls = vec![];
    let mut cursor = 0usize;
    let ordered = kind == "gz" && rng.chance(1, 2);
    for _ in 0..ncalls {
        let beg = if ordered { cursor + rng.below(4) } else { rng.below(len + 3) };
        let span = match rng.below(5) { 0 => 0, 1 => 1, 2 => rng.below(bs + 2), 3 => rng.below(3 * bs + 2), _ => rng.below(len + 4) };
        let end = if rng.chance(1, 25) { beg.saturating_sub(rng.below(3)) } else { beg + span };
        cursor = end.max(beg);
        let need = end.saturating_sub(beg);
        let buflen = match rng.below(8) { 0 => 0, 1 => need.saturating_sub(1), 2 => rng.below(need + 2), _ => need + rng.below(3) };
        calls.push(format!("{}:{}:{}:{}", beg, end, if rng.chance(1, 5) { 1 } else { 0 }, buflen));
    }
    format!("fwalk rd {} {} {} {}", kind, bs, hex(&d), calls.join(","))
}

fn gen_walk(rng: &mut Rng, k: usize) -> (String, String) {
    let li = k % L.len();
    let (t, name, (so, sw, ssigned), us, (io, il), texts, utt) = L[li];
    let sz = t.size();
    let kind = if rng.chance(2, 3) { "plain" } else { "gz" };
    let mut n = 1 + rng.below(9);
    let fsz0 = n * sz;
    let bs: usize = 1 + match rng.below(12) {
        0 => 0, 1 => 1, 2 => 2, 3 => rng.below(16), 4 => sz - 2, 5 => sz - 1, 6 => sz, 7 => 2 * sz + rng.below(7),
        8 => fsz0 - 2, 9 => fsz0 - 1, 10 => fsz0 + rng.below(9), _ => 0x1ff,
    };
    // keep the number of blocks moderate for the model driver
    let cap = (500 * bs / sz).max(1);
    if n > cap { n = cap; }
    let base: i128 = 1_600_000_000 + rng.below(1000) as i128;
    let top: i128 = if sw == 4 && ssigned { (1 << 31) - 1 } else if sw == 4 { (1u64 << 32) as i128 - 1 } else { 8_000_000_000 };
    let mut pool: Vec<i128> = vec![base, base + 1, base + 1, base + 86_400, base - 3600, base + 7];
    if rng.chance(1, 4) && top > (1 << 31) { pool.push((1 << 31) + rng.below(1000) as i128); }
    let mut data: Vec<u8> = Vec::with_capacity(n * sz);
    for i in 0..n {
        let mut rec = vec![0u8; sz];
        let shape = rng.below(14);
        if shape == 0 {
            // all-zero record
        } else if shape == 1 {
            rec.iter_mut().for_each(|b| *b = 0xFF);
        } else {
            let sec = pool[rng.below(pool.len())].min(top);
            // shape 2: time (0, 0) in an otherwise filled record (null by time, not by bytes)
            put(&mut rec, so, sw, if shape == 2 { 0 } else { sec });
            if let Some((uo, uw)) = us {
                let u: i128 = if shape == 2 { 0 } else { [0, 0, 1, 500_000, 999_999][rng.below(5)] };
                put(&mut rec, uo, uw, u);
            }
            put_text(&mut rec, io, il, &format!("r{}", i));
            for (j, (o, l)) in texts.iter().enumerate() {
                put_text(&mut rec, *o, *l, ["pts/3", "tty1", "host.example", "10.0.0.7"][(i + j) % 4]);
            }
            if let Some(o) = utt {
                put(&mut rec, o, 2, [7i128, 8, 6, 1, 2][rng.below(5)]);
            }
        }
        data.extend_from_slice(&rec);
    }
    let pick = |rng: &mut Rng| -> Option<(i64, i64)> {
        if rng.chance(3, 5) { None } else {
            let s = pool[rng.below(pool.len())].min(top) as i64 + [0i64, 0, -1, 1][rng.below(4)];
            Some((s, [0i64, 0, 1, 500_000, 999_999][rng.below(5)]))
        }
    };
    let (a, b) = (pick(rng), pick(rng));
    let (fk, rep) = run_walk(name, kind, bs as u64, a, b, &data);
    let layout = fk.unwrap_or_else(|| "?".to_string());
    let f = |t: Option<(i64, i64)>| t.map(|(s, u)| format!("{}:{}", s, u)).unwrap_or_else(|| "n".into());
    (format!("fwalk walk {} {} {} {} {} {}", layout, kind, bs, f(a), f(b), hex(&data)), rep)
}

pub fn run(opts: &Opts, out: &mut dyn Write) {
    quiet_panics();
    let mut rng = Rng::new(opts.seed.wrapping_mul(0x3C6EF372FE94F82B).wrapping_add(909));
    let mut dist: BTreeMap<String, usize> = BTreeMap::new();
    for k in 0..opts.n {
        if k % 3 == 0 {
            let req = gen_rd(&mut rng);
            let w: Vec<&str> = req.split_whitespace().collect();
            let rep = replay_rd(&w[1..]);
            for r in rep.split(',') {
                *dist.entry(format!("rd:{}", &r[..1.min(r.len())])).or_default() += 1;
            }
            writeln!(out, "{}\t{}", req, rep).unwrap();
        } else {
            let (req, rep) = gen_walk(&mut rng, k);
            let key = if rep.starts_with("ok") {
                let w: Vec<&str> = req.split_whitespace().collect();
                let e = rep.split_whitespace().find(|x| x.starts_with("end=")).unwrap_or("end=?");
                format!("walk:{}:{}", w[3], e)
            } else { format!("walk:{}", rep) };
            *dist.entry(key).or_default() += 1;
            if rep.contains(",!") || rep.contains("=!") { *dist.entry("walk:has-recoverable-err".into()).or_default() += 1; }
            if rep.contains(" hits=0 ") { *dist.entry("walk:no-cache-hit".into()).or_default() += 1; }
            writeln!(out, "{}\t{}", req, rep).unwrap();
        }
    }
    let j: Vec<String> = dist.iter().map(|(k, v)| format!("\"{}\": {}", k, v)).collect();
    writeln!(out, "# dist {{{}}}", j.join(", ")).unwrap();
}
