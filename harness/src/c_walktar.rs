//! component `walktar`: REAL tar archives, reached by a directory walk and named explicitly.
//!   `walk tar <u> <dirs> <tar name> <siblings> <end> <members>`
//! builds `<tmp>/r/<dirs…>/<tar name>` (a tar file written here, header by header) next to the
//! `<siblings>` (plain files holding one log line; a sibling named `*.tar` therefore holds non-tar
//! bytes) and prints
//!   `<results of process_path("<tmp>/r", u)>#<results of process_path("<tmp>/r/<dirs…>/<tar name>", u)>`
//! each `;`-joined `<hex of the returned path relative to <tmp>/r/>=<outcome>` (`-` when empty;
//! outcomes as in `c_walk`).
//!   `<u>`        `0`/`1`: the `unparseable_are_text` argument of both calls (`main` passes `true`)
//!   `<dirs>`     `-` or `,`-joined hex directory names below the root
//!   `<siblings>` `-` or `,`-joined hex file names
//!   `<end>`      `0` two zero blocks, `4` plain EOF after the last member (both well-formed);
//!                `1` 100 junk bytes, `2` a 512-byte block that is no header, `3` data of the last
//!                member cut short (falls back to `1` when it has none): the iteration ends in an error
//!   `<members>`  `-` or `,`-joined `<hex stored path>:<type>:<z|n>:<fmt>`; `<type>` `r` = typeflag `0`,
//!                `R` = typeflag NUL (both regular), else the typeflag itself (`1` hard link, `2` symlink,
//!                `5` directory, `6` fifo, `7` contiguous); `z` = size 0, `n` = some data;
//!                `<fmt>` `u` ustar, `p` ustar with the directory part in the prefix field, `g` GNU, `o` v7.
//!                Stored paths longer than 100 bytes get a GNU `L` long-name record in front.
use crate::c_walk::outcome;
use crate::util::*;
use s4lib::readers::filepreprocessor::process_path;
use std::ffi::OsStr;
use std::io::Write;
use std::os::unix::ffi::OsStrExt;

const CONTENT: &[u8] = b"2020-01-01 00:00:00 hello\n";

#[derive(Clone, Debug)]
pub struct Member {
    name: Vec<u8>,
    ty: char,
    zero: bool,
    fmt: char,
}

#[derive(Clone, Debug)]
pub struct Case {
    u: bool,
    dirs: Vec<Vec<u8>>,
    tname: Vec<u8>,
    sibs: Vec<Vec<u8>>,
    end: u8,
    members: Vec<Member>,
}

fn hexlist(v: &[Vec<u8>]) -> String {
    if v.is_empty() { "-".to_string() } else { v.iter().map(|x| hex(x)).collect::<Vec<_>>().join(",") }
}

fn unhexlist(s: &str) -> Vec<Vec<u8>> {
    if s == "-" { vec![] } else { s.split(',').map(unhex).collect() }
}

pub fn encode(c: &Case) -> String {
    let mems = if c.members.is_empty() {
        "-".to_string()
    } else {
        c.members.iter().map(|m| format!("{}:{}:{}:{}", hex(&m.name), m.ty, if m.zero { 'z' } else { 'n' }, m.fmt)).collect::<Vec<_>>().join(",")
    };
    format!("walk tar {} {} {} {} {} {}", if c.u { 1 } else { 0 }, hexlist(&c.dirs), hex(&c.tname), hexlist(&c.sibs), c.end, mems)
}

pub fn decode(w: &[&str]) -> Option<Case> {
    if w.len() != 6 { return None; }
    let u = match w[0] { "0" => false, "1" => true, _ => return None };
    let end: u8 = w[4].parse().ok()?;
    let mut members = vec![];
    if w[5] != "-" {
        for tok in w[5].split(',') {
            let f: Vec<&str> = tok.split(':').collect();
            if f.len() != 4 { return None; }
            let ty = f[1].chars().next()?;
            let zero = match f[2] { "z" => true, "n" => false, _ => return None };
            members.push(Member { name: unhex(f[0]), ty, zero, fmt: f[3].chars().next()? });
        }
    }
    Some(Case { u, dirs: unhexlist(w[1]), tname: unhex(w[2]), sibs: unhexlist(w[3]), end, members })
}

// ------------------------------------------------------------------ tar bytes

fn pad512(v: &mut Vec<u8>) {
    while v.len() % 512 != 0 { v.push(0); }
}

fn raw_header(name: &[u8], prefix: &[u8], typeflag: u8, size: u64, fmt: char, link: bool) -> Vec<u8> {
    let mut h = match fmt {
        'u' | 'p' => tar::Header::new_ustar(),
        'g' => tar::Header::new_gnu(),
        _ => tar::Header::new_old(),
    };
    {
        let old = h.as_old_mut();
        old.name = [0u8; 100];
        let n = name.len().min(100);
        old.name[..n].copy_from_slice(&name[..n]);
        old.linkflag = [typeflag];
        if link {
            old.linkname = [0u8; 100];
            old.linkname[..6].copy_from_slice(b"target");
        }
    }
    if !prefix.is_empty() {
        if let Some(us) = h.as_ustar_mut() {
            let n = prefix.len().min(155);
            us.prefix[..n].copy_from_slice(&prefix[..n]);
        }
    }
    h.set_mode(0o644);
    h.set_uid(0);
    h.set_gid(0);
    h.set_mtime(1_700_000_000);
    h.set_size(size);
    h.set_cksum();
    h.as_bytes().to_vec()
}

fn data_len(i: usize, m: &Member) -> usize {
    if m.zero { 0 } else { 1 + (i * 37 + m.name.len() * 101) % 700 }
}

pub fn tar_bytes(c: &Case) -> Vec<u8> {
    let mut out: Vec<u8> = vec![];
    let mut last_data: Option<(usize, usize)> = None; // (start of data, len)
    for (i, m) in c.members.iter().enumerate() {
        let typeflag: u8 = match m.ty { 'r' => b'0', 'R' => 0, t => t as u8 };
        let size = data_len(i, m);
        let (prefix, name): (&[u8], &[u8]) = if m.fmt == 'p' && m.name.len() <= 100 {
            match m.name.iter().rposition(|&b| b == b'/') {
                Some(p) if p > 0 && p + 1 < m.name.len() => (&m.name[..p], &m.name[p + 1..]),
                _ => (&[], &m.name[..]),
            }
        } else {
            (&[], &m.name[..])
        };
        if m.name.len() > 100 {
            // GNU long name record: data = the name and a NUL
            out.extend(raw_header(b"././@LongLink", &[], b'L', (m.name.len() + 1) as u64, 'g', false));
            out.extend(&m.name);
            out.push(0);
            pad512(&mut out);
        }
        out.extend(raw_header(name, prefix, typeflag, size as u64, m.fmt, m.ty == '1' || m.ty == '2'));
        let start = out.len();
        for k in 0..size { out.push(if k % 27 == 26 { b'\n' } else { b'a' + (k % 26) as u8 }); }
        pad512(&mut out);
        last_data = if size > 0 { Some((start, size)) } else { None };
    }
    match c.end {
        0 => out.extend(std::iter::repeat(0u8).take(1024)),
        4 => {}
        2 => out.extend(std::iter::repeat(b'x').take(512)),
        3 => match last_data {
            Some((start, len)) => out.truncate(start + len / 2),
            None => out.extend(std::iter::repeat(b'x').take(100)),
        },
        _ => out.extend(std::iter::repeat(b'x').take(100)),
    }
    out
}

// ------------------------------------------------------------------ run one case

fn results_of(arg: String, u: bool, prefix: &str) -> String {
    let results = match guarded(move || process_path(&arg, u)) {
        Ok(r) => r,
        Err(m) => return format!("panic {}", m),
    };
    let mut parts: Vec<String> = vec![];
    for r in results.iter() {
        let (p, o) = outcome(r);
        let rel: &str = match p.strip_prefix(prefix) {
            Some(rel) => rel,
            None => return format!("outside-root {}", hex(p.as_bytes())),
        };
        parts.push(format!("{}={}", hex(rel.as_bytes()), o));
    }
    if parts.is_empty() { "-".to_string() } else { parts.join(";") }
}

pub fn case_impl(c: &Case) -> String {
    let tmp = match tempfile::Builder::new().prefix("s4h-wtar-").tempdir() {
        Ok(t) => t,
        Err(e) => return format!("io {}", e.kind()),
    };
    let root = tmp.path().join("r");
    let mut dir = root.clone();
    for d in c.dirs.iter() { dir = dir.join(OsStr::from_bytes(d)); }
    let tpath = dir.join(OsStr::from_bytes(&c.tname));
    let r: std::io::Result<()> = (|| {
        std::fs::create_dir_all(&dir)?;
        std::fs::write(&tpath, tar_bytes(c))?;
        for s in c.sibs.iter() { std::fs::write(dir.join(OsStr::from_bytes(s)), CONTENT)?; }
        Ok(())
    })();
    if let Err(e) = r { return format!("io {:?}", e.kind()); }
    let root_s: String = root.to_str().unwrap().to_string();
    let prefix = format!("{}/", root_s);
    let w = results_of(root_s, c.u, &prefix);
    let n = match tpath.to_str() {
        Some(s) => results_of(s.to_string(), c.u, &prefix),
        None => "not-utf8".to_string(),
    };
    format!("{}#{}", w, n)
}

// ------------------------------------------------------------------ generator

const MEMBER_NAMES: &[&[u8]] = &[
    b"app.log", b"dump.bin", b"run.sh", b"pic.png", b"index.html", b"sub/inner.log", b"sub/deep/x.txt", b"sub/deep/core.bin",
    b"UPPER.LOG", b"Mixed.Bin", b"IMG.PNG", b".hidden", b".h.log", b".cfg/x.sh", b"x.log.gz", b"y.xz", b"z.log.bz2", b"w.lz4",
    b"in.tar", b"t.tar.gz", b"sub/n.TAR", b"sys.evtx", b"e.evtx.gz", b"user.journal", b"j.journal.xz", b"wtmp", b"wtmp.1", b"utmp.gz",
    b"var/log/lastlog", b"btmp.bin", b"messages", b"messages.1", b"noext", b"a b.log", "日本.log".as_bytes(), "é.png".as_bytes(),
    b"\xFF.log", b"x\xC3", b"d\xFF/q.exe", b"./dot.log", b"./s/dot.so", b"-", b"~", b"a.log~", b"lib.so", b"lib.so.1", b"README", b"core.1.gz",
    b"notes.md", b"data.json", b"m.zip", b"k.7z", b"log.old", b"p.py", b"acct", b"pacct.2", b"a.", b"..x", b"-x.bin", b"o.bin-",
    b"very/long/path/that/needs/a/gnu/long/name/record/because/it/has/more/than/one/hundred/bytes/in/it/really/it/does/dump.bin",
    b"very/long/path/that/needs/a/gnu/long/name/record/because/it/has/more/than/one/hundred/bytes/in/it/really/it/does/app.log",
];

const MEMBER_DIRS: &[&[u8]] = &[b"sub/", b"sub/deep/", b"var/", b"d.log/", b"x.bin/", b"./"];

const TAR_NAMES: &[&[u8]] = &[
    b"data.tar", b"logs.tar", b"X.TAR", b"b.tar.1", b"old.tar.old", b"-x.tar", b"a b.tar", "é.tar".as_bytes(), b".h.tar", b"t.tar.gz",
    b"bin.tar", b"x.bin.tar",
];

const DIRS: &[&[u8]] = &[b"a", b"sub dir", b".hid", "日本".as_bytes(), b"d.log", b"x.tar", b"b.bin", b"Z"];

const SIBS: &[&[u8]] = &[b"a.log", b"z.log", b"m.bin", b"junk.tar", b".h.log", b"0.log", b"c.tar.log", b"e.sh", b"Y.log"];

fn gen_member(rng: &mut Rng) -> Member {
    let k = rng.below(100);
    let fmt = rng.pick(&['u', 'p', 'g', 'o']);
    if k < 72 {
        Member { name: rng.pick(MEMBER_NAMES).to_vec(), ty: if rng.chance(1, 12) { 'R' } else { 'r' }, zero: rng.chance(1, 7), fmt }
    } else if k < 84 {
        Member { name: rng.pick(MEMBER_DIRS).to_vec(), ty: '5', zero: true, fmt }
    } else {
        // a non-regular entry under a name that would otherwise be listed
        let ty = rng.pick(&['1', '2', '6', '7', '5', '3']);
        Member { name: rng.pick(MEMBER_NAMES).to_vec(), ty, zero: !(ty == '7' && rng.chance(2, 3)) && !rng.chance(1, 10), fmt }
    }
}

fn gen_case(rng: &mut Rng) -> Case {
    let u = rng.chance(1, 2);
    let mut dirs: Vec<Vec<u8>> = vec![];
    for _ in 0..rng.below(3) { dirs.push(rng.pick(DIRS).to_vec()); }
    let tname = rng.pick(TAR_NAMES).to_vec();
    let mut sibs: Vec<Vec<u8>> = vec![];
    for _ in 0..rng.below(3) {
        let s = rng.pick(SIBS).to_vec();
        if s != tname && !sibs.contains(&s) { sibs.push(s); }
    }
    let e = rng.below(10);
    let end = match e { 0..=5 => 0, 6 => 4, 7 => 1, 8 => 2, _ => 3 };
    let mut members = vec![];
    for _ in 0..rng.below(8) { members.push(gen_member(rng)); }
    Case { u, dirs, tname, sibs, end, members }
}

fn fixed_cases() -> Vec<Case> {
    let m = |n: &[u8], ty: char, zero: bool| Member { name: n.to_vec(), ty, zero, fmt: 'u' };
    let c = |u: bool, dirs: &[&[u8]], t: &[u8], sibs: &[&[u8]], end: u8, members: Vec<Member>| Case {
        u, dirs: dirs.iter().map(|d| d.to_vec()).collect(), tname: t.to_vec(), sibs: sibs.iter().map(|d| d.to_vec()).collect(), end, members,
    };
    vec![
        // the witness of `tar_flag_false_loses`: a member with a non-log suffix, as `main` calls it
        c(true, &[], b"b.tar", &[], 0, vec![m(b"dump.bin", 'r', false)]),
        c(true, &[b"a"], b"b.tar", &[b"a.log", b"z.log"], 0, vec![m(b"app.log", 'r', false), m(b"dump.bin", 'r', false), m(b"run.sh", 'r', false), m(b"pic.png", 'r', false)]),
        c(false, &[b"a"], b"b.tar", &[b"a.log"], 0, vec![m(b"app.log", 'r', false), m(b"dump.bin", 'r', false)]),
        // empty archives
        c(true, &[], b"e.tar", &[], 0, vec![]),
        c(true, &[], b"e.tar", &[], 4, vec![]),
        // no tar at all
        c(true, &[], b"e.tar", &[b"junk.tar"], 1, vec![]),
        // zero size, directory, symlink, nested and compressed members
        c(true, &[b"sub dir"], b"X.TAR", &[], 0, vec![m(b"sub/", '5', true), m(b"sub/empty.log", 'r', true), m(b"sub/l.log", '2', true),
            m(b"x.log.gz", 'r', false), m(b"in.tar", 'r', false), m(b"sys.evtx", 'r', false), m(b"wtmp", 'R', false), m(b"user.journal", 'r', false)]),
        // iteration error after two members
        c(true, &[], b"b.tar", &[], 3, vec![m(b"a.log", 'r', false), m(b"b.bin", 'r', false)]),
        c(false, &[], b"b.tar", &[], 2, vec![m(b"a.log", 'r', false)]),
        // member names that are not UTF-8
        c(true, &[], b"b.tar", &[], 0, vec![m(b"\xFF.log", 'r', false), m(b"d\xFF/q.exe", 'r', false)]),
    ]
}

fn tally(reply: &str, dist: &mut std::collections::BTreeMap<String, usize>) {
    // outcome classes of the walked side (the named side repeats the tar's part)
    let w = reply.split('#').next().unwrap_or("");
    for part in w.split(';') {
        let o = part.split_once('=').map(|x| x.1).unwrap_or(part);
        let class: String = o.split(':').next().unwrap_or("").to_string()
            + if o.contains("cannot extract") { ":cannot-extract" } else if o.contains("nested") { ":nested" } else { "" };
        *dist.entry(class).or_insert(0) += 1;
    }
}

pub fn run(o: &Opts, out: &mut dyn Write) {
    quiet_panics();
    let mut rng = Rng::new(o.seed ^ 0x7a51);
    let mut dist = std::collections::BTreeMap::<String, usize>::new();
    let mut differ = 0usize;
    let mut cases: Vec<Case> = fixed_cases();
    for _ in 0..o.n { cases.push(gen_case(&mut rng)); }
    for c in cases.iter() {
        let reply = case_impl(c);
        tally(&reply, &mut dist);
        // walked tar part == named results? (siblings removed by comparing the tar's own results only)
        let tp = format!("{}", hex(&{
            let mut p: Vec<u8> = vec![];
            for d in c.dirs.iter() { p.extend(d); p.push(b'/'); }
            p.extend(&c.tname);
            p
        }));
        let mut it = reply.split('#');
        let (w, n) = (it.next().unwrap_or(""), it.next().unwrap_or(""));
        let wt: Vec<&str> = w.split(';').filter(|x| x.starts_with(tp.as_str())).collect();
        let nt: Vec<&str> = n.split(';').filter(|x| x.starts_with(tp.as_str())).collect();
        if wt != nt { differ += 1; }
        writeln!(out, "{}\t{}", encode(c), reply).unwrap();
    }
    let d: Vec<String> = dist.iter().map(|(k, v)| format!("\"{}\": {}", k, v)).collect();
    writeln!(out, "# outcomes {{{}}}", d.join(", ")).unwrap();
    writeln!(out, "# walked_tar_differs_from_named {}", differ).unwrap();
}

pub fn replay_line(req: &str) -> String {
    let w: Vec<&str> = req.split_whitespace().collect();
    if w.len() == 8 && w[0] == "walk" && w[1] == "tar" {
        match decode(&w[2..]) {
            Some(c) => case_impl(&c),
            None => "bad-op".to_string(),
        }
    } else {
        "bad-op".to_string()
    }
}
