//! PRNG, hex and small helpers. Every random choice derives from one seed.
#![allow(dead_code)]

pub struct Opts {
    pub seed: u64,
    pub n: usize,
    pub thorough: bool,
    pub extra: Vec<String>,
}

pub struct Rng(pub u64);

impl Rng {
    pub fn new(seed: u64) -> Rng {
        Rng(seed.wrapping_mul(0x9E3779B97F4A7C15).wrapping_add(0x1234_5678_9abc_def1))
    }
    pub fn next(&mut self) -> u64 {
        // splitmix64
        self.0 = self.0.wrapping_add(0x9E3779B97F4A7C15);
        let mut z = self.0;
        z = (z ^ (z >> 30)).wrapping_mul(0xBF58476D1CE4E5B9);
        z = (z ^ (z >> 27)).wrapping_mul(0x94D049BB133111EB);
        z ^ (z >> 31)
    }
    pub fn below(&mut self, n: usize) -> usize {
        if n == 0 { 0 } else { (self.next() % (n as u64)) as usize }
    }
    pub fn range(&mut self, lo: i64, hi: i64) -> i64 {
        // inclusive
        lo + (self.next() % ((hi - lo + 1) as u64)) as i64
    }
    pub fn chance(&mut self, num: usize, den: usize) -> bool {
        self.below(den) < num
    }
    pub fn pick<T: Copy>(&mut self, v: &[T]) -> T {
        v[self.below(v.len())]
    }
}

pub fn hex(b: &[u8]) -> String {
    if b.is_empty() {
        return "-".to_string();
    }
    let mut s = String::with_capacity(b.len() * 2);
    for x in b {
        s.push_str(&format!("{:02x}", x));
    }
    s
}

pub fn unhex(s: &str) -> Vec<u8> {
    if s == "-" {
        return vec![];
    }
    let b = s.as_bytes();
    let mut v = Vec::with_capacity(b.len() / 2);
    let mut i = 0;
    while i + 1 < b.len() {
        v.push(u8::from_str_radix(std::str::from_utf8(&b[i..i + 2]).unwrap(), 16).unwrap());
        i += 2;
    }
    v
}

/// run `f`, mapping a panic to Err(message)
pub fn guarded<T, F: FnOnce() -> T + std::panic::UnwindSafe>(f: F) -> Result<T, String> {
    match std::panic::catch_unwind(f) {
        Ok(v) => Ok(v),
        Err(e) => {
            let msg = if let Some(s) = e.downcast_ref::<&str>() {
                s.to_string()
            } else if let Some(s) = e.downcast_ref::<String>() {
                s.clone()
            } else {
                "panic".to_string()
            };
            Err(msg.replace(['\n', '\t'], " "))
        }
    }
}

pub fn quiet_panics() {
    std::panic::set_hook(Box::new(|_| {}));
}
