//! component `line`: LineReader::find_line / find_line_in_block vs the model.
//!
//! requests
//!   line fresh <bs> <hex d> <fo>      fresh reader, one find_line      -> done | found <next> <parts>
//!   line freshib <bs> <hex d> <fo>    fresh reader, find_line_in_block -> done | found <next> <parts> | partial <parts>
//!   line hist <bs> <hex d> <ops..>    one reader, ops f<fo> | i<fo> | d<fo>; reply one item per op joined by ';'
//!   blk <bs> <fsz> <fo>               arithmetic: off idx cnt last bsz(last) bsz(0)
use crate::util::*;
use s4lib::common::{FileType, FileTypeArchive, FileTypeTextEncoding, ResultS3};
use s4lib::data::line::LineP;
use s4lib::readers::blockreader::BlockReader;
use s4lib::readers::linereader::LineReader;
use std::io::Write;

pub const FT_TEXT: FileType = FileType::Text {
    archival_type: FileTypeArchive::Normal,
    encoding_type: FileTypeTextEncoding::Utf8Ascii,
};

pub fn tmpdir() -> std::path::PathBuf {
    let d = std::env::var("S4H_TMP").unwrap_or_else(|_| "/verif/.build/tmp".to_string());
    std::fs::create_dir_all(&d).unwrap();
    std::path::PathBuf::from(d)
}

pub fn write_tmp(data: &[u8], suffix: &str) -> tempfile::NamedTempFile {
    let mut f = tempfile::Builder::new().prefix("s4h-").suffix(suffix).tempfile_in(tmpdir()).unwrap();
    f.write_all(data).unwrap();
    f.flush().unwrap();
    f
}

fn parts_str(l: &LineP) -> String {
    l.verif_parts().iter().map(|(bo, b, e)| format!("{}:{}:{}", bo, b, e)).collect::<Vec<_>>().join(",")
}

fn spec_bounds(d: &[u8], fo: usize) -> (usize, usize) {
    let mut beg = fo;
    while beg > 0 && d[beg - 1] != b'\n' { beg -= 1; }
    let mut end = fo;
    while end < d.len() - 1 && d[end] != b'\n' { end += 1; }
    (beg, end)
}

fn fresh(bs: u64, path: &str, fo: u64, inblock: bool) -> String {
    let p = path.to_string();
    let r = guarded(move || {
        let mut lr = match LineReader::new(p, FT_TEXT, bs) {
            Ok(v) => v,
            Err(e) => return format!("err-new {}", e.kind()),
        };
        if !inblock {
            match lr.find_line(fo) {
                ResultS3::Found((next, l)) => format!("found {} {}", next, parts_str(&l)),
                ResultS3::Done => "done".to_string(),
                ResultS3::Err(e) => format!("err {}", e.kind()),
            }
        } else {
            match lr.find_line_in_block(fo) {
                (ResultS3::Found((next, l)), _) => format!("found {} {}", next, parts_str(&l)),
                (ResultS3::Done, Some(line)) => {
                    let ps = line.verif_parts().iter().map(|(bo, b, e)| format!("{}:{}:{}", bo, b, e)).collect::<Vec<_>>().join(",");
                    format!("partial {}", ps)
                }
                (ResultS3::Done, None) => "done".to_string(),
                (ResultS3::Err(e), _) => format!("err {}", e.kind()),
            }
        }
    });
    match r { Ok(s) => s, Err(m) => format!("panic {}", m) }
}

fn hist(bs: u64, path: &str, d: &[u8], ops: &[String]) -> String {
    let p = path.to_string();
    let d = d.to_vec();
    let ops = ops.to_vec();
    let r = guarded(move || {
        let mut lr = match LineReader::new(p, FT_TEXT, bs) {
            Ok(v) => v,
            Err(e) => return format!("err-new {}", e.kind()),
        };
        let mut out: Vec<String> = vec![];
        for op in ops.iter() {
            let kind = &op[..1];
            let fo: u64 = op[1..].parse().unwrap();
            match kind {
                "f" => match lr.find_line(fo) {
                    ResultS3::Found((next, l)) => {
                        let (b, e) = (l.fileoffset_begin() as usize, l.fileoffset_end() as usize);
                        let bytes = l.verif_bytes();
                        let okb = e < d.len() && b <= e && bytes == d[b..=e];
                        out.push(format!("found {} {} {}{}", next, b, e, if okb { "" } else { " BYTES-MISMATCH" }));
                    }
                    ResultS3::Done => out.push("done".to_string()),
                    ResultS3::Err(e) => out.push(format!("err {}", e.kind())),
                },
                "i" => match lr.find_line_in_block(fo) {
                    (ResultS3::Found((next, l)), _) => {
                        let (b, e) = (l.fileoffset_begin() as usize, l.fileoffset_end() as usize);
                        let (sb, se) = spec_bounds(&d, fo as usize);
                        if (b, e) == (sb, se) && next as usize == e + 1 && l.verif_bytes() == d[b..=e] {
                            out.push("ib-ok".to_string());
                        } else {
                            out.push(format!("ib-bad {} {} {}", next, b, e));
                        }
                    }
                    (ResultS3::Done, _) => out.push("ib-ok".to_string()),
                    (ResultS3::Err(e), _) => out.push(format!("err {}", e.kind())),
                },
                "d" => {
                    // drop the stored line containing fo, if any
                    match lr.get_linep(&fo) {
                        Some(lp) => { lr.drop_line(lp); out.push("drop".to_string()); }
                        None => out.push("drop".to_string()),
                    }
                }
                _ => out.push("bad-op".to_string()),
            }
        }
        out.join(";")
    });
    match r { Ok(s) => s, Err(m) => format!("panic {}", m) }
}

pub fn replay_line(req: &str) -> String {
    let w: Vec<&str> = req.split_whitespace().collect();
    if w.len() >= 4 && w[0] == "blk" {
        let bs: u64 = w[1].parse().unwrap();
        let fsz: u64 = w[2].parse().unwrap();
        let fo: u64 = w[3].parse().unwrap();
        let off = BlockReader::block_offset_at_file_offset(fo, bs);
        let idx = BlockReader::block_index_at_file_offset(fo, bs);
        let cnt = BlockReader::count_blocks(fsz, bs);
        let fob = BlockReader::file_offset_at_block_offset(off, bs);
        let foi = BlockReader::file_offset_at_block_offset_index(off, bs, idx);
        return format!("{} {} {} {} {}", off, idx, cnt, fob, foi);
    }
    if w.len() < 5 || w[0] != "line" { return "bad-op".to_string(); }
    let bs: u64 = w[2].parse().unwrap();
    let d = unhex(w[3]);
    let f = write_tmp(&d, ".log");
    let path = f.path().to_str().unwrap().to_string();
    match w[1] {
        "fresh" => fresh(bs, &path, w[4].parse().unwrap(), false),
        "freshib" => fresh(bs, &path, w[4].parse().unwrap(), true),
        "hist" => {
            let ops: Vec<String> = w[4..].iter().map(|s| s.to_string()).collect();
            hist(bs, &path, &d, &ops)
        }
        _ => "bad-op".to_string(),
    }
}

fn gen_data(rng: &mut Rng, maxlen: usize) -> Vec<u8> {
    let len = 1 + rng.below(maxlen);
    let nlp = 2 + rng.below(12);
    let mut d = Vec::with_capacity(len);
    for _ in 0..len {
        if rng.below(nlp) == 0 { d.push(b'\n'); }
        else if rng.chance(1, 30) { d.push(0); }
        else if rng.chance(1, 30) { d.push(b'\r'); }
        else if rng.chance(1, 30) { d.push(0xC3); }
        else { d.push(b'a' + rng.below(26) as u8); }
    }
    if rng.chance(1, 2) { let n = d.len(); d[n - 1] = b'\n'; }
    d
}

pub fn run(o: &Opts, out: &mut dyn Write) {
    quiet_panics();
    let mut rng = Rng::new(o.seed ^ 0x11ee);
    let emit = |out: &mut dyn Write, req: String| {
        let r = replay_line(&req);
        writeln!(out, "{}\t{}", req, r).unwrap();
    };
    // arithmetic, exhaustive small + random large
    let lim: u64 = if o.thorough { 120 } else { 40 };
    for bs in 1..=(lim / 3) { for fsz in 0..lim { for fo in [0, fsz / 2, fsz.saturating_sub(1), fsz, fsz + 1, bs, bs - 1, 2 * bs] {
        emit(out, format!("blk {} {} {}", bs, fsz, fo));
    }}}
    for _ in 0..2000 {
        let bs = 1 + rng.below(0xFFFFFF);
        let fsz = rng.below(1 << 40);
        let fo = rng.below(1 << 40);
        emit(out, format!("blk {} {} {}", bs, fsz, fo));
    }
    // exhaustive small files over {NL, 'a'}
    let maxlen = if o.thorough { 9 } else { 7 };
    for len in 1..=maxlen {
        for bits in 0..(1u32 << len) {
            let d: Vec<u8> = (0..len).map(|i| if bits >> i & 1 == 1 { b'\n' } else { b'a' }).collect();
            let h = hex(&d);
            for bs in 1..=(len + 1) {
                for fo in 0..=len {
                    emit(out, format!("line fresh {} {} {}", bs, h, fo));
                    emit(out, format!("line freshib {} {} {}", bs, h, fo));
                }
            }
        }
    }
    // random files, random histories
    for _ in 0..o.n {
        let ml = if rng.chance(1, 5) { 600 } else { 80 };
        let d = gen_data(&mut rng, ml);
        let h = hex(&d);
        let bs = match rng.below(4) { 0 => 1 + rng.below(4), 1 => 1 + rng.below(16), 2 => 1 + rng.below(d.len() + 2), _ => 1 + rng.below(70) };
        let fo = rng.below(d.len() + 2);
        emit(out, format!("line fresh {} {} {}", bs, h, fo));
        emit(out, format!("line freshib {} {} {}", bs, h, fo));
        let nops = 1 + rng.below(30);
        let style = rng.below(4);
        let mut ops: Vec<String> = vec![];
        let mut cur = 0usize;
        for _ in 0..nops {
            let fo = match style {
                0 => { let (_, e) = if cur < d.len() { spec_bounds(&d, cur) } else { (0, d.len()) }; let f = cur; cur = e + 1; if cur > d.len() { cur = 0; } f }
                1 => { let f = d.len().saturating_sub(1 + cur); cur = (cur + 1 + rng.below(5)) % (d.len() + 1); f }
                _ => rng.below(d.len() + 2),
            };
            let k = match rng.below(10) { 0..=5 => "f", 6..=7 => "i", _ => "d" };
            ops.push(format!("{}{}", k, fo));
        }
        emit(out, format!("line hist {} {} {}", bs, h, ops.join(" ")));
    }
}
