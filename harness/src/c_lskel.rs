//! component `lskel`: the real `LineReader::find_line` vs the hand models AND the interpreter of the
//! regenerated `find_line` (S4V.Gen.Lines, driver `drv_lskel`).
//!
//! requests (answered by the real reader through `c_line`)
//!   lskel fresh <bs> <hex d> <fo>            fresh reader, one find_line -> done | found <next> <parts>
//!   lskel hist <bs> <hex d> <f<fo>|d<fo>>…   one reader, finds and drops; one item per op joined by ';'
//!   lskel freshib <bs> <hex d> <fo>          fresh reader, one find_line_in_block -> done | found <next> <parts> | partial <parts>
//!   lskel hist2 <bs> <hex d> <f<fo>|i<fo>|d<fo>>…  one reader; `i` = find_line_in_block
//!                                            (found <next> <beg> <end> | partial <parts> | done), `d` = drop_line
use crate::util::*;
use s4lib::common::ResultS3;
use s4lib::readers::linereader::LineReader;
use std::io::Write;

fn hist2(bs: u64, d: &[u8], ops: &[String]) -> String {
    let f = crate::c_line::write_tmp(d, ".log");
    let p = f.path().to_str().unwrap().to_string();
    let ops = ops.to_vec();
    let r = guarded(move || {
        let mut lr = match LineReader::new(p, crate::c_line::FT_TEXT, bs) {
            Ok(v) => v,
            Err(e) => return format!("err-new {}", e.kind()),
        };
        let mut out: Vec<String> = vec![];
        for op in ops.iter() {
            let kind = &op[..1];
            let fo: u64 = op[1..].parse().unwrap();
            match kind {
                "f" => match lr.find_line(fo) {
                    ResultS3::Found((next, l)) => out.push(format!("found {} {} {}", next, l.fileoffset_begin(), l.fileoffset_end())),
                    ResultS3::Done => out.push("done".to_string()),
                    ResultS3::Err(e) => out.push(format!("err {}", e.kind())),
                },
                "i" => match lr.find_line_in_block(fo) {
                    (ResultS3::Found((next, l)), _) => out.push(format!("found {} {} {}", next, l.fileoffset_begin(), l.fileoffset_end())),
                    (ResultS3::Done, Some(line)) => {
                        let ps = line.verif_parts().iter().map(|(bo, b, e)| format!("{}:{}:{}", bo, b, e)).collect::<Vec<_>>().join(",");
                        out.push(format!("partial {}", ps));
                    }
                    (ResultS3::Done, None) => out.push("done".to_string()),
                    (ResultS3::Err(e), _) => out.push(format!("err {}", e.kind())),
                },
                "d" => {
                    // drop the stored line containing fo, if any (the real `LineReader::drop_line`)
                    if let Some(lp) = lr.get_linep(&fo) { lr.drop_line(lp); }
                    out.push("drop".to_string());
                }
                _ => out.push("bad-op".to_string()),
            }
        }
        out.join(";")
    });
    drop(f);
    match r { Ok(s) => s, Err(m) => format!("panic {}", m) }
}

pub fn replay_line(req: &str) -> String {
    let w: Vec<&str> = req.split_whitespace().collect();
    if w.len() >= 4 && w[0] == "lskel" && w[1] == "hist2" {
        let ops: Vec<String> = w[4..].iter().map(|s| s.to_string()).collect();
        return hist2(w[2].parse().unwrap(), &unhex(w[3]), &ops);
    }
    match req.strip_prefix("lskel ") {
        Some(rest) => crate::c_line::replay_line(&format!("line {}", rest)),
        None => "bad-op".to_string(),
    }
}

fn bounds(d: &[u8], fo: usize) -> (usize, usize) {
    let mut beg = fo;
    while beg > 0 && d[beg - 1] != b'\n' { beg -= 1; }
    let mut end = fo;
    while end < d.len() - 1 && d[end] != b'\n' { end += 1; }
    (beg, end)
}

fn gen_data(rng: &mut Rng, maxlen: usize) -> Vec<u8> {
    let len = 1 + rng.below(maxlen);
    let nlp = 2 + rng.below(14);
    let mut d = Vec::with_capacity(len);
    for _ in 0..len {
        if rng.below(nlp) == 0 { d.push(b'\n'); }
        else if rng.chance(1, 40) { d.push(0); }
        else if rng.chance(1, 40) { d.push(b'\r'); }
        else { d.push(b'a' + rng.below(26) as u8); }
    }
    if rng.chance(1, 2) { let n = d.len(); d[n - 1] = b'\n'; }
    d
}

pub fn run(o: &Opts, out: &mut dyn Write) {
    quiet_panics();
    let mut rng = Rng::new(o.seed ^ 0x15ce1);
    let emit = |out: &mut dyn Write, req: String| {
        let r = replay_line(&req);
        writeln!(out, "{}\t{}", req, r).unwrap();
    };
    // exhaustive small files over {NL, 'a'}: every block size, every offset, fresh reader
    let maxlen = if o.thorough { 8 } else { 6 };
    for len in 1..=maxlen {
        for bits in 0..(1u32 << len) {
            let d: Vec<u8> = (0..len).map(|i| if bits >> i & 1 == 1 { b'\n' } else { b'a' }).collect();
            let h = hex(&d);
            for bs in 1..=(len + 1) {
                for fo in 0..=len {
                    emit(out, format!("lskel fresh {} {} {}", bs, h, fo));
                    emit(out, format!("lskel freshib {} {} {}", bs, h, fo));
                }
            }
            // every pair of finds (the second meets the caches the first left), with and without a drop between
            if len <= 5 {
                for bs in [1usize, 2, 3] {
                    for a in 0..len { for b in 0..=len {
                        emit(out, format!("lskel hist {} {} f{} f{}", bs, h, a, b));
                        emit(out, format!("lskel hist {} {} f{} d{} f{} f{}", bs, h, a, a, b, a));
                        emit(out, format!("lskel hist2 {} {} i{} i{} f{} i{}", bs, h, a, b, a, b));
                        emit(out, format!("lskel hist2 {} {} f{} i{} d{} i{} i{}", bs, h, a, b, a, b, a));
                        emit(out, format!("lskel hist2 {} {} i{} d{} f{} d{} i{}", bs, h, a, a, b, b, a));
                    }}
                }
            }
        }
    }
    // random files, random histories
    for _ in 0..o.n {
        let ml = if rng.chance(1, 5) { 500 } else { 70 };
        let d = gen_data(&mut rng, ml);
        let h = hex(&d);
        let bs = match rng.below(4) { 0 => 1 + rng.below(4), 1 => 1 + rng.below(16), 2 => 1 + rng.below(d.len() + 2), _ => 1 + rng.below(70) };
        emit(out, format!("lskel fresh {} {} {}", bs, h, rng.below(d.len() + 2)));
        let nops = 1 + rng.below(40);
        let style = rng.below(5);
        let mut ops: Vec<String> = vec![];
        let mut cur = 0usize;
        let mut prev: Option<usize> = None;
        for _ in 0..nops {
            match style {
                // the streaming discipline: find the next line, drop the one before it
                0 | 1 => {
                    if cur >= d.len() { cur = 0; prev = None; }
                    let (_, e) = bounds(&d, cur);
                    ops.push(format!("f{}", cur));
                    if style == 1 { if let Some(p) = prev { ops.push(format!("d{}", p)); } }
                    prev = Some(cur);
                    cur = e + 1;
                }
                // backwards through the file
                2 => {
                    let f = d.len().saturating_sub(1 + cur);
                    cur = (cur + 1 + rng.below(5)) % (d.len() + 1);
                    ops.push(format!("{}{}", if rng.chance(1, 6) { "d" } else { "f" }, f));
                }
                _ => {
                    let k = if rng.chance(1, 4) { "d" } else { "f" };
                    ops.push(format!("{}{}", k, rng.below(d.len() + 2)));
                }
            }
        }
        emit(out, format!("lskel hist {} {} {}", bs, h, ops.join(" ")));
        // in-block finds: fresh, and mixed into a history (as block-zero analysis does before the streaming stage)
        emit(out, format!("lskel freshib {} {} {}", bs, h, rng.below(d.len() + 2)));
        let mut ops2: Vec<String> = vec![];
        let n2 = 1 + rng.below(30);
        let mut at = 0usize;
        for _ in 0..n2 {
            let k = match rng.below(8) { 0 | 1 | 2 | 3 => "i", 4 | 5 => "f", _ => "d" };
            let fo = if rng.chance(1, 2) { at } else { rng.below(d.len() + 2) };
            ops2.push(format!("{}{}", k, fo));
            if fo < d.len() { let (_, e) = bounds(&d, fo); at = e + 1; if at >= d.len() { at = 0; } }
        }
        emit(out, format!("lskel hist2 {} {} {}", bs, h, ops2.join(" ")));
    }
}
