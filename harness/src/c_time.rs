//! component `time` (C04 / C11 calendar):
//!   time civil <days>                  -> "<y> <m> <d>"            (chrono NaiveDate)
//!   time days <y> <m> <d>              -> "<days>" | "invalid"     (chrono NaiveDate)
//!   time parse <hex pattern> <0|1> <off s> <hex buf>  -> ns | none (datetime_parse_from_str)
//!   time norm <row> <hex line> <fill year|n> <off s> <group>=<hex> ...  -> ns | none
//!        the real `bytes_to_regex_to_datetime` on the line sliced to the row's range_regex;
//!        the `<group>=<hex>` fields are what the generator rendered (for the model side)
//! The generator renders lines from `time_rows.txt` (written by gen/gen_time.py from the
//! `concatcp!` parts of every DTPD! row).
use crate::util::*;
use chrono::{Datelike, FixedOffset, NaiveDate};
use s4lib::data::datetime::{bytes_to_regex_to_datetime, datetime_parse_from_str, DATETIME_PARSE_DATAS, MAP_TZZ_TO_TZz};
use std::io::Write;

const ROWS_TXT: &str = include_str!("time_rows.txt");

fn epoch_days() -> i64 {
    NaiveDate::from_ymd_opt(1970, 1, 1).unwrap().num_days_from_ce() as i64
}

fn ns_of(dt: &chrono::DateTime<FixedOffset>) -> i128 {
    (dt.timestamp() as i128) * 1_000_000_000 + (dt.timestamp_subsec_nanos() as i128)
}

pub fn replay_line(req: &str) -> String {
    let w: Vec<&str> = req.split_whitespace().collect();
    if w.len() < 2 || w[0] != "time" {
        return "bad-op".to_string();
    }
    match w[1] {
        "yearx" => crate::c_year::replay_line(req),
        "civil" if w.len() == 3 => {
            let z: i64 = match w[2].parse() { Ok(v) => v, Err(_) => return "bad-op".to_string() };
            match NaiveDate::from_num_days_from_ce_opt((z + epoch_days()) as i32) {
                Some(d) => format!("{} {} {}", d.year(), d.month(), d.day()),
                None => "out-of-range".to_string(),
            }
        }
        "days" if w.len() == 5 => {
            let y: i32 = w[2].parse().unwrap_or(0);
            let m: i64 = w[3].parse().unwrap_or(0);
            let d: i64 = w[4].parse().unwrap_or(0);
            if m < 0 || d < 0 { return "invalid".to_string(); }
            match NaiveDate::from_ymd_opt(y, m as u32, d as u32) {
                Some(nd) => format!("{}", nd.num_days_from_ce() as i64 - epoch_days()),
                None => "invalid".to_string(),
            }
        }
        "parse" if w.len() == 6 => {
            let pat = String::from_utf8(unhex(w[2])).unwrap_or_default();
            let has_tz = w[3] == "1";
            let off: i32 = w[4].parse().unwrap_or(0);
            let buf = unhex(w[5]);
            let s = match std::str::from_utf8(&buf) { Ok(s) => s.to_string(), Err(_) => return "none".to_string() };
            let fo = FixedOffset::east_opt(off).unwrap();
            let r = guarded(move || datetime_parse_from_str(&s, &pat, has_tz, &fo).map(|d| ns_of(&d)));
            match r { Ok(Some(v)) => v.to_string(), Ok(None) => "none".to_string(), Err(m) => format!("panic {}", m) }
        }
        "norm" if w.len() >= 6 => {
            let idx: usize = match w[2].parse() { Ok(v) => v, Err(_) => return "bad-op".to_string() };
            if idx >= DATETIME_PARSE_DATAS.len() { return "bad-row".to_string(); }
            let line = unhex(w[3]);
            let year_opt: Option<i32> = if w[4] == "n" { None } else { w[4].parse().ok() };
            let off: i32 = w[5].parse().unwrap_or(0);
            let fo = FixedOffset::east_opt(off).unwrap();
            let fos = fo.to_string();
            let r = guarded(move || {
                let dtpd = &DATETIME_PARSE_DATAS[idx];
                let a = dtpd.range_regex.start.min(line.len());
                let b = dtpd.range_regex.end.min(line.len());
                bytes_to_regex_to_datetime(&line[a..b], &idx, &year_opt, &fo, &fos).map(|(_, _, d)| ns_of(&d))
            });
            match r { Ok(Some(v)) => v.to_string(), Ok(None) => "none".to_string(), Err(_) => "panic".to_string() }
        }
        _ => "bad-op".to_string(),
    }
}

// ------------------------------------------------------------------ rendering

#[derive(Clone)]
enum Seg { F(String), L(Vec<Vec<u8>>) }

struct RowRec { idx: usize, dtfss: String, range_end: usize, segs: Option<Vec<Seg>> }

fn load_rows() -> Vec<RowRec> {
    let mut v = vec![];
    for l in ROWS_TXT.lines() {
        if l.starts_with('#') || l.trim().is_empty() { continue; }
        let c: Vec<&str> = l.split('\t').collect();
        let idx: usize = c[0].parse().unwrap();
        let segs = if c[4] == "-" { None } else {
            Some(c[4].split(' ').map(|t| {
                if let Some(n) = t.strip_prefix("F:") { Seg::F(n.to_string()) }
                else { Seg::L(t[2..].split(',').map(unhex).collect()) }
            }).collect())
        };
        v.push(RowRec { idx, dtfss: c[1].to_string(), range_end: c[3].parse().unwrap(), segs });
    }
    v
}

#[derive(Clone, Copy, Debug)]
struct Stamp { y: i32, mo: u32, d: u32, hh: u32, mi: u32, ss: u32, ns: u32 }

const MON3: [&str; 12] = ["jan", "feb", "mar", "apr", "may", "jun", "jul", "aug", "sep", "oct", "nov", "dec"];
const MONL: [&str; 12] = ["january", "february", "march", "april", "may", "june", "july", "august", "september", "october", "november", "december"];
const DAY3: [&str; 7] = ["mon", "tue", "wed", "thu", "fri", "sat", "sun"];
const DAYL: [&str; 7] = ["monday", "tuesday", "wednesday", "thursday", "friday", "saturday", "sunday"];

fn casing(s: &str, k: usize) -> String {
    match k % 3 {
        0 => s.to_string(),
        1 => { let mut c = s.chars(); let f = c.next().unwrap().to_ascii_uppercase(); format!("{}{}", f, c.as_str()) }
        _ => s.to_ascii_uppercase(),
    }
}

/// choices that vary between cases of one row
struct Var { lit: usize, case: usize, pad: usize, dot: bool, frac_len: usize, tz_secs: i32, tz_name: Option<String>, uminus: bool }

fn tz_numeric(secs: i32, colon: bool, hours_only: bool, uminus: bool) -> Vec<u8> {
    let a = secs.abs();
    let mut v: Vec<u8> = if secs < 0 { if uminus { "\u{2212}".as_bytes().to_vec() } else { b"-".to_vec() } } else { b"+".to_vec() };
    v.extend(format!("{:02}", a / 3600).bytes());
    if !hours_only {
        if colon { v.push(b':'); }
        v.extend(format!("{:02}", a / 60 % 60).bytes());
    }
    v
}

/// render one field slot; returns (capture-group name, bytes) — name "-" for ignored groups
fn render_field(cgp: &str, st: &Stamp, v: &Var) -> Option<(&'static str, Vec<u8>)> {
    let wd = NaiveDate::from_ymd_opt(st.y, st.mo, st.d)?.weekday().num_days_from_monday() as usize;
    Some(match cgp {
        "CGP_YEAR" => ("year", format!("{:04}", st.y).into_bytes()),
        "CGP_YEARy" => ("year", format!("{:02}", st.y % 100).into_bytes()),
        "CGP_MONTHm" => ("month", format!("{:02}", st.mo).into_bytes()),
        "CGP_MONTHms" => ("month", format!("{}", st.mo).into_bytes()),
        "CGP_MONTHb" => { let mut s = casing(MON3[st.mo as usize - 1], v.case); if v.dot { s.push('.'); } ("month", s.into_bytes()) }
        "CGP_MONTHB" => ("month", casing(MONL[st.mo as usize - 1], v.case).into_bytes()),
        "CGP_MONTHBb" => {
            if v.pad % 2 == 0 { ("month", casing(MONL[st.mo as usize - 1], v.case).into_bytes()) }
            // (the Bb alternation has no `may.` form, unlike CGP_MONTHb's `(…|may|…)[\.]?`)
            else { let mut s = casing(MON3[st.mo as usize - 1], v.case); if v.dot && st.mo != 5 { s.push('.'); } ("month", s.into_bytes()) }
        }
        "CGP_DAYde" => ("day", match (st.d < 10, v.pad % 3) { (true, 1) => format!("{}", st.d), (true, 2) => format!(" {}", st.d), _ => format!("{:02}", st.d) }.into_bytes()),
        "CGP_DAYa3" => { let mut s = casing(DAY3[wd], v.case); if v.dot { s.push('.'); } ("-", s.into_bytes()) }
        "CGP_DAYa" => ("-", if v.pad % 2 == 0 { casing(DAYL[wd], v.case) } else { casing(DAY3[wd], v.case) }.into_bytes()),
        "CGP_HOUR" => ("hour", format!("{:02}", st.hh).into_bytes()),
        "CGP_HOURs" => ("hour", format!("{}", st.hh).into_bytes()),
        "CGP_MINUTE" => ("minute", format!("{:02}", st.mi).into_bytes()),
        "CGP_SECOND" => ("second", format!("{:02}", st.ss).into_bytes()),
        "CGP_FRACTIONAL" => ("fractional", format!("{:09}", st.ns)[..v.frac_len.clamp(1, 9)].as_bytes().to_vec()),
        "CGP_FRACTIONAL3" => ("fractional", format!("{:09}", st.ns)[..3].as_bytes().to_vec()),
        "CGP_FRACTIONAL6" => ("fractional", format!("{:09}", st.ns)[..6].as_bytes().to_vec()),
        "CGP_FRACTIONAL9" => ("fractional", format!("{:09}", st.ns)[..9].as_bytes().to_vec()),
        "CGP_TZz" => ("tz", tz_numeric(v.tz_secs, false, false, v.uminus)),
        "CGP_TZzc" => ("tz", tz_numeric(v.tz_secs, true, false, v.uminus)),
        "CGP_TZzp" => ("tz", tz_numeric(v.tz_secs / 3600 * 3600, false, true, v.uminus)),
        "CGP_TZZ" => ("tz", v.tz_name.clone()?.into_bytes()),
        "CGP_TZZ_U" => ("tz", v.tz_name.clone()?.to_ascii_uppercase().into_bytes()),
        "CGP_EPOCH" => {
            let nd = NaiveDate::from_ymd_opt(st.y, st.mo, st.d)?.and_hms_opt(st.hh, st.mi, st.ss.min(59))?;
            ("epoch", format!("{}", nd.and_utc().timestamp()).into_bytes())
        }
        _ => return None,
    })
}

fn render(rec: &RowRec, st: &Stamp, v: &Var) -> Option<(Vec<u8>, Vec<(&'static str, Vec<u8>)>, usize)> {
    let segs = rec.segs.as_ref()?;
    let unpadded = has_slot(rec, "CGP_MONTHms") || has_slot(rec, "CGP_HOURs") || (has_slot(rec, "CGP_DAYde") && v.pad % 3 != 0);
    let mut line: Vec<u8> = vec![];
    let mut fields = vec![];
    let mut li = 0usize;
    for s in segs {
        match s {
            Seg::F(n) => {
                let (g, b) = render_field(n, st, v)?;
                line.extend(&b);
                if g != "-" { fields.push((g, b)); }
            }
            Seg::L(alts) => {
                // `lit` = 0 renders the first alternative everywhere (canonical form); `lit` = 1 the
                // most compact form (empty alternative wherever there is one) unless the row has
                // unpadded numbers, where that would be ambiguous; otherwise a non-empty alternative
                let nonempty: Vec<&Vec<u8>> = alts.iter().filter(|a| !a.is_empty()).collect();
                let empty_ok = alts.iter().any(|a| a.is_empty());
                let chosen: &[u8] = if v.lit == 0 { &alts[0] }
                    else if v.lit == 1 && empty_ok && !unpadded { b"" }
                    else if nonempty.is_empty() { &alts[0] }
                    else { nonempty[(v.lit + li * 7) % nonempty.len()] };
                line.extend(chosen);
                li += 1;
            }
        }
    }
    let dt_len = line.len();
    line.extend(b" host prog: msg text\n");
    Some((line, fields, dt_len))
}

fn stamps() -> Vec<Stamp> {
    let mut v = vec![];
    let dates: [(i32, u32, u32); 22] = [(1970, 1, 2), (1999, 12, 31), (2000, 1, 1), (2000, 2, 29), (2001, 2, 28), (2004, 2, 29), (2023, 2, 28),
        (2024, 2, 29), (2024, 3, 1), (2024, 4, 30), (2024, 5, 31), (2024, 6, 30), (2024, 7, 31), (2024, 8, 8), (2024, 9, 30), (2024, 10, 31), (2024, 11, 30),
        (2038, 1, 19), (2069, 12, 31), (2099, 12, 30), (2010, 1, 10), (2021, 12, 9)];
    let times: [(u32, u32, u32); 6] = [(0, 0, 0), (12, 0, 0), (23, 59, 59), (12, 34, 56), (9, 5, 7), (1, 2, 3)];
    let nss: [u32; 5] = [0, 123456789, 999999999, 100000000, 5];
    let mut k = 0usize;
    for d in dates.iter() {
        for t in times.iter() {
            v.push(Stamp { y: d.0, mo: d.1, d: d.2, hh: t.0, mi: t.1, ss: t.2, ns: nss[k % nss.len()] });
            k += 1;
        }
    }
    v
}

fn emit(out: &mut dyn Write, req: String) {
    let r = replay_line(&req);
    writeln!(out, "{}\t{}", req, r).unwrap();
}

fn has_slot(rec: &RowRec, name: &str) -> bool {
    rec.segs.as_ref().map_or(false, |s| s.iter().any(|x| matches!(x, Seg::F(n) if n == name)))
}

pub fn run(o: &Opts, out: &mut dyn Write) {
    quiet_panics();
    let mut rng = Rng::new(o.seed ^ 0x71e3);
    // ---- calendar
    let ncal = if o.thorough { 0 } else { (o.n / 4).max(200) };
    let years: [i32; 18] = [-401, -400, -1, 0, 1, 4, 100, 400, 1582, 1899, 1900, 1970, 2000, 2024, 2038, 2099, 2100, 9999];
    for y in years.iter() {
        for (m, d) in [(1i64, 1i64), (2, 28), (2, 29), (2, 30), (3, 1), (4, 30), (4, 31), (12, 31), (13, 1), (0, 5), (6, 0)] {
            emit(out, format!("time days {} {} {}", y, m, d));
        }
    }
    for z in [-719469i64, -719468, -719163, -719162, -1, 0, 1, 58, 59, 60, 365, 11016, 11017, 19782, 47481, 2932896, -1000000, 1000000] {
        emit(out, format!("time civil {}", z));
    }
    for _ in 0..ncal {
        emit(out, format!("time civil {}", rng.range(-4_000_000, 4_000_000)));
        emit(out, format!("time days {} {} {}", rng.range(-3000, 9999), rng.range(1, 12), rng.range(1, 31)));
    }
    if o.thorough {
        // every day 1970-01-01 .. 2099-12-31, both directions
        for z in 0..47482i64 {
            emit(out, format!("time civil {}", z));
        }
        for y in 1970..2100 { for m in 1..13 { for d in 1..32 { emit(out, format!("time days {} {} {}", y, m, d)); } } }
    }
    // ---- chrono vs parseBuf on buffers around valid ones
    let pats: [(&str, bool); 10] = [("%Y%m%dT%H%M%S%:z", true), ("%Y%m%dT%H%M%S%z", true), ("%Y%m%dT%H%M%S%#z", true), ("%Y%m%dT%H%M%S.%f%:z", true),
        ("%Y%m%dT%H%M%S.%f%z", true), ("%Y%m%dT%H%M%S.%f%#z", true), ("%Y%m%dT%H%M%:z", false), ("%y%m%dT%H%M%S%:z", false), ("%sT", false), ("%sT.%f", false)];
    let nparse = if o.thorough { o.n } else { o.n / 3 };
    let sts = stamps();
    for i in 0..nparse {
        let (pat, _) = pats[i % pats.len()];
        let st = sts[rng.below(sts.len())];
        let off = [0, 19800, -28800, 50400, -43200, 3600][rng.below(6)];
        let tzs: String = match rng.below(5) { 0 => "+0530".into(), 1 => "-08:00".into(), 2 => "+05".into(), 3 => "+14:00".into(), _ => "-00:00".into() };
        let mut buf: Vec<u8> = if pat.starts_with("%s") {
            let mut b = format!("{}T", 900_000_000i64 + rng.range(0, 1_300_000_000)).into_bytes();
            if pat.ends_with("%f") { b.extend(format!(".{:09}", st.ns).bytes()); }
            b
        } else {
            let mut b = if pat.starts_with("%y") { format!("{:02}", st.y % 100) } else { format!("{:04}", st.y) }.into_bytes();
            b.extend(format!("{:02}{:02}T{:02}{:02}", st.mo, st.d, st.hh, st.mi).bytes());
            if pat.contains("%S") { b.extend(format!("{:02}", st.ss).bytes()); }
            if pat.contains("%f") { b.extend(format!(".{:09}", st.ns).bytes()); }
            b.extend(tzs.bytes());
            b
        };
        // mutations
        match rng.below(12) {
            0 => { let k = rng.below(buf.len()); buf.remove(k); }
            1 => { let k = rng.below(buf.len() + 1); buf.insert(k, b' '); }
            2 => { let k = rng.below(buf.len()); buf[k] = b"0123456789:+-TZz. "[rng.below(18)]; }
            3 => { let k = rng.below(buf.len()); buf[k] = b'9'; }
            4 => { buf.truncate(rng.below(buf.len() + 1)); }
            5 => { buf.extend(b"0"); }
            6 => { let k = rng.below(buf.len() + 1); buf.insert(k, b"+-:6"[rng.below(4)]); }
            _ => {}
        }
        for has_tz in [true, false] {
            emit(out, format!("time parse {} {} {} {}", hex(pat.as_bytes()), if has_tz { 1 } else { 0 }, off, hex(&buf)));
        }
    }
    // ---- regex + normalise + chrono of the real code, line rendered per DTPD! row
    let rows = load_rows();
    let keys: Vec<String> = { let mut k: Vec<String> = MAP_TZZ_TO_TZz.keys().map(|s| s.to_string()).collect(); k.sort(); k };
    let per_row = if o.thorough { (o.n / 20).max(200) } else { (o.n / 60).max(24) };
    let mut norender = 0usize;
    let mut keyi = 0usize;
    let mut range_short: Vec<String> = vec![];
    for rec in rows.iter() {
        if rec.segs.is_none() { norender += 1; continue; }
        let two_digit_year = has_slot(rec, "CGP_YEARy");
        let has_epoch = has_slot(rec, "CGP_EPOCH");
        for i in 0..per_row {
            let mut st = sts[(i * 7 + rec.idx) % sts.len()];
            if two_digit_year && !(1970..=2069).contains(&st.y) { st.y = 2024; if st.mo == 2 && st.d == 29 { st.y = 2024; } }
            if two_digit_year && NaiveDate::from_ymd_opt(st.y, st.mo, st.d).is_none() { st.d = 28; }
            // CGP_EPOCH only matches 9[0-9]{8} | [12][0-9]{9}: 1998-07-09 .. 2065-01-24
            if has_epoch && !(2000..=2064).contains(&st.y) { st.y = 2001; if st.mo == 2 && st.d == 29 { st.d = 28; } }
            let tz_secs = (rng.range(-48, 56) * 900) as i32;
            let name = if has_slot(rec, "CGP_TZZ") || has_slot(rec, "CGP_TZZ_U") {
                keyi += 1;
                Some(keys[keyi % keys.len()].clone())
            } else { None };
            let v = Var { lit: if i == 0 { 0 } else { i }, case: i / 2, pad: if i == 0 { 0 } else { rng.below(6) }, dot: i % 5 == 4,
                          frac_len: 1 + (i % 9), tz_secs, tz_name: name, uminus: i % 7 == 6 };
            let (line, fields, dt_len) = match render(rec, &st, &v) { Some(x) => x, None => continue };
            if dt_len > rec.range_end {
                // the timestamp does not fit the slice the code hands to the regex: not a case for the
                // model (which starts after the match); reported as coverage data
                range_short.push(format!("{}:{}>{}:{}", rec.idx, dt_len, rec.range_end, hex(&line[..dt_len])));
                continue;
            }
            let off = [0, 19800, -28800, 50400, -43200, 3600][(i + rec.idx) % 6];
            let has_year = has_slot(rec, "CGP_YEAR") || two_digit_year;
            let fill = if !has_year { if i % 4 == 3 { "n".to_string() } else { st.y.to_string() } }
                       else if i % 3 == 0 { "n".to_string() } else { (st.y - 1).to_string() };
            let mut req = format!("time norm {} {} {} {}", rec.idx, hex(&line), fill, off);
            for (g, b) in fields.iter() {
                req.push_str(&format!(" {}={}", g, hex(b)));
            }
            emit(out, req);
        }
    }
    let rs_rows: std::collections::BTreeSet<String> = range_short.iter().map(|s| s.split(':').next().unwrap().to_string()).collect();
    writeln!(out, "# time_rows {{\"rows\": {}, \"unrenderable\": {}, \"per_row\": {}, \"range_short_cases\": {}, \"range_short_rows\": {:?}, \"range_short_example\": {:?}}}",
             rows.len(), norender, per_row, range_short.len(), rs_rows, range_short.first()).unwrap();
}
