//! `rgx` — the regex slice of C04: every `DATETIME_PARSE_DATAS[i].regex_pattern` compiled with
//! `regex::bytes::Regex::new` (as `bytes_to_regex_to_datetime` does) against the Lean model's
//! `search` over the translated AST (`S4V.Gen.Regex`).
//!
//!   rgx m <row> <hex slice>   -> `none` | `M <s>,<e> <name>=<s>,<e>|- …` (named groups in group order)
//!   rgx c <hex slice>         -> `<X2> <X2unroll> <D2>` as 0/1: `slice_contains_X_2(_, b"12")`,
//!                                `slice_contains_X_2_unroll(_, b"12")`, `slice_contains_D2`
//!
//! Case sources per row: the row's own `_test_cases` lines (seed corpus, extracted from the source
//! by gen_regex.py), strings sampled from the row's regex AST, both placed after junk prefixes /
//! before junk suffixes and sliced to `range_regex` like `find_datetime_in_line` does, single-byte
//! mutations (near misses; inserted non-ASCII / invalid UTF-8 / U+2212 / U+017F / U+212A),
//! samples and test lines of OTHER rows, and random bytes.
use std::io::Write;

use crate::util::{hex, unhex, Opts, Rng};
use regex::bytes::Regex;
use s4lib::data::datetime::{slice_contains_D2, slice_contains_X_2, slice_contains_X_2_unroll, DATETIME_PARSE_DATAS};

const ROWS_TXT: &str = include_str!("rgx_rows.txt");

#[derive(Debug, Clone)]
pub(crate) enum Ast {
    Eps,
    Bol,
    Eol,
    Lit(Vec<u8>),
    Cls(Vec<(u32, u32)>),
    Cat(Vec<Ast>),
    Alt(Vec<Ast>),
    Rep(usize, Option<usize>, Box<Ast>),
    Grp(Box<Ast>),
}

pub(crate) struct Row {
    pub(crate) idx: usize,
    start: usize,
    end: usize,
    pub(crate) ast: Ast,
    tests: Vec<Vec<u8>>,
}

fn parse_ast(toks: &[&str], pos: &mut usize) -> Ast {
    let t = toks[*pos];
    *pos += 1;
    match t {
        "E" => Ast::Eps,
        "^" => Ast::Bol,
        "$" => Ast::Eol,
        "(." | "(|" => {
            let mut v = vec![];
            while toks[*pos] != ")" {
                v.push(parse_ast(toks, pos));
            }
            *pos += 1;
            if t == "(." { Ast::Cat(v) } else { Ast::Alt(v) }
        }
        "(*" => {
            let lo: usize = toks[*pos].parse().unwrap();
            let hi = if toks[*pos + 1] == "inf" { None } else { Some(toks[*pos + 1].parse().unwrap()) };
            *pos += 2;
            let a = parse_ast(toks, pos);
            assert_eq!(toks[*pos], ")");
            *pos += 1;
            Ast::Rep(lo, hi, Box::new(a))
        }
        "(G" => {
            *pos += 1;
            let a = parse_ast(toks, pos);
            assert_eq!(toks[*pos], ")");
            *pos += 1;
            Ast::Grp(Box::new(a))
        }
        _ if t.starts_with('L') => Ast::Lit(unhex(&t[1..])),
        _ if t.starts_with('C') => Ast::Cls(
            t[1..]
                .split(',')
                .filter(|x| !x.is_empty())
                .map(|x| {
                    let (a, b) = x.split_once('-').unwrap();
                    (a.parse().unwrap(), b.parse().unwrap())
                })
                .collect(),
        ),
        _ => panic!("rgx_rows.txt: bad token {}", t),
    }
}

pub(crate) fn load_rows() -> Vec<Row> {
    let mut rows: Vec<Row> = vec![];
    for l in ROWS_TXT.lines() {
        if l.starts_with('#') || l.is_empty() {
            continue;
        }
        let f: Vec<&str> = l.split('\t').collect();
        match f[0] {
            "R" => {
                let toks: Vec<&str> = f[5].split(' ').filter(|x| !x.is_empty()).collect();
                let mut p = 0;
                let ast = parse_ast(&toks, &mut p);
                assert_eq!(p, toks.len());
                rows.push(Row { idx: f[1].parse().unwrap(), start: f[2].parse().unwrap(), end: f[3].parse().unwrap(), ast, tests: vec![] });
            }
            "T" => {
                let i: usize = f[1].parse().unwrap();
                rows[i].tests.push(unhex(f[2]));
            }
            _ => panic!("rgx_rows.txt: bad record"),
        }
    }
    rows
}

fn push_utf8(out: &mut Vec<u8>, cp: u32) {
    let c = char::from_u32(cp).unwrap_or('?');
    let mut b = [0u8; 4];
    out.extend_from_slice(c.encode_utf8(&mut b).as_bytes());
}

struct Sample {
    bytes: Vec<u8>,
    bol: bool,
    eol: bool,
}

fn sample(a: &Ast, r: &mut Rng, s: &mut Sample) {
    match a {
        Ast::Eps => {}
        Ast::Bol => s.bol = true,
        Ast::Eol => s.eol = true,
        Ast::Lit(b) => s.bytes.extend_from_slice(b),
        Ast::Cls(rs) => {
            if rs.is_empty() {
                return;
            }
            if rs.iter().any(|&(_, hi)| hi > 127) {
                // wide class (`.`, negated class): sometimes an ill-formed sequence where a character is
                // expected (surrogate, overlong, > U+10FFFF, truncated, lone continuation) — the model's
                // strict decoder must reject exactly what the implementation's UTF-8 automata reject —
                // sometimes a boundary scalar
                match r.below(12) {
                    0 => {
                        const BAD: &[&[u8]] = &[b"\xed\xa0\x80", b"\xed\xbf\xbf", b"\xc0\xaf", b"\xc1\xbf", b"\xe0\x80\xaf", b"\xe0\x9f\xbf",
                            b"\xf0\x80\x80\xaf", b"\xf0\x8f\xbf\xbf", b"\xf4\x90\x80\x80", b"\xf5\x80\x80\x80", b"\xc3", b"\xe2\x88", b"\xf0\x9f\x98",
                            b"\x80", b"\xbf", b"\xff", b"\xfe", b"\xc3\x28", b"\xe2\x28\xa1", b"\xf0\x28\x8c\xbc"];
                        s.bytes.extend_from_slice(BAD[r.below(BAD.len())]);
                        return;
                    }
                    1 => {
                        const EDGE: &[u32] = &[0x7f, 0x80, 0x7ff, 0x800, 0xd7ff, 0xe000, 0xffff, 0x10000, 0x10ffff, 0x2212, 0x17f, 0x212a, 0xa0];
                        let cp = EDGE[r.below(EDGE.len())];
                        if rs.iter().any(|&(lo, hi)| lo <= cp && cp <= hi) {
                            push_utf8(&mut s.bytes, cp);
                            return;
                        }
                    }
                    _ => {}
                }
            }
            // prefer printable ASCII members, sometimes any member (incl. multi-byte scalars)
            let ascii: Vec<(u32, u32)> = rs.iter().filter_map(|&(lo, hi)| {
                let lo2 = lo.max(32);
                let hi2 = hi.min(126);
                if lo2 <= hi2 { Some((lo2, hi2)) } else { None }
            }).collect();
            let pool = if !ascii.is_empty() && !r.chance(1, 6) { &ascii } else { rs };
            let (lo, hi) = pool[r.below(pool.len())];
            let span = (hi - lo).min(2000);
            let cp = lo + (r.below(span as usize + 1) as u32);
            push_utf8(&mut s.bytes, cp);
        }
        Ast::Cat(v) => {
            for x in v {
                sample(x, r, s);
            }
        }
        Ast::Alt(v) => sample(&v[r.below(v.len())], r, s),
        Ast::Rep(lo, hi, x) => {
            let max = match hi { Some(h) => *h, None => lo + 3 };
            let top = max.min(lo + 3).max(*lo);
            let n = if r.chance(1, 5) { max.min(lo + 9) } else { lo + r.below(top - lo + 1) };
            for _ in 0..n {
                sample(x, r, s);
            }
        }
        Ast::Grp(x) => sample(x, r, s),
    }
}

const JUNK: &[&[u8]] = &[
    b" ", b"x", b"host ", b"[", b"] ", b": ", b"12", b"7", b"2021", b"-", b"+", b"a1", b"\t", b"Z", b"jan", b"PM",
    "é".as_bytes(), "−".as_bytes(), "ſ".as_bytes(), "\u{212A}".as_bytes(), "⸨".as_bytes(), "😀".as_bytes(),
    b"\x80", b"\xff", b"\xc3", b"\xe2\x88", b"\xed\xa0\x80", b"\xc0\xaf", b"\xf4\x90\x80\x80", b"\n", b"\0",
];

fn junk(r: &mut Rng, max_items: usize) -> Vec<u8> {
    let mut v = vec![];
    for _ in 0..r.below(max_items + 1) {
        v.extend_from_slice(JUNK[r.below(JUNK.len())]);
    }
    v
}

fn random_bytes(r: &mut Rng) -> Vec<u8> {
    let n = r.below(70);
    let mode = r.below(3);
    (0..n)
        .map(|_| match mode {
            0 => r.below(256) as u8,
            1 => b"0123456789 :-+.TZ/[]"[r.below(20)],
            _ => (32 + r.below(95)) as u8,
        })
        .collect()
}

fn mutate(mut v: Vec<u8>, r: &mut Rng) -> Vec<u8> {
    if v.is_empty() {
        return v;
    }
    for _ in 0..(1 + r.below(2)) {
        let i = r.below(v.len().max(1));
        match r.below(6) {
            0 => v[i] = r.below(256) as u8,
            1 => { v.remove(i); }
            2 => {
                let j = JUNK[r.below(JUNK.len())];
                for (k, b) in j.iter().enumerate() {
                    v.insert(i + k, *b);
                }
            }
            3 => v.truncate(i),
            4 => v[i] = b"0123456789"[r.below(10)],
            _ => {
                if v[i].is_ascii_alphabetic() {
                    v[i] ^= 0x20;
                } else {
                    v[i] = b' ';
                }
            }
        }
        if v.is_empty() {
            break;
        }
    }
    v
}

fn slice_like_code(line: &[u8], row: &Row) -> Option<Vec<u8>> {
    // find_datetime_in_line: skip when `line.len() <= start` or `start >= min(len, end)`
    if line.len() <= row.start {
        return None;
    }
    let e = line.len().min(row.end);
    if row.start >= e {
        return None;
    }
    Some(line[row.start..e].to_vec())
}

fn compile(i: usize) -> Regex {
    Regex::new(DATETIME_PARSE_DATAS[i].regex_pattern).unwrap()
}

fn answer(re: &Regex, data: &[u8]) -> String {
    match re.captures(data) {
        None => "none".to_string(),
        Some(c) => {
            let m0 = c.get(0).unwrap();
            let mut s = format!("M {},{}", m0.start(), m0.end());
            for name in re.capture_names().flatten() {
                match c.name(name) {
                    Some(m) => s.push_str(&format!(" {}={},{}", name, m.start(), m.end())),
                    None => s.push_str(&format!(" {}=-", name)),
                }
            }
            s
        }
    }
}

fn answer_c(data: &[u8]) -> String {
    format!(
        "{} {} {}",
        slice_contains_X_2(data, b"12") as u8,
        slice_contains_X_2_unroll(data, b"12") as u8,
        slice_contains_D2(data) as u8
    )
}

pub fn replay_line(req: &str) -> String {
    let f: Vec<&str> = req.split(' ').collect();
    match f.as_slice() {
        ["rgx", "m", i, hx] => {
            let i: usize = match i.parse() { Ok(v) => v, Err(_) => return "bad-op".into() };
            if i >= DATETIME_PARSE_DATAS.len() {
                return "bad-row".into();
            }
            answer(&compile(i), &unhex(hx))
        }
        ["rgx", "c", hx] => answer_c(&unhex(hx)),
        _ => "bad-op".into(),
    }
}

pub fn run(o: &Opts, out: &mut dyn Write) {
    let rows = load_rows();
    assert_eq!(rows.len(), DATETIME_PARSE_DATAS.len(), "rgx_rows.txt is stale: regenerate with gen/s4gen.py Regex");
    let mut r = Rng::new(o.seed ^ 0x7267_7800);
    let per_row = (o.n / rows.len()).max(8);
    let all_tests: Vec<(usize, Vec<u8>)> = rows.iter().flat_map(|w| w.tests.iter().map(move |t| (w.idx, t.clone()))).collect();
    for row in &rows {
        let re = compile(row.idx);
        let emit = |data: &[u8], out: &mut dyn Write| {
            writeln!(out, "rgx m {} {}\t{}", row.idx, hex(data), answer(&re, data)).unwrap();
        };
        // seed corpus: the row's own test lines, sliced like the code and whole
        for t in &row.tests {
            if let Some(s) = slice_like_code(t, row) {
                emit(&s, out);
            }
            emit(t, out);
        }
        let mut k = 0;
        while k < per_row {
            k += 1;
            let kind = r.below(10);
            let base: Vec<u8> = match kind {
                0 | 1 | 2 | 3 | 4 => {
                    // sampled from the AST, in context
                    let mut s = Sample { bytes: vec![], bol: false, eol: false };
                    sample(&row.ast, &mut r, &mut s);
                    let mut line = if s.bol || r.chance(1, 3) { vec![] } else { junk(&mut r, 3) };
                    line.extend_from_slice(&s.bytes);
                    if !(s.eol || r.chance(1, 4)) {
                        line.extend_from_slice(&junk(&mut r, 4));
                    }
                    line
                }
                5 => {
                    if row.tests.is_empty() { random_bytes(&mut r) } else {
                        let mut line = if r.chance(1, 2) { vec![] } else { junk(&mut r, 2) };
                        line.extend_from_slice(&row.tests[r.below(row.tests.len())]);
                        line
                    }
                }
                6 | 7 => {
                    // another row's material (often the same family: different captures / near miss)
                    if r.chance(1, 2) && !all_tests.is_empty() {
                        all_tests[r.below(all_tests.len())].1.clone()
                    } else {
                        let other = &rows[if r.chance(1, 2) { (row.idx + r.below(7)).min(rows.len() - 1).saturating_sub(3) } else { r.below(rows.len()) }];
                        let mut s = Sample { bytes: vec![], bol: false, eol: false };
                        sample(&other.ast, &mut r, &mut s);
                        s.bytes
                    }
                }
                _ => random_bytes(&mut r),
            };
            let line = if kind <= 7 && r.chance(2, 5) { mutate(base, &mut r) } else { base };
            let data = if r.chance(4, 5) {
                match slice_like_code(&line, row) { Some(s) => s, None => line }
            } else { line };
            emit(&data, out);
        }
    }
    // the byte tests
    for _ in 0..(o.n / 20).max(50) {
        let d = match r.below(4) {
            0 => random_bytes(&mut r),
            1 => {
                let n = r.below(130);
                (0..n).map(|_| b"abc xyz-:3 7"[r.below(12)]).collect()
            }
            2 => {
                let n = [0usize, 1, 2, 3, 98, 99, 100, 101][r.below(8)];
                let mut v: Vec<u8> = (0..n).map(|_| b"ab 3"[r.below(4)]).collect();
                if n > 0 && r.chance(1, 2) {
                    let i = r.below(n);
                    v[i] = b"12"[r.below(2)];
                }
                v
            }
            _ => all_tests[r.below(all_tests.len())].1.clone(),
        };
        writeln!(out, "rgx c {}\t{}", hex(&d), answer_c(&d)).unwrap();
    }
}
