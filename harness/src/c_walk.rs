//! component `walk`:
//!   `walk tree <spec>`  -> ordered list of `(relative path, outcome)` that the real
//!                          `process_path(<dir>, ..)` returns for a directory tree built from `<spec>`
//!   `walk named <hex name> <hex target name | ->`
//!                       -> outcome of `process_path(<file>)` for a file named explicitly
//!                          (through a symbolic link when a target name is given)
//!
//! `<spec>` is a comma separated prefix encoding of the children of the root directory:
//!   `<k>`                     first token: number of root children
//!   `F:<hex>`                 regular file
//!   `D:<hex>:<k>`             directory, its `k` children follow
//!   `LF:<hex>:<hex target>`   symbolic link to a regular file (created outside the walked root)
//!   `LD:<hex>:<hex target>:<k>`  symbolic link to a directory (outside the root); the `k` children
//!                             of the target follow
//! Reply: `;`-joined `<hex of the returned path relative to the root>=<outcome>`, `-` when empty.
//! Outcomes: the `c_path::canon` type string for `FileValid`, `NotSupported`, `NotSupported:<msg>`,
//! `Err`, `NotAFile`, `NotExist`, `NoPermissions`, `Empty`, `TooSmall`, `Library`.
//! Files whose name classifies as a tar archive hold non-tar bytes, so `process_path_tar`
//! answers with a single `FileErr` (`Err`); tar member enumeration is component `walktar`
//! (c_walktar.rs, requests `walk tar ..`, which `replay_line` here forwards).
use crate::c_path::canon;
use crate::util::*;
use s4lib::readers::filepreprocessor::{process_path, PathToFiletypeResult, ProcessPathResult};
use std::ffi::OsStr;
use std::io::Write;
use std::os::unix::ffi::OsStrExt;
use std::path::{Path, PathBuf};

#[derive(Clone, Debug)]
pub enum Node {
    File(Vec<u8>),
    Dir(Vec<u8>, Vec<Node>),
    LinkFile(Vec<u8>, Vec<u8>),
    LinkDir(Vec<u8>, Vec<u8>, Vec<Node>),
}

impl Node {
    fn name(&self) -> &[u8] {
        match self {
            Node::File(n) | Node::Dir(n, _) | Node::LinkFile(n, _) | Node::LinkDir(n, _, _) => n,
        }
    }
}

// ------------------------------------------------------------------ spec <-> tree

fn enc_node(n: &Node, out: &mut Vec<String>) {
    match n {
        Node::File(nm) => out.push(format!("F:{}", hex(nm))),
        Node::Dir(nm, cs) => {
            out.push(format!("D:{}:{}", hex(nm), cs.len()));
            for c in cs { enc_node(c, out); }
        }
        Node::LinkFile(nm, t) => out.push(format!("LF:{}:{}", hex(nm), hex(t))),
        Node::LinkDir(nm, t, cs) => {
            out.push(format!("LD:{}:{}:{}", hex(nm), hex(t), cs.len()));
            for c in cs { enc_node(c, out); }
        }
    }
}

pub fn encode(children: &[Node]) -> String {
    let mut toks = vec![format!("{}", children.len())];
    for c in children { enc_node(c, &mut toks); }
    toks.join(",")
}

fn dec_nodes(toks: &[&str], pos: &mut usize, k: usize) -> Option<Vec<Node>> {
    let mut v = vec![];
    for _ in 0..k { v.push(dec_node(toks, pos)?); }
    Some(v)
}

fn dec_node(toks: &[&str], pos: &mut usize) -> Option<Node> {
    let t = *toks.get(*pos)?;
    *pos += 1;
    let f: Vec<&str> = t.split(':').collect();
    match f.as_slice() {
        ["F", n] => Some(Node::File(unhex(n))),
        ["D", n, k] => {
            let k: usize = k.parse().ok()?;
            Some(Node::Dir(unhex(n), dec_nodes(toks, pos, k)?))
        }
        ["LF", n, t] => Some(Node::LinkFile(unhex(n), unhex(t))),
        ["LD", n, t, k] => {
            let k: usize = k.parse().ok()?;
            Some(Node::LinkDir(unhex(n), unhex(t), dec_nodes(toks, pos, k)?))
        }
        _ => None,
    }
}

pub fn decode(spec: &str) -> Option<Vec<Node>> {
    let toks: Vec<&str> = spec.split(',').collect();
    let k: usize = toks.first()?.parse().ok()?;
    let mut pos = 1;
    let v = dec_nodes(&toks, &mut pos, k)?;
    if pos != toks.len() { return None; }
    Some(v)
}

// ------------------------------------------------------------------ filesystem

const CONTENT: &[u8] = b"2020-01-01 00:00:00 hello\n";

struct Builder {
    targets: PathBuf,
    next: usize,
}

impl Builder {
    fn fresh_target_dir(&mut self) -> std::io::Result<PathBuf> {
        let d = self.targets.join(format!("t{}", self.next));
        self.next += 1;
        std::fs::create_dir_all(&d)?;
        Ok(d)
    }

    fn build(&mut self, dir: &Path, nodes: &[Node]) -> std::io::Result<()> {
        for n in nodes {
            let p = dir.join(OsStr::from_bytes(n.name()));
            match n {
                Node::File(_) => std::fs::write(&p, CONTENT)?,
                Node::Dir(_, cs) => {
                    std::fs::create_dir(&p)?;
                    self.build(&p, cs)?;
                }
                Node::LinkFile(_, t) => {
                    let td = self.fresh_target_dir()?;
                    let tp = td.join(OsStr::from_bytes(t));
                    std::fs::write(&tp, CONTENT)?;
                    std::os::unix::fs::symlink(&tp, &p)?;
                }
                Node::LinkDir(_, t, cs) => {
                    let td = self.fresh_target_dir()?;
                    let tp = td.join(OsStr::from_bytes(t));
                    std::fs::create_dir(&tp)?;
                    self.build(&tp, cs)?;
                    std::os::unix::fs::symlink(&tp, &p)?;
                }
            }
        }
        Ok(())
    }
}

pub fn outcome(r: &ProcessPathResult) -> (String, String) {
    match r {
        ProcessPathResult::FileValid(p, ft) => (p.clone(), canon(PathToFiletypeResult::Filetype(*ft))),
        ProcessPathResult::FileErrEmpty(p, _) => (p.clone(), "Empty".to_string()),
        ProcessPathResult::FileErrTooSmall(p, _, _) => (p.clone(), "TooSmall".to_string()),
        ProcessPathResult::FileErrNoPermissions(p) => (p.clone(), "NoPermissions".to_string()),
        ProcessPathResult::FileErrNotSupported(p, None) => (p.clone(), "NotSupported".to_string()),
        ProcessPathResult::FileErrNotSupported(p, Some(m)) => (p.clone(), format!("NotSupported:{}", m.replace([';', '\t', '\n'], " "))),
        ProcessPathResult::FileErrNotAFile(p) => (p.clone(), "NotAFile".to_string()),
        ProcessPathResult::FileErrNotExist(p) => (p.clone(), "NotExist".to_string()),
        ProcessPathResult::FileErrLoadingLibrary(p, _, _) => (p.clone(), "Library".to_string()),
        ProcessPathResult::FileErr(p, _) => (p.clone(), "Err".to_string()),
    }
}

pub fn walk_impl(children: &[Node]) -> String {
    let tmp = match tempfile::Builder::new().prefix("s4h-walk-").tempdir() {
        Ok(t) => t,
        Err(e) => return format!("io {}", e.kind()),
    };
    let root = tmp.path().join("root");
    let mut b = Builder { targets: tmp.path().join("targets"), next: 0 };
    if let Err(e) = std::fs::create_dir(&root).and_then(|_| b.build(&root, children)) {
        return format!("io {:?}", e.kind());
    }
    let root_s: String = root.to_str().unwrap().to_string();
    let arg = root_s.clone();
    let results = match guarded(move || process_path(&arg, false)) {
        Ok(r) => r,
        Err(m) => return format!("panic {}", m),
    };
    let prefix = format!("{}/", root_s);
    let mut parts: Vec<String> = vec![];
    for r in results.iter() {
        let (p, o) = outcome(r);
        let rel: &str = match p.strip_prefix(&prefix) {
            Some(rel) => rel,
            None => return format!("outside-root {}", hex(p.as_bytes())),
        };
        parts.push(format!("{}={}", hex(rel.as_bytes()), o));
    }
    if parts.is_empty() { "-".to_string() } else { parts.join(";") }
}

pub fn named_impl(name: &[u8], target: Option<&[u8]>) -> String {
    let tmp = match tempfile::Builder::new().prefix("s4h-walk-").tempdir() {
        Ok(t) => t,
        Err(e) => return format!("io {}", e.kind()),
    };
    let root = tmp.path().join("root");
    let p = root.join(OsStr::from_bytes(name));
    let r: std::io::Result<()> = (|| {
        std::fs::create_dir(&root)?;
        match target {
            None => std::fs::write(&p, CONTENT),
            Some(t) => {
                let td = tmp.path().join("targets");
                std::fs::create_dir(&td)?;
                let tp = td.join(OsStr::from_bytes(t));
                std::fs::write(&tp, CONTENT)?;
                std::os::unix::fs::symlink(&tp, &p)
            }
        }
    })();
    if let Err(e) = r { return format!("io {:?}", e.kind()); }
    let arg: String = match p.to_str() {
        Some(s) => s.to_string(),
        None => return "not-utf8".to_string(),
    };
    let arg2 = arg.clone();
    let results = match guarded(move || process_path(&arg2, true)) {
        Ok(r) => r,
        Err(m) => return format!("panic {}", m),
    };
    let mut parts: Vec<String> = vec![];
    for r in results.iter() {
        let (rp, o) = outcome(r);
        // the path handed back is the path given (not the canonical one)
        parts.push(if rp == arg { o } else { format!("other-path {}", o) });
    }
    if parts.is_empty() { "-".to_string() } else { parts.join(";") }
}

// ------------------------------------------------------------------ generator

const FILE_NAMES: &[&[u8]] = &[
    b"a.log", b"b.log", b"c.log.gz", b"z.gz", b"core.1.gz", b"x.png", b"pic.PNG", b"messages.1", b"syslog.2.xz",
    b"user.journal", b"sys log.log", b"a b", "日本語.log".as_bytes(), "é.txt".as_bytes(), b"UPPER.LOG", b"Zed.log",
    b"a-b", b"a-b.log", b"a", b"a.b", b"a!", b"a0", b"A", b"a.d", b"noext", b"README", b"wtmp", b"lastlog",
    b"t.evtx", b"a.log~", b".b.log", b".hidden", b"..x", b".x.png", b"\xFF.log", b".\xFF.log", b"x\xC3", b"\xE6\x97.txt",
    b"data.tar", b"m.zip", b"k.1", b"k.journal~", b"lib.so", b"-", b"~", b"log.bz2", b"b.lz4",
];

const DIR_NAMES: &[&[u8]] = &[
    b"a", b"a-b", b"a.d", b"A", b"sub dir", b".hid", "日本".as_bytes(), b"d.log", b"z", b"a b", b".\xFF", b"b.png",
    b"\xFFd", b"var", b"x.tar", b".git",
];

struct Gen<'a> {
    rng: &'a mut Rng,
    budget: usize,
}

impl<'a> Gen<'a> {
    fn children(&mut self, depth: usize) -> Vec<Node> {
        let want = if depth == 0 { 1 + self.rng.below(6) } else { self.rng.below(5) };
        let mut used: Vec<Vec<u8>> = vec![];
        let mut v = vec![];
        for _ in 0..want {
            if self.budget == 0 { break; }
            let kind = self.rng.below(100);
            let is_dir = depth < 3 && kind >= 60 && kind < 88;
            let is_ldir = depth < 3 && kind >= 94;
            let is_lfile = (88..94).contains(&kind);
            let name: Vec<u8> = if is_dir || (is_ldir && self.rng.chance(2, 3)) {
                self.rng.pick(DIR_NAMES).to_vec()
            } else {
                self.rng.pick(FILE_NAMES).to_vec()
            };
            if used.contains(&name) { continue; }
            used.push(name.clone());
            self.budget -= 1;
            if is_dir {
                let cs = self.children(depth + 1);
                v.push(Node::Dir(name, cs));
            } else if is_ldir {
                let t = self.rng.pick(DIR_NAMES).to_vec();
                let cs = self.children(depth + 1);
                v.push(Node::LinkDir(name, t, cs));
            } else if is_lfile {
                let t = self.rng.pick(FILE_NAMES).to_vec();
                v.push(Node::LinkFile(name, t));
            } else {
                v.push(Node::File(name));
            }
        }
        v
    }
}

fn fixed_cases() -> Vec<Vec<Node>> {
    let f = |s: &[u8]| Node::File(s.to_vec());
    let d = |s: &[u8], cs: Vec<Node>| Node::Dir(s.to_vec(), cs);
    vec![
        vec![],
        vec![f(b"a.log")],
        // joined-string order differs from component order
        vec![f(b"a-b"), d(b"a", vec![f(b"x")]), f(b"a.log"), f(b"a b")],
        // F10 witness
        vec![f(b"a.log"), f(b".b.log"), d(b".hid", vec![f(b"c.log")])],
        // a dot-name that is not UTF-8 is not "hidden" for jwalk
        vec![f(b".\xFF.log"), d(b".\xFF", vec![f(b"c.log")])],
        // links
        vec![Node::LinkFile(b"l.log".to_vec(), b"t.gz".to_vec()), Node::LinkDir(b"ld".to_vec(), b".tdir".to_vec(), vec![f(b"q.log"), f(b".h")])],
        // non-log names, tar-named junk, directory named like a log
        vec![f(b"x.png"), f(b"data.tar"), d(b"d.log", vec![f(b"m.zip"), f(b"k.1")])],
        // upper before lower (byte order)
        vec![f(b"b"), f(b"B"), f(b"a"), f(b"Z"), d(b"C", vec![f(b"x")])],
        // empty directories
        vec![d(b"e", vec![]), d(b"f", vec![d(b"g", vec![])])],
    ]
}

pub fn run(o: &Opts, out: &mut dyn Write) {
    quiet_panics();
    let mut rng = Rng::new(o.seed ^ 0x77a1);
    for t in fixed_cases() {
        writeln!(out, "walk tree {}\t{}", encode(&t), walk_impl(&t)).unwrap();
    }
    // files named explicitly, with and without a link whose target name has another type
    let named: &[(&[u8], Option<&[u8]>)] = &[
        (b"a.log", None), (b"x.png", None), (b"a.log", Some(b"t.gz")), (b"a.gz", Some(b"t.log")),
        (b"x.png", Some(b"y.journal")), (b"l", Some(b"p.png")), (b".b.log", None), (b"data.tar", None),
        (b"l.log", Some(b"data.tar")),
    ];
    for (n, t) in named {
        writeln!(out, "walk named {} {}\t{}", hex(n), t.map(hex).unwrap_or("-".to_string()), named_impl(n, *t)).unwrap();
    }
    for i in 0..o.n {
        if i % 10 == 9 {
            let n = rng.pick(FILE_NAMES);
            if std::str::from_utf8(n).is_err() { continue; }
            let t: Option<&[u8]> = if rng.chance(1, 2) { Some(rng.pick(FILE_NAMES)) } else { None };
            writeln!(out, "walk named {} {}\t{}", hex(n), t.map(hex).unwrap_or("-".to_string()), named_impl(n, t)).unwrap();
            continue;
        }
        let mut g = Gen { rng: &mut rng, budget: 12 };
        let t = g.children(0);
        writeln!(out, "walk tree {}\t{}", encode(&t), walk_impl(&t)).unwrap();
    }
}

pub fn replay_line(req: &str) -> String {
    let w: Vec<&str> = req.split_whitespace().collect();
    match w.as_slice() {
        ["walk", "tar", ..] => crate::c_walktar::replay_line(req),
        ["walk", "tree", spec] => match decode(spec) {
            Some(t) => walk_impl(&t),
            None => "bad-op".to_string(),
        },
        ["walk", "named", n, t] => {
            let n = unhex(n);
            let t: Option<Vec<u8>> = if *t == "-" { None } else { Some(unhex(t)) };
            named_impl(&n, t.as_deref())
        }
        _ => "bad-op".to_string(),
    }
}
