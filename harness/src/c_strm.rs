//! component `strm`: `BlockReader::is_streamed_file()` and what the readers above do with it,
//! against `S4V.Gen.Stream` (generated table / conditions) and `S4V.Model.Stream`.
//!
//! request   strm flag <ft> <arch>
//!   ft      Evtx | FixedStruct | Journal | Text | Unparsable;  arch  Normal | Bz2 | Gz | Lz4 | Tar | Xz | -
//! reply     streamed=<bool>   the REAL `is_streamed_file()` of a `BlockReader` opened over a container
//!                             built here (bz2: a constant made by Python's bz2) with that `FileType`
//!           | unopenable      `BlockReader::new` panics / fails for that file type (Evtx, Journal, Unparsable)
//!
//! request   strm seq <kind> <bs> <hex d> <keep 0|1> <order> <recipe>
//!   as `asm`, but with `disable_drop_data()` called after `new` when keep = 1; orders include
//!   backwards passes and bisections. reply as `asm`.
//!
//! request   strm proc <kind> <bs> <y|n> <A|n> <B|n> <recipe> <hex d>
//!   the whole per-file pipeline (`SyslogProcessor` stages 0-3 and the streaming loop with
//!   `drop_data_try`, as `exec_syslogprocessor` drives it) over the container AND over the plain file.
//!   `y|n`: the timestamps carry a year / do not (then stage 2 reads the file backwards).
//! reply     same drop=<is_drop_data() after stage 1> streamed=<is_streamed_file()>
//!           | differs at <i>: <container msg> vs <plain msg> … | verdict <name>
use crate::c_asm::{build_gz, build_lz4, build_tar, build_xz, ft, read_all, MEMBER};
use crate::c_line::{tmpdir, write_tmp};
use crate::util::*;
use chrono::{FixedOffset, TimeZone};
use s4lib::common::{FileProcessingResult, FileType, FileTypeArchive, FileTypeFixedStruct, FileTypeTextEncoding, ResultS3};
use s4lib::data::datetime::DateTimeLOpt;
use s4lib::data::sysline::SyslineP;
use s4lib::readers::blockreader::BlockReader;
use s4lib::readers::syslogprocessor::SyslogProcessor;
use std::io::Write;

/// `bz2.compress(b"2024-01-01 00:00:00 hello\n")`
const TINY_BZ2: &str = "425a68393141592653594c687fc500000859000010400274100244a000310340d012a7a469b53264caa867687c06a1173787c5dc914e1424131a1ff140";
const TINY: &[u8] = b"2024-01-01 00:00:00 hello\n";
const MTIME: u64 = 1_700_000_000;

fn arch_of(s: &str) -> Option<FileTypeArchive> {
    Some(match s {
        "Normal" | "plain" => FileTypeArchive::Normal,
        "Bz2" | "bz2" => FileTypeArchive::Bz2,
        "Gz" | "gz" => FileTypeArchive::Gz,
        "Lz4" | "lz4" => FileTypeArchive::Lz4,
        "Tar" | "tar" => FileTypeArchive::Tar,
        "Xz" | "xz" => FileTypeArchive::Xz,
        _ => return None,
    })
}

fn filetype_of(t: &str, a: FileTypeArchive) -> Option<FileType> {
    Some(match t {
        "Evtx" => FileType::Evtx { archival_type: a },
        "FixedStruct" => FileType::FixedStruct { archival_type: a, fixedstruct_type: FileTypeFixedStruct::Utmpx },
        "Journal" => FileType::Journal { archival_type: a },
        "Text" => FileType::Text { archival_type: a, encoding_type: FileTypeTextEncoding::Utf8Ascii },
        "Unparsable" => FileType::Unparsable,
        _ => return None,
    })
}

fn set_mtime(path: &str) {
    if let Ok(f) = std::fs::File::options().write(true).open(path) {
        let _ = f.set_modified(std::time::UNIX_EPOCH + std::time::Duration::from_secs(MTIME));
    }
}

/// container bytes + file suffix for `d`; bz2 only for the constant
fn container(a: FileTypeArchive, d: &[u8], recipe: &str) -> Option<(Vec<u8>, &'static str)> {
    Some(match a {
        FileTypeArchive::Normal => (d.to_vec(), ".log"),
        FileTypeArchive::Gz => (build_gz(d, if recipe == "-" { "l6;0;1700000000;f" } else { recipe }), ".log.gz"),
        FileTypeArchive::Xz => (build_xz(d), ".log.xz"),
        FileTypeArchive::Lz4 => (build_lz4(d, if recipe == "-" { "b4;I;f" } else { recipe }).0, ".log.lz4"),
        FileTypeArchive::Tar => (build_tar(d, if recipe == "-" { "u;1;1" } else { recipe }), ".tar"),
        FileTypeArchive::Bz2 => if d == TINY { (unhex(TINY_BZ2), ".log.bz2") } else { return None },
    })
}

fn flag(t: &str, arch: &str) -> String {
    let a = match arch_of(arch) { Some(a) => a, None => FileTypeArchive::Normal };
    let filetype = match filetype_of(t, a) { Some(f) => f, None => return "bad-op".to_string() };
    let (bytes, suffix) = container(a, TINY, "-").unwrap();
    let f = write_tmp(&bytes, suffix);
    let mut path = f.path().to_str().unwrap().to_string();
    if a == FileTypeArchive::Tar { path = format!("{}|{}", path, MEMBER); }
    let r = guarded(move || match BlockReader::new(path, filetype, 16) {
        Ok(br) => format!("streamed={}", br.is_streamed_file()),
        Err(_) => "unopenable".to_string(),
    });
    match r { Ok(s) => s, Err(_) => "unopenable".to_string() }
}

fn dt_opt(s: &str) -> DateTimeLOpt {
    if s == "n" { return None; }
    let t: i64 = s.parse().unwrap();
    Some(FixedOffset::east_opt(0).unwrap().timestamp_opt(t, 0).unwrap())
}

/// (`ok <msgs>` | verdict name, `is_drop_data()` after stage 1)
fn pipeline(path: String, filetype: FileType, bs: u64, a: DateTimeLOpt, b: DateTimeLOpt, d: Vec<u8>) -> (String, String) {
    let r = guarded(move || {
        let mut sp = match SyslogProcessor::new(path, filetype, bs, FixedOffset::east_opt(0).unwrap(), a, b) {
            Ok(v) => v,
            Err(e) => return (format!("err-new {}", e.kind()), "-".to_string()),
        };
        let name = |r: &FileProcessingResult<std::io::Error>| format!("{:?}", r).split('(').next().unwrap().to_string();
        let r0 = sp.process_stage0_valid_file_check();
        if !r0.is_ok() { return (name(&r0), "-".to_string()); }
        let r1 = sp.process_stage1_blockzero_analysis();
        if !r1.is_ok() { return (name(&r1), "-".to_string()); }
        let dropf = format!("{}", sp.is_drop_data());
        let r2 = sp.process_stage2_find_dt(&a);
        if !r2.is_ok() { return (name(&r2), dropf); }
        let mut msgs: Vec<String> = vec![];
        let show = |s: &SyslineP, d: &[u8]| -> String {
            let (bb, e) = (s.fileoffset_begin() as usize, s.fileoffset_end() as usize);
            let okb = e < d.len() && bb <= e && s.verif_bytes() == d[bb..=e];
            format!("{}-{}-{}{}", bb, e, s.dt().timestamp(), if okb { "" } else { "-BYTES" })
        };
        let mut fo1: u64 = 0;
        let search_more: bool;
        match sp.find_sysline_between_datetime_filters(0) {
            ResultS3::Found((fo, s)) => {
                fo1 = fo;
                let is_last = sp.is_sysline_last(&s);
                msgs.push(show(&s, &d));
                search_more = !is_last;
            }
            ResultS3::Done => { search_more = false; }
            ResultS3::Err(e) => { msgs.push(format!("err-{}", e.kind())); search_more = false; }
        }
        if search_more {
            sp.process_stage3_stream_syslines();
            let mut last: Option<SyslineP> = None;
            let mut guard = 0usize;
            loop {
                guard += 1;
                if guard > d.len() + 5 { msgs.push("LOOP".to_string()); break; }
                match sp.find_sysline_between_datetime_filters(fo1) {
                    ResultS3::Found((fo, s)) => {
                        let tmp = s.clone();
                        let is_last = sp.is_sysline_last(&s);
                        msgs.push(show(&s, &d));
                        drop(s);
                        fo1 = fo;
                        if is_last { break; }
                        if let Some(l) = last.take() { sp.drop_data_try(&l); }
                        last = Some(tmp);
                    }
                    ResultS3::Done => break,
                    ResultS3::Err(e) => { msgs.push(format!("err-{}", e.kind())); break; }
                }
            }
        }
        (format!("ok {}", msgs.join(",")), dropf)
    });
    match r { Ok(s) => s, Err(m) => (format!("panic {}", m), "-".to_string()) }
}

fn proc_op(w: &[&str]) -> String {
    // strm proc <kind> <bs> <y|n> <A|n> <B|n> <recipe> <hex d>
    let a = match arch_of(w[2]) { Some(a) => a, None => return "bad-op".to_string() };
    let bs: u64 = w[3].parse().unwrap();
    let (fa, fb) = (dt_opt(w[5]), dt_opt(w[6]));
    let recipe = w[7];
    let d = unhex(w[8]);
    // the container
    let mut keep_alive = None;
    let mut path = if let Some(p) = recipe.strip_prefix("file=") { p.to_string() } else {
        let (bytes, suffix) = match container(a, &d, recipe) { Some(x) => x, None => return "bad-op no-encoder".to_string() };
        let f = write_tmp(&bytes, suffix);
        let p = f.path().to_str().unwrap().to_string();
        keep_alive = Some(f);
        p
    };
    set_mtime(&path);
    if a == FileTypeArchive::Tar && !path.contains('|') { path = format!("{}|{}", path, MEMBER); }
    let streamed = {
        let p = path.clone();
        match guarded(move || BlockReader::new(p, ft(a), bs).map(|br| br.is_streamed_file())) {
            Ok(Ok(v)) => format!("{}", v),
            _ => "-".to_string(),
        }
    };
    let (got, drop) = pipeline(path, ft(a), bs, fa, fb, d.clone());
    drop_file(keep_alive);
    // the plain file
    let pf = write_tmp(&d, ".log");
    let pp = pf.path().to_str().unwrap().to_string();
    set_mtime(&pp);
    let (want, _) = pipeline(pp, ft(FileTypeArchive::Normal), bs, fa, fb, d);
    if !want.starts_with("ok ") { return format!("verdict plain {}", want.split(' ').next().unwrap_or("")); }
    if !got.starts_with("ok ") { return format!("verdict {}", &got[..got.len().min(80)]); }
    if got == want {
        return format!("same drop={} streamed={}", drop, streamed);
    }
    let g: Vec<&str> = got[3..].split(',').collect();
    let p: Vec<&str> = want[3..].split(',').collect();
    let i = (0..g.len().max(p.len())).find(|i| g.get(*i) != p.get(*i)).unwrap_or(0);
    format!("differs at {}: {} vs {} (container {} msgs, plain {}) drop={} streamed={}", i,
            g.get(i).unwrap_or(&"-"), p.get(i).unwrap_or(&"-"), g.len(), p.len(), drop, streamed)
}

fn drop_file(f: Option<tempfile::NamedTempFile>) { drop(f); }

pub fn replay_line(req: &str) -> String {
    let w: Vec<&str> = req.split(' ').filter(|x| !x.is_empty()).collect();
    if w.len() < 2 || w[0] != "strm" { return "bad-op".to_string(); }
    match w[1] {
        "flag" if w.len() == 4 => flag(w[2], w[3]),
        "seq" if w.len() >= 8 => {
            let kind = w[2];
            let a = match arch_of(kind) { Some(a) => a, None => return "bad-op".to_string() };
            let bs: u64 = w[3].parse().unwrap();
            let d = unhex(w[4]);
            let keep = w[5] == "1";
            let order: Vec<u64> = if w[6] == "-" { vec![] } else { w[6].split(',').map(|x| x.parse().unwrap()).collect() };
            let recipe = w[7..].join(" ");
            if let Some(p) = recipe.strip_prefix("file=") {
                return read_all(p.to_string(), ft(a), bs, order, d, keep);
            }
            let (bytes, suffix) = match container(a, &d, &recipe) { Some(x) => x, None => return "bad-op no-encoder".to_string() };
            let f = write_tmp(&bytes, suffix);
            let mut path = f.path().to_str().unwrap().to_string();
            if a == FileTypeArchive::Tar { path = format!("{}|{}", path, MEMBER); }
            read_all(path, ft(a), bs, order, d, keep)
        }
        "proc" if w.len() == 9 => proc_op(&w),
        _ => "bad-op".to_string(),
    }
}

fn join(o: &[u64]) -> String {
    if o.is_empty() { "-".to_string() } else { o.iter().map(|x| x.to_string()).collect::<Vec<_>>().join(",") }
}

/// midpoints of a bisection of `[a, b]` for target `t` (as `S4V.Model.StreamSearch.bisect`)
fn bisect(mut a: u64, mut b: u64, t: u64) -> Vec<u64> {
    let mut v = vec![0u64];
    for _ in 0..70 {
        let mid = a + (b - a) / 2;
        v.push(mid);
        if mid == t || b <= a { break; }
        if t < mid { b = mid; } else { a = mid + 1; }
    }
    v
}

fn orders(rng: &mut Rng, nblocks: u64) -> Vec<Vec<u64>> {
    let last = nblocks.saturating_sub(1);
    let cap = 40usize;
    let mut v: Vec<Vec<u64>> = vec![];
    // backwards from the end (the year pass)
    let mut back: Vec<u64> = (0..=last).rev().collect();
    back.truncate(cap);
    v.push(back.clone());
    // backwards, then forwards again (year pass, then streaming)
    let mut bf = back.clone();
    bf.extend((0..=last).take(cap));
    v.push(bf);
    // bisection for a random target
    v.push(bisect(0, last, rng.below(nblocks as usize + 1) as u64));
    v.push(bisect(0, last, 0));
    // forwards
    v.push((0..=last + 1).take(cap).collect());
    // random
    v.push((0..(3 + rng.below(12))).map(|_| rng.below(nblocks as usize + 2) as u64).collect());
    v
}

fn stamp(t: i64, year: bool) -> String {
    let dt = FixedOffset::east_opt(0).unwrap().timestamp_opt(t, 0).unwrap();
    if year { dt.format("%Y-%m-%d %H:%M:%S").to_string() } else { dt.format("%b %e %H:%M:%S").to_string() }
}

/// a multi-block text log; every instant is in 2023 before `MTIME` (2023-11-14), so that the year
/// guessed for a year-less log is 2023 as well
pub fn gen_log(rng: &mut Rng, n: usize, year: bool) -> (Vec<u8>, Vec<i64>) {
    let mut d: Vec<u8> = vec![];
    let mut ts = vec![];
    let mut t: i64 = 1_672_531_200 + rng.below(86400 * 20) as i64;
    for i in 0..n {
        t += rng.pick(&[0i64, 1, 1, 2, 30, 600, 7200]);
        ts.push(t);
        d.extend(stamp(t, year).as_bytes());
        d.extend(format!(" host prog[{}]: message {} ", 100 + i % 7, i).as_bytes());
        for _ in 0..rng.below(40) { d.push(b'a' + rng.below(26) as u8); }
        d.push(b'\n');
        if rng.chance(1, 6) {
            d.extend(b"   continued ");
            for _ in 0..rng.below(30) { d.push(b'a' + rng.below(26) as u8); }
            d.push(b'\n');
        }
    }
    (d, ts)
}

pub fn run(o: &Opts, out: &mut dyn Write) {
    quiet_panics();
    let mut rng = Rng::new(o.seed ^ 0x57a3);
    let emit = |out: &mut dyn Write, req: String| {
        let r = replay_line(&req);
        writeln!(out, "{}\t{}", req, r).unwrap();
    };
    // 1. the flag, for every (file type, archive)
    for t in ["Evtx", "FixedStruct", "Journal", "Text"] {
        for a in ["Normal", "Bz2", "Gz", "Lz4", "Tar", "Xz"] {
            emit(out, format!("strm flag {} {}", t, a));
        }
    }
    emit(out, "strm flag Unparsable -".to_string());
    // corpus written by Python: <dir>/index_strm.tsv lines `bz2<TAB>path<TAB>rawpath<TAB>y|n`
    let corpus: Vec<(String, String, Vec<u8>, String)> = match o.extra.iter().position(|x| x == "corpus") {
        Some(i) => {
            let dir = &o.extra[i + 1];
            let idx = std::fs::read_to_string(format!("{}/index_strm.tsv", dir)).unwrap_or_default();
            idx.lines().filter(|l| !l.is_empty()).map(|l| {
                let f: Vec<&str> = l.split('\t').collect();
                (f[0].to_string(), f[1].to_string(), std::fs::read(f[2]).unwrap(), f[3].to_string())
            }).collect()
        }
        None => vec![],
    };
    let window = |rng: &mut Rng, ts: &[i64]| -> (String, String) {
        match rng.below(4) {
            0 => ("n".to_string(), "n".to_string()),
            1 => (ts[rng.below(ts.len())].to_string(), "n".to_string()),
            2 => ("n".to_string(), ts[rng.below(ts.len())].to_string()),
            _ => { let (x, y) = (ts[rng.below(ts.len())], ts[rng.below(ts.len())]); (x.min(y).to_string(), x.max(y).to_string()) }
        }
    };
    for (kind, path, raw, y) in corpus.iter() {
        let nb_at = |bs: u64| (raw.len() as u64 + bs - 1) / bs;
        for bs in [256u64, 1000, 4096] {
            if nb_at(bs) < 2 { continue; }
            for keep in [0, 1] {
                for ord in orders(&mut rng, nb_at(bs)).into_iter().take(4) {
                    emit(out, format!("strm seq {} {} {} {} {} file={}", kind, bs, hex(raw), keep, join(&ord), path));
                }
            }
            // instants of the corpus logs: recover from the plain pipeline is not needed; windows by position
            emit(out, format!("strm proc {} {} {} n n file={} {}", kind, bs, y, path, hex(raw)));
        }
    }
    // 2. request orders a one-way stream cannot answer unless every block is kept
    let kinds = ["plain", "gz", "lz4", "xz", "tar"];
    let mut n = 0usize;
    while n < o.n / 2 {
        let bs: u64 = rng.pick(&[1u64, 2, 3, 5, 8, 16, 64, 100]);
        let len = match rng.below(5) { 0 => (bs as usize) * (1 + rng.below(8)), 1 => 1 + rng.below(4), _ => 1 + rng.below((bs as usize) * 14) };
        let d = crate::c_asm::gen_data(&mut rng, len);
        let h = hex(&d);
        let nb = (len as u64 + bs - 1) / bs;
        for kind in kinds.iter() {
            for keep in [0, 1] {
                let ords = orders(&mut rng, nb);
                let pick = [ords[0].clone(), ords[rng.below(ords.len())].clone()];
                for ord in pick {
                    emit(out, format!("strm seq {} {} {} {} {} -", kind, bs, h, keep, join(&ord)));
                    n += 1;
                }
            }
        }
    }
    // 3. the pipeline over multi-block logs, with and without a year, with and without a window
    let mut m = 0usize;
    let budget = (o.n / 40).max(10);
    while m < budget {
        let year = m % 2 == 0;
        let nmsg = 30 + rng.below(if o.thorough { 400 } else { 150 });
        let (d, ts) = gen_log(&mut rng, nmsg, year);
        let bs: u64 = rng.pick(&[256u64, 300, 512, 1000, 2048]);
        let (a, b) = if year { window(&mut rng, &ts) } else if rng.chance(1, 2) { ("n".to_string(), "n".to_string()) } else { window(&mut rng, &ts) };
        for kind in ["gz", "lz4", "xz", "tar", "plain"] {
            emit(out, format!("strm proc {} {} {} {} {} - {}", kind, bs, if year { "y" } else { "n" }, a, b, hex(&d)));
            m += 1;
        }
    }
    let _ = tmpdir();
}
