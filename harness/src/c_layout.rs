//! component `layout`: which `FixedStructType` an accounting-record file is read with.
//! The REAL `FixedStructReader::new` (→ `preprocess_fixedstructtype` → `filesz_to_types` + `score_file`), the REAL
//! `FixedStructReader::score_file` with one candidate at a time, and the REAL `buffer_to_fixedstructptr` +
//! `FixedStruct::score_fixedstruct`, against `S4V.Model.LayoutDetect` over the generated candidate table and score
//! programs (driver ops `layout score`, `layout file`; executable `drv_layout`).
//!
//! request   layout score <FixedStructType variant> <bonus> <hex record>
//! reply     score <n>     `score_fixedstruct(&buffer_to_fixedstructptr(record, t).unwrap(), bonus)`
//!           none          `buffer_to_fixedstructptr` returned `None` (all 0x00 / all 0xFF)
//!           overread      no NUL byte from the layout's last scored string field to the end of the record: the real
//!                         `score_fixedstruct` would run `CStr::from_ptr` beyond the record (and the heap allocation holding
//!                         it); the implementation is NOT called
//!           bad-layout | bad-size (record length != `t.size()`; not called)
//!
//! request   layout file <FileTypeFixedStruct variant> <hex file>
//! reply     <verdict> <variant>=<high_score>,…      | ERR Empty | ERR TooSmall | ERR NoValid - | overread-risk
//!             verdict   what `FixedStructReader::new(path, FixedStruct{Normal, kind}, blocksz, +00:00, None, None)` returned:
//!                       `OK <fixedstruct_type()> <summary().high_score>` | `ERR NoValid` | `ERR Empty` | `ERR TooSmall` | `ERR Io`
//!                       | `ERR DtFilters`. The candidate set is a `BTreeMap` (declaration order of `FixedStructType`), so the
//!                       outcome is reproducible also when two candidates reach the same maximum: ties are compared too.
//!             list      per candidate (insertion order of `filesz_to_types`): the `high_score` the real `score_file` returns
//!                       when called with that single candidate and its bonus (`FileErrNoHighScore` = 0)
//!             `-`       no candidate (the real outcome must then be NoValid)
//!             overread-risk   some non-null record of some candidate layout would be over-read (see above): not called
//! block size: derived from the request (sum of the file's bytes), so replays are reproducible; the model does not depend on it.
use crate::util::*;
use chrono::FixedOffset;
use s4lib::common::{FileType, FileTypeArchive, FileTypeFixedStruct};
use s4lib::data::fixedstruct::{buffer_to_fixedstructptr, FixedStruct, FixedStructType, Score};
use s4lib::readers::blockreader::BlockReader;
use s4lib::readers::fixedstructreader::{FixedStructReader, ResultFixedStructReaderNew, ResultFixedStructReaderScoreFile};
use std::collections::BTreeMap;
use std::io::Write;

use FileTypeFixedStruct as K;
use FixedStructType::*;

/// where the scored fields lie (printed by `python3 gen/gen_layoutdetect.py <repo>`)
#[derive(Clone, Copy)]
#[allow(dead_code)]
enum H {
    /// offset, length
    Cstr(usize, usize),
    /// offset, width
    Time(usize, usize),
    /// offset, largest table value
    UtType(usize, i64),
    /// offset, mask
    Flag(usize, u8),
    NotZero(usize, usize),
    Pad(usize, usize),
}

struct L {
    t: FixedStructType,
    /// offset of the last field scored through `CStr::from_ptr`
    last_cstr: usize,
    /// kinds under which `filesz_to_types` inserts this layout with BONUS
    bonus_kinds: &'static [FileTypeFixedStruct],
    /// the `or_insert` value of the "try all types anyway" row, if the layout has one
    always: Option<i32>,
    hints: &'static [H],
}

const LAYOUTS: [L; 16] = [
    L { t: Fs_Freebsd_x8664_Utmpx, last_cstr: 84, bonus_kinds: &[K::Utmpx], always: Some(0), hints: &[H::Cstr(36, 32), H::Cstr(68, 16), H::Cstr(84, 128), H::Time(8, 8), H::Pad(212, 64), H::UtType(0, 8)] },
    L { t: Fs_Linux_Arm64Aarch64_Lastlog, last_cstr: 40, bonus_kinds: &[K::Lastlog], always: Some(0), hints: &[H::Cstr(8, 32), H::Cstr(40, 256), H::Time(0, 8)] },
    L { t: Fs_Linux_Arm64Aarch64_Utmpx, last_cstr: 76, bonus_kinds: &[K::Utmpx], always: Some(0), hints: &[H::Cstr(8, 32), H::Cstr(44, 32), H::Cstr(76, 256), H::Time(344, 8), H::Pad(376, 20), H::UtType(0, 8)] },
    L { t: Fs_Linux_x86_Acct, last_cstr: 36, bonus_kinds: &[K::Acct], always: Some(0), hints: &[H::Cstr(36, 17), H::Time(8, 4), H::Pad(53, 10), H::Flag(0, 31)] },
    L { t: Fs_Linux_x86_Acct_v3, last_cstr: 48, bonus_kinds: &[K::AcctV3], always: Some(0), hints: &[H::Cstr(48, 16), H::Time(24, 4), H::NotZero(1, 1), H::Flag(0, 31)] },
    L { t: Fs_Linux_x86_Lastlog, last_cstr: 36, bonus_kinds: &[K::Lastlog], always: Some(0), hints: &[H::Time(0, 4), H::Cstr(4, 32), H::Cstr(36, 256)] },
    L { t: Fs_Linux_x86_Utmpx, last_cstr: 76, bonus_kinds: &[K::Utmpx], always: Some(0), hints: &[H::Cstr(8, 32), H::Cstr(40, 4), H::Cstr(44, 32), H::Cstr(76, 256), H::Time(340, 4), H::Pad(364, 20), H::UtType(0, 8)] },
    L { t: Fs_Netbsd_x8632_Acct, last_cstr: 0, bonus_kinds: &[K::Acct], always: Some(0), hints: &[H::Cstr(0, 16), H::Time(24, 8), H::Pad(22, 2), H::Pad(53, 3), H::Flag(52, 31)] },
    L { t: Fs_Netbsd_x8632_Lastlogx, last_cstr: 44, bonus_kinds: &[K::Lastlogx], always: Some(0), hints: &[H::Cstr(12, 32), H::Cstr(44, 256), H::Time(0, 8)] },
    L { t: Fs_Netbsd_x8632_Utmpx, last_cstr: 68, bonus_kinds: &[K::Utmpx], always: Some(0), hints: &[H::Cstr(0, 32), H::Cstr(32, 4), H::Cstr(36, 32), H::Cstr(68, 256), H::Time(464, 8), H::Pad(476, 40), H::UtType(326, 11)] },
    L { t: Fs_Netbsd_x8664_Lastlog, last_cstr: 16, bonus_kinds: &[K::Lastlog], always: Some(0), hints: &[H::Cstr(8, 8), H::Cstr(16, 16), H::Time(0, 8)] },
    L { t: Fs_Netbsd_x8664_Lastlogx, last_cstr: 48, bonus_kinds: &[K::Lastlogx], always: Some(0), hints: &[H::Cstr(16, 32), H::Cstr(48, 256), H::Time(0, 8)] },
    L { t: Fs_Netbsd_x8664_Utmp, last_cstr: 16, bonus_kinds: &[K::Utmp], always: Some(0), hints: &[H::Cstr(0, 8), H::Cstr(8, 8), H::Cstr(16, 16), H::Time(32, 8)] },
    L { t: Fs_Netbsd_x8664_Utmpx, last_cstr: 68, bonus_kinds: &[K::Utmpx], always: Some(0), hints: &[H::Cstr(0, 32), H::Cstr(32, 4), H::Cstr(36, 32), H::Cstr(68, 256), H::Time(464, 8), H::Pad(336, 128), H::Pad(480, 36), H::UtType(326, 11)] },
    L { t: Fs_Openbsd_x86_Lastlog, last_cstr: 16, bonus_kinds: &[K::Lastlog], always: Some(0), hints: &[H::Time(0, 8), H::Cstr(8, 8), H::Cstr(16, 256)] },
    L { t: Fs_Openbsd_x86_Utmp, last_cstr: 40, bonus_kinds: &[K::Utmp], always: Some(0), hints: &[H::Cstr(0, 8), H::Cstr(8, 32), H::Cstr(40, 256), H::Time(296, 8)] },
];
const BONUS: i32 = 15;

const KINDS: [FileTypeFixedStruct; 6] = [K::Acct, K::AcctV3, K::Lastlog, K::Lastlogx, K::Utmp, K::Utmpx];

fn by_name(name: &str) -> Option<&'static L> {
    LAYOUTS.iter().find(|l| format!("{:?}", l.t) == name)
}

fn kind_by_name(name: &str) -> Option<FileTypeFixedStruct> {
    KINDS.iter().copied().find(|k| format!("{:?}", k) == name)
}

fn is_null(rec: &[u8]) -> bool {
    rec.iter().all(|&b| b == 0) || rec.iter().all(|&b| b == 0xFF)
}

fn would_overread(l: &L, rec: &[u8]) -> bool {
    !rec[l.last_cstr..].contains(&0)
}

/// candidate (layout, bonus) pairs in the insertion order of `filesz_to_types`
fn cands(kind: FileTypeFixedStruct, len: usize) -> Vec<(&'static L, i32)> {
    let mut v: Vec<(&'static L, i32)> = vec![];
    if len == 0 { return v; }
    for l in LAYOUTS.iter() {
        if l.bonus_kinds.contains(&kind) && len % l.t.size() == 0 { v.push((l, BONUS)); }
    }
    for l in LAYOUTS.iter() {
        if let Some(x) = l.always {
            if len % l.t.size() == 0 && !v.iter().any(|c| c.0.t == l.t) { v.push((l, x)); }
        }
    }
    v
}

fn blocksz_for(data: &[u8]) -> u64 {
    const BS: [u64; 9] = [0x10000, 64, 0x10000, 100, 512, 0x10000, 1000, 4096, 2];
    let s: usize = data.iter().map(|&b| b as usize).sum::<usize>() + data.len();
    let b = BS[s % BS.len()];
    // a 2-byte block size on a larger file only costs time
    if b == 2 && data.len() > 600 { 0x10000 } else { b }
}

fn score_reply(l: &'static L, bonus: Score, rec: Vec<u8>) -> String {
    if rec.len() != l.t.size() { return "bad-size".to_string(); }
    if !is_null(&rec) && would_overread(l, &rec) { return "overread".to_string(); }
    let t = l.t;
    match guarded(move || buffer_to_fixedstructptr(&rec, t).map(|p| FixedStruct::score_fixedstruct(&p, bonus))) {
        Ok(Some(s)) => format!("score {}", s),
        Ok(None) => "none".to_string(),
        Err(m) => format!("panic:{}", m.replace(' ', "_")),
    }
}

fn new_outcome(path: &str, kind: FileTypeFixedStruct, bs: u64) -> Result<(FixedStructType, Score), &'static str> {
    let ft = FileType::FixedStruct { archival_type: FileTypeArchive::Normal, fixedstruct_type: kind };
    let tz = FixedOffset::east_opt(0).unwrap();
    match FixedStructReader::new(path.to_string(), ft, bs, tz, None, None) {
        ResultFixedStructReaderNew::FileOk(r) => Ok((r.fixedstruct_type(), r.summary().fixedstructreader_high_score)),
        ResultFixedStructReaderNew::FileErrEmpty => Err("Empty"),
        ResultFixedStructReaderNew::FileErrTooSmall(_) => Err("TooSmall"),
        ResultFixedStructReaderNew::FileErrNoValidFixedStruct => Err("NoValid"),
        ResultFixedStructReaderNew::FileErrNoFixedStructWithinDtFilters => Err("DtFilters"),
        ResultFixedStructReaderNew::FileErrIo(_) => Err("Io"),
    }
}

fn single_score(path: &str, kind: FileTypeFixedStruct, bs: u64, t: FixedStructType, bonus: Score) -> String {
    let ft = FileType::FixedStruct { archival_type: FileTypeArchive::Normal, fixedstruct_type: kind };
    let mut br = match BlockReader::new(path.to_string(), ft, bs) { Ok(b) => b, Err(_) => return "io".to_string() };
    let mut m: BTreeMap<FixedStructType, Score> = BTreeMap::new();
    m.insert(t, bonus);
    match FixedStructReader::score_file(&mut br, false, m) {
        ResultFixedStructReaderScoreFile::FileOk(t2, s, _) => if t2 == t { s.to_string() } else { format!("other:{:?}", t2) },
        ResultFixedStructReaderScoreFile::FileErrNoHighScore => "0".to_string(),
        ResultFixedStructReaderScoreFile::FileErrEmpty => "empty".to_string(),
        ResultFixedStructReaderScoreFile::FileErrNoValidFixedStruct => "novalid".to_string(),
        ResultFixedStructReaderScoreFile::FileErrIo(_) => "io".to_string(),
    }
}

fn file_reply(kind: FileTypeFixedStruct, data: Vec<u8>) -> String {
    let cs = cands(kind, data.len());
    for (l, _) in cs.iter() {
        for rec in data.chunks(l.t.size()) {
            if rec.len() == l.t.size() && !is_null(rec) && would_overread(l, rec) { return "overread-risk".to_string(); }
        }
    }
    let bs = blocksz_for(&data);
    let f = crate::c_line::write_tmp(&data, ".fixed");
    let path = f.path().to_str().unwrap().to_string();
    let p2 = path.clone();
    let real = match guarded(move || new_outcome(&p2, kind, bs)) {
        Ok(r) => r,
        Err(m) => return format!("panic:{}", m.replace(' ', "_")),
    };
    match real {
        Err("Empty") => return "ERR Empty".to_string(),
        Err("TooSmall") => return "ERR TooSmall".to_string(),
        _ => {}
    }
    let mut list: Vec<(FixedStructType, String)> = vec![];
    for (l, b) in cs.iter() {
        let (p3, t, b) = (path.clone(), l.t, *b);
        let s = match guarded(move || single_score(&p3, kind, bs, t, b)) { Ok(s) => s, Err(m) => format!("panic:{}", m.replace(' ', "_")) };
        list.push((l.t, s));
    }
    // the candidate set is a BTreeMap now: the real outcome is reproducible, ties included
    let verdict = match real {
        Ok((t, s)) => format!("OK {:?} {}", t, s),
        Err(e) => format!("ERR {}", e),
    };
    let lst = if list.is_empty() { "-".to_string() } else { list.iter().map(|(t, s)| format!("{:?}={}", t, s)).collect::<Vec<_>>().join(",") };
    format!("{} {}", verdict, lst)
}

pub fn replay_line(req: &str) -> String {
    let w: Vec<&str> = req.split_whitespace().collect();
    if w.len() == 5 && w[0] == "layout" && w[1] == "score" {
        let l = match by_name(w[2]) { Some(l) => l, None => return "bad-layout".to_string() };
        let bonus: Score = match w[3].parse() { Ok(b) => b, Err(_) => return "bad-op".to_string() };
        return score_reply(l, bonus, unhex(w[4]));
    }
    if w.len() == 4 && w[0] == "layout" && w[1] == "file" {
        let k = match kind_by_name(w[2]) { Some(k) => k, None => return "bad-op".to_string() };
        return file_reply(k, unhex(w[3]));
    }
    "bad-op".to_string()
}

// ------------------------------------------------------------------------------------------------
// generators

const WORDS: [&[u8]; 12] = [b"root", b"pts/0", b"tty1", b"alice", b"reboot", b"192.168.1.20", b"host7.example.org", b"~", b"ts/1", b"bash",
    b"sshd", b"LOGIN"];

fn put(rec: &mut [u8], off: usize, width: usize, v: i128) {
    let b = v.to_le_bytes();
    rec[off..off + width].copy_from_slice(&b[..width]);
}

/// a record whose scored fields look the way the layout expects (with deliberate faults at rate `fault`/8)
fn plausible(rng: &mut Rng, l: &L, fault: usize) -> Vec<u8> {
    let sz = l.t.size();
    let mut rec: Vec<u8> = if rng.chance(1, 6) { (0..sz).map(|_| if rng.chance(1, 5) { rng.next() as u8 } else { 0 }).collect() } else { vec![0u8; sz] };
    for h in l.hints.iter() {
        let bad = rng.below(8) < fault;
        match *h {
            H::Cstr(off, len) => {
                for b in rec[off..off + len].iter_mut() { *b = 0; }
                let mut s: Vec<u8> = WORDS[rng.below(WORDS.len())].to_vec();
                if rng.chance(1, 4) { s.extend_from_slice(WORDS[rng.below(WORDS.len())]); }
                if rng.chance(1, 8) { s.clear(); }
                if rng.chance(1, 10) { while s.len() < len { s.push(b'a' + rng.below(26) as u8); } }   // no NUL inside the field
                s.truncate(len);
                rec[off..off + s.len()].copy_from_slice(&s);
                if bad {
                    match rng.below(4) {
                        0 => { let j = off + rng.below(len); rec[j] = 0x80 + rng.below(0x80) as u8; }
                        1 => { let j = off + rng.below(len); rec[j] = 0xFF; }
                        2 => { let j = off + rng.below(len); rec[j] = 1 + rng.below(31) as u8; }
                        _ => { rec[off + len - 1] = b'x'; }
                    }
                }
            }
            H::Time(off, w) => {
                let v: i128 = if bad {
                    *[0i128, 1, 946684799, 2147483648, -1, 4102444800, 86400].get(rng.below(7)).unwrap()
                } else {
                    *[946684800i128, 2147483647, 1700000000, 1234567890].get(rng.below(4)).unwrap() + if rng.chance(1, 2) { 0 } else { rng.range(-3, 3) as i128 }
                };
                put(&mut rec, off, w, v);
            }
            H::UtType(off, mx) => {
                let v: i128 = if bad { [-1i128, mx as i128 + 1, 300, 0x7fff][rng.below(4)] } else { rng.range(0, mx) as i128 };
                put(&mut rec, off, 2, v);
            }
            H::Flag(off, mask) => {
                rec[off] = if bad { (rng.next() as u8) | !mask } else { (rng.next() as u8) & mask };
            }
            H::NotZero(off, w) => { put(&mut rec, off, w, if bad { 0 } else { 1 + rng.below(5) as i128 }); }
            H::Pad(off, len) => {
                for b in rec[off..off + len].iter_mut() { *b = 0; }
                if bad { let j = off + if rng.chance(1, 2) { len - 1 } else { rng.below(len) }; rec[j] = 1 + rng.below(255) as u8; }
            }
        }
    }
    rec
}

/// make sure no candidate layout's non-null record lacks a NUL in its tail (the real code would over-read)
fn defuse(data: &mut Vec<u8>, rng: &mut Rng) {
    let len = data.len();
    for l in LAYOUTS.iter() {
        let sz = l.t.size();
        if len == 0 || len % sz != 0 { continue; }
        for i in 0..len / sz {
            let rec = &data[i * sz..(i + 1) * sz];
            if !is_null(rec) && would_overread(l, rec) {
                let j = i * sz + l.last_cstr + rng.below(sz - l.last_cstr);
                data[j] = 0;
            }
        }
    }
}

fn gen_file(rng: &mut Rng, k: usize) -> (FileTypeFixedStruct, Vec<u8>, &'static str) {
    let li = rng.below(LAYOUTS.len());
    let l = &LAYOUTS[li];
    let sz = l.t.size();
    let own_kind = if l.bonus_kinds.is_empty() { K::Lastlogx } else { l.bonus_kinds[0] };
    let kind = if rng.chance(3, 4) { own_kind } else { KINDS[rng.below(KINDS.len())] };
    let scen = k % 12;
    let (mut data, name): (Vec<u8>, &'static str) = match scen {
        0 | 1 | 2 => {
            let n = 1 + rng.below(7);
            let fault = [0, 0, 1, 3][rng.below(4)];
            ((0..n).flat_map(|_| plausible(rng, l, fault)).collect(), "plausible")
        }
        3 => {
            // sparse: null records before / between the real ones, more than COUNT_FOUND_ENTRIES_MAX real ones at times
            let n = 1 + rng.below(9);
            let mut v = vec![];
            for _ in 0..n {
                match rng.below(5) {
                    0 => v.extend(std::iter::repeat(0u8).take(sz * (1 + rng.below(3)))),
                    1 => v.extend(std::iter::repeat(0xFFu8).take(sz)),
                    _ => { let fl = rng.below(3); v.extend(plausible(rng, l, fl)) }
                }
            }
            (v, "sparse")
        }
        4 => {
            let n = 1 + rng.below(4);
            ((0..n * sz).map(|_| rng.next() as u8).collect(), "random")
        }
        5 => {
            // not a multiple of the layout's size
            let n = 1 + rng.below(3);
            let mut v: Vec<u8> = (0..n).flat_map(|_| plausible(rng, l, 0)).collect();
            if rng.chance(1, 2) { let cut = 1 + rng.below(sz - 1); v.truncate(v.len() - cut); } else { v.extend((0..1 + rng.below(40)).map(|_| rng.next() as u8)); }
            (v, "non-multiple")
        }
        6 => {
            // sizes shared by several layouts
            let total = [64usize, 128, 192, 384, 768, 1152, 400, 800, 280, 560, 1120, 2080, 1040, 1920, 2240, 320, 640, 1216, 3040, 2176]
                [rng.below(20)];
            let mut v = vec![];
            while v.len() < total {
                let m = &LAYOUTS[rng.below(LAYOUTS.len())];
                if total % m.t.size() == 0 || rng.chance(1, 6) { { let fl = rng.below(2); v.extend(plausible(rng, m, fl)); } } else if rng.chance(1, 20) { v.push(0); }
            }
            v.truncate(total);
            (v, "shared-size")
        }
        7 => {
            let n = rng.below(40);
            ((0..n).map(|_| rng.next() as u8).collect(), "tiny")
        }
        8 => {
            // nearly empty records: ties between layouts are likely
            let n = 1 + rng.below(3);
            let mut v = vec![0u8; n * sz];
            for _ in 0..1 + rng.below(3) { let j = rng.below(v.len()); v[j] = [1u8, b'a', 0x80, 0xFF, 7][rng.below(5)]; }
            (v, "nearly-null")
        }
        9 => {
            // same-size pair acct / acct_v3 and the 32-byte lastlog under every kind
            let a = &LAYOUTS[3 + rng.below(2)];
            let n = 1 + rng.below(6);
            ((0..n).flat_map(|_| { let fl = rng.below(2); plausible(rng, a, fl) }).collect(), "acct-pair")
        }
        10 => {
            // records of one layout in a file whose name hints at another kind
            let n = 1 + rng.below(5);
            ((0..n).flat_map(|_| plausible(rng, l, 0)).collect(), "foreign-kind")
        }
        _ => {
            // half plausible, half garbage
            let n = 2 + rng.below(5);
            let mut v = vec![];
            for _ in 0..n { if rng.chance(1, 2) { v.extend(plausible(rng, l, 1)); } else { v.extend((0..sz).map(|_| rng.next() as u8)); } }
            (v, "mixed")
        }
    };
    let kind = if scen == 10 { KINDS[rng.below(KINDS.len())] } else { kind };
    defuse(&mut data, rng);
    (kind, data, name)
}

pub fn run(opts: &Opts, out: &mut dyn Write) {
    quiet_panics();
    if opts.extra.first().map(|s| s.as_str()) == Some("demo-tie") {
        // s4h layout demo-tie <kind> <hex file> [runs]: the real FixedStructReader::new, repeatedly, on one file
        let kind = kind_by_name(&opts.extra[1]).unwrap();
        let data = unhex(&opts.extra[2]);
        let runs: usize = opts.extra.get(3).and_then(|s| s.parse().ok()).unwrap_or(200);
        let f = crate::c_line::write_tmp(&data, ".fixed");
        let path = f.path().to_str().unwrap().to_string();
        let mut tally: BTreeMap<String, usize> = BTreeMap::new();
        for _ in 0..runs {
            let r = match new_outcome(&path, kind, 0x10000) { Ok((t, s)) => format!("OK {:?} {}", t, s), Err(e) => format!("ERR {}", e) };
            *tally.entry(r).or_default() += 1;
        }
        for (k, v) in tally { writeln!(out, "{}\t{}", v, k).unwrap(); }
        return;
    }
    if opts.extra.first().map(|s| s.as_str()) == Some("demo-overread") {
        // s4h layout demo-overread <variant> <hex record> [runs]: the real score_fixedstruct on a record without NUL in its tail,
        // with different heap contents behind the Box
        let l = by_name(&opts.extra[1]).unwrap();
        let rec = unhex(&opts.extra[2]);
        let runs: usize = opts.extra.get(3).and_then(|s| s.parse().ok()).unwrap_or(8);
        for i in 0..runs {
            // churn the allocator with chunks of the record's size class, filled with a varying byte
            let junk: Vec<Vec<u8>> = (0..4 + i).map(|j| vec![(0x41 + i + j) as u8; l.t.size() + 8 * (j % 3)]).collect();
            drop(junk);
            let p = buffer_to_fixedstructptr(&rec, l.t).unwrap();
            let s = FixedStruct::score_fixedstruct(&p, 0);
            writeln!(out, "run {} score {}", i, s).unwrap();
        }
        return;
    }
    let mut rng = Rng::new(opts.seed.wrapping_mul(0x2545F4914F6CDD1D).wrapping_add(4242));
    let mut dist: BTreeMap<String, usize> = BTreeMap::new();
    let mut scen: BTreeMap<&'static str, usize> = BTreeMap::new();
    for k in 0..opts.n {
        if k % 5 < 2 {
            // one record, scored directly
            let l = &LAYOUTS[(k / 5) % LAYOUTS.len()];
            let sz = l.t.size();
            let mut rec: Vec<u8> = match rng.below(10) {
                0 => vec![0u8; sz],
                1 => vec![0xFFu8; sz],
                2 => (0..sz).map(|_| rng.next() as u8).collect(),
                3 => { let mut v = vec![0u8; sz]; let j = rng.below(sz); v[j] = 1 + rng.below(255) as u8; v }
                4 => { let mut v = vec![0xFFu8; sz]; let j = rng.below(sz); v[j] = rng.below(255) as u8; v }
                5 => plausible(&mut rng, l, 4),
                6 => plausible(&mut rng, l, 2),
                _ => plausible(&mut rng, l, 0),
            };
            // one in 16 keeps a tail without NUL (reply `overread`, implementation not called)
            if !rng.chance(1, 16) && !is_null(&rec) && would_overread(l, &rec) { let j = l.last_cstr + rng.below(sz - l.last_cstr); rec[j] = 0; }
            let bonus = [0, 15, 15, -3, 7][rng.below(5)];
            let req = format!("layout score {:?} {} {}", l.t, bonus, hex(&rec));
            let rep = replay_line(&req);
            let key = format!("score/{:?}/{}", l.t, if rep.starts_with("score -") { "negative" } else if rep.starts_with("score") { "positive" } else { rep.as_str() });
            *dist.entry(key).or_default() += 1;
            writeln!(out, "{}\t{}", req, rep).unwrap();
        } else {
            let (kind, data, name) = gen_file(&mut rng, k);
            *scen.entry(name).or_default() += 1;
            let req = format!("layout file {:?} {}", kind, hex(&data));
            let rep = replay_line(&req);
            let w: Vec<&str> = rep.split(' ').collect();
            let key = match w[0] {
                "OK" => format!("file/OK/{}", w[1]),
                "ERR" => format!("file/ERR/{}", w[1]),
                o => format!("file/{}", o),
            };
            *dist.entry(key).or_default() += 1;
            if w[0] == "OK" {
                let sc: Vec<&str> = w.last().unwrap().split(',').filter(|x| x.ends_with(&format!("={}", w[2]))).collect();
                if sc.len() >= 2 { *dist.entry("file/OK-with-tied-maximum".to_string()).or_default() += 1; }
            }
            *dist.entry(format!("kind/{:?}", kind)).or_default() += 1;
            writeln!(out, "{}\t{}", req, rep).unwrap();
        }
    }
    let j: Vec<String> = dist.iter().map(|(k, v)| format!("\"{}\": {}", k, v)).collect();
    writeln!(out, "# outcomes {{{}}}", j.join(", ")).unwrap();
    let j: Vec<String> = scen.iter().map(|(k, v)| format!("\"{}\": {}", k, v)).collect();
    writeln!(out, "# scenarios {{{}}}", j.join(", ")).unwrap();
}
