//! component `proc`: the whole per-file pipeline of a text log as `exec_syslogprocessor`
//! (src/bin/s4.rs) drives it: stage 0, stage 1 (block-zero gate), stage 2, then the streaming
//! loop with `drop_data_try`. request: proc <bs> <hex d> <A|n> <B|n>
//! reply: <verdict> | ok <beg>-<end>-<dt>,...
use crate::c_line::{write_tmp, FT_TEXT};
use crate::c_sysl::gen_log;
use crate::util::*;
use chrono::{FixedOffset, TimeZone};
use s4lib::common::{FileProcessingResult, ResultS3};
use s4lib::data::datetime::DateTimeLOpt;
use s4lib::data::sysline::SyslineP;
use s4lib::readers::syslogprocessor::SyslogProcessor;
use std::io::Write;

fn dt_opt(s: &str) -> DateTimeLOpt {
    if s == "n" { return None; }
    let t: i64 = s.parse().unwrap();
    Some(FixedOffset::east_opt(0).unwrap().timestamp_opt(t, 0).unwrap())
}

pub fn replay_line(req: &str) -> String {
    let w: Vec<&str> = req.split_whitespace().collect();
    if w.len() != 5 || w[0] != "proc" { return "bad-op".to_string(); }
    let bs: u64 = w[1].parse().unwrap();
    let d = unhex(w[2]);
    let a = dt_opt(w[3]);
    let b = dt_opt(w[4]);
    let f = write_tmp(&d, ".log");
    let path = f.path().to_str().unwrap().to_string();
    let r = guarded(move || {
        let mut sp = match SyslogProcessor::new(path, FT_TEXT, bs, FixedOffset::east_opt(0).unwrap(), a, b) {
            Ok(v) => v,
            Err(e) => return format!("err-new {}", e.kind()),
        };
        let name = |r: &FileProcessingResult<std::io::Error>| format!("{:?}", r).split('(').next().unwrap().to_string();
        let r0 = sp.process_stage0_valid_file_check();
        if !r0.is_ok() { return name(&r0); }
        let r1 = sp.process_stage1_blockzero_analysis();
        if !r1.is_ok() { return name(&r1); }
        let r2 = sp.process_stage2_find_dt(&a);
        if !r2.is_ok() { return name(&r2); }
        let mut msgs: Vec<String> = vec![];
        let show = |s: &SyslineP, d: &[u8]| -> String {
            let (bb, e) = (s.fileoffset_begin() as usize, s.fileoffset_end() as usize);
            let okb = e < d.len() && bb <= e && s.verif_bytes() == d[bb..=e];
            format!("{}-{}-{}{}", bb, e, s.dt().timestamp(), if okb { "" } else { "-BYTES" })
        };
        let mut fo1: u64 = 0;
        let search_more: bool;
        match sp.find_sysline_between_datetime_filters(0) {
            ResultS3::Found((fo, s)) => {
                fo1 = fo;
                let is_last = sp.is_sysline_last(&s);
                msgs.push(show(&s, &d));
                search_more = !is_last;
            }
            ResultS3::Done => { search_more = false; }
            ResultS3::Err(e) => { msgs.push(format!("err-{}", e.kind())); search_more = false; }
        }
        if search_more {
            sp.process_stage3_stream_syslines();
            let mut last: Option<SyslineP> = None;
            let mut guard = 0usize;
            loop {
                guard += 1;
                if guard > d.len() + 5 { msgs.push("LOOP".to_string()); break; }
                match sp.find_sysline_between_datetime_filters(fo1) {
                    ResultS3::Found((fo, s)) => {
                        let tmp = s.clone();
                        let is_last = sp.is_sysline_last(&s);
                        msgs.push(show(&s, &d));
                        drop(s);
                        fo1 = fo;
                        if is_last { break; }
                        if let Some(l) = last.take() { sp.drop_data_try(&l); }
                        last = Some(tmp);
                    }
                    ResultS3::Done => break,
                    ResultS3::Err(e) => { msgs.push(format!("err-{}", e.kind())); break; }
                }
            }
        }
        format!("ok {}", msgs.join(","))
    });
    match r { Ok(s) => s, Err(m) => format!("panic {}", m) }
}

pub fn run(o: &Opts, out: &mut dyn Write) {
    quiet_panics();
    let mut rng = Rng::new(o.seed ^ 0x9c0c);
    let emit = |out: &mut dyn Write, bs: usize, d: &[u8], a: &str, b: &str| {
        let req = format!("proc {} {} {} {}", bs, hex(d), a, b);
        let r = replay_line(&req);
        writeln!(out, "{}\t{}", req, r).unwrap();
    };
    for i in 0..o.n {
        let (d, times) = gen_log(&mut rng, if i % 4 == 0 { 40 } else { 10 }, true);
        let tmin = *times.iter().min().unwrap();
        let tmax = *times.iter().max().unwrap();
        // block sizes around the structure of the beginning of the file, so continuation lines of the
        // first messages straddle the end of block zero
        let nl: Vec<usize> = d.iter().enumerate().filter(|(_, &b)| b == b'\n').map(|(i, _)| i).take(6).collect();
        let mut bss: Vec<usize> = vec![64, 65, 64 + rng.below(64), 128, 100 + rng.below(400), 0x10000];
        for p in nl { for x in [p, p + 1, p + 3, p + 17] { if x >= 64 { bss.push(x); } } }
        // a newline exactly on the last byte of block zero: always tried
        let edges: Vec<usize> = d.iter().enumerate().filter(|(_, &b)| b == b'\n').map(|(i, _)| i + 1).filter(|&x| x >= 64).take(5).collect();
        for bs in edges { emit(out, bs, &d, "n", "n"); }
        for _ in 0..3 {
            let bs = rng.pick(&bss);
            let (a, b) = match rng.below(4) {
                0 => ((tmin + rng.range(0, (tmax - tmin).max(1))).to_string(), "n".to_string()),
                1 => { let x = tmin + rng.range(0, (tmax - tmin).max(1)); (x.to_string(), (x + rng.range(0, 50)).to_string()) }
                _ => ("n".to_string(), "n".to_string()),
            };
            emit(out, bs, &d, &a, &b);
        }
    }
}
