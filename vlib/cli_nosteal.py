"""C14 helper — values of every `CLI_FILTER_PATTERNS` row that an EARLIER row reads first.

`process_dt` (src/bin/s4.rs) tries the 76 rows in table order and returns the result of the
first row whose pattern parses the value, so an earlier row can read ("steal") values of a
later row's grammar (48 of the 76 rows have such an earlier row, see below).  This module enumerates, from the generated
tables (`lean/S4V/Gen/CliTables.lean`: `cliFilterPatterns`, `tzTable` — nothing is hard-coded),
values of EVERY row's grammar and emits them as H2 / model-driver request lines

    dt <hex of value> <tz> - <now>

(the format of `vlib/props/C14.py`: `req_line('dt', value, tza, '-')`; the model driver gets
the same line prefixed with `cli `).

What is emitted (`records()` / `cases()`), per row:
  * numeric-zone rows (`%z`, `%:z`, `%#z`; 45 rows): zone texts = offsets 00:00, 05:30, 12:00 with
    the three signs `+`, `-`, U+2212 and +23:59, each spelled `±HHMM` and `±HH:MM`; for `%#z`
    also `±HH` (00, 12; three signs), `Z`, `z`;
  * named-zone rows (`%Z`; 15 rows): the names Z z UTC utc PST zulu ACDT wet WET NST (those the
    generated table maps to a non-empty offset);
  * zone-less rows (12 rows + 3 bare dates): the value is read at the request's tz;
  * `+%s`: 946684800, 0, 00012, 1700000000, 253402300799;
  each with the four date/times 2024-02-29 23:59:58, 0000-01-01 00:00:00, 9999-12-31 23:59:60
  (leap-second reading), 1970-01-01 00:00:00, fractions 123/123456, 000/000000, 999/999999
  (rotating), and the four --tz-offset values +00:00 (0), +05:30 (+19800), -12:00 (-43200),
  +14:00 (+50400).  (+86399 cannot be written in the request format: the <tz> field is a
  --tz-offset value parsed by `cli_process_tz_offset`, whole minutes only.)
  19 236 (row, value, tz) records (`records()`); a value that belongs to the grammar of several rows
  (e.g. of a `%z`, a `%:z` and a `%#z` row) is ONE request: `cases()` yields the 10 116 distinct lines
  (5 169 distinct values).  All of them resolve (`some …`) in the real binary.

Stealing pairs.  `attempt(row, value, tz)` / `accepts(r, value, tz)` is a small python re-implementation
of one row's attempt (chrono's `parse_from_str` for the table's specifiers, the %Z rewrite, the
date-only suffix, the Issue-660 check); its first-accepting-row result equals the real binary's reply
on every request.  Over the emitted values (`analyse()`, `expected_pairs()`, `winner_pairs()`):
  * 96 ordered pairs (earlier row r, later row L) where r ACCEPTS some emitted value of L.  This is
    exactly the set the table structure allows (`structural_pairs()`, derived from the patterns alone:
    same literal skeleton and fraction; r, L both numeric-zone rows; or r a `%#z` row and L a `%Z` row
    (names Z / z); or both `%Z` rows (`S%Z` before `S %Z`)).  48 distinct later rows.  Every pair is
    exercised by >= 32 records (>= 8 distinct values x all 4 tz offsets; median 320, max 448);
  * 54 of them are pairs where r is the FIRST accepting row for some value, i.e. the row `process_dt`
    actually answers with (`winner_pairs()`); the other 42 are shadowed by an even earlier row for
    every emitted value.  11 808 records are answered by an earlier row, 7 428 by their own row.
  * no earlier row accepts any emitted value of the 28 rows 0 1 2 3 4 5 15 16 17 18 19 20 30 31 32 33
    35 36 57 58 59 60 61 62 72 73 74 75 (the 11 zone-less / bare-date rows of C14_no_steal_rows, the four
    zone-less `.%6f` rows, `+%s`, and the first `%z` row of each skeleton).

`expected_reply(rec)` is the documented instant, computed from the field assignment only
(explicit numeric zone wins; named zone from tzTable; zone-less read at tz; bare date = 00:00:00;
second 60 = leap second, stored as :59 + 10^9 ns; `+N` = N seconds read as local time at tz, i.e.
epoch N - tz).  `python3 -m vlib.cli_nosteal --s4 <s4 built with --cfg s4_verif> --drv <drv_cli>`
runs real binary vs model driver vs this oracle vs the python matcher and prints the numbers.
"""
import os
import re
import subprocess
import sys

VERIF = os.path.dirname(os.path.dirname(os.path.abspath(__file__)))
TABLES = os.path.join(VERIF, 'lean', 'S4V', 'Gen', 'CliTables.lean')
NOW_NS = 1700000000123456789
MINUS = '−'

TZARGS = [('+00:00', 0), ('+05:30', 19800), ('-12:00', -43200), ('+14:00', 50400)]
DATETIMES = [((2024, 2, 29), (23, 59, 58)), ((0, 1, 1), (0, 0, 0)), ((9999, 12, 31), (23, 59, 60)), ((1970, 1, 1), (0, 0, 0))]
FRACS = [123456, 0, 999999]            # microseconds; %3f takes the first three digits
ZONE_OFFS = [(0, 0), (5, 30), (12, 0)]  # x three signs; +23:59 added with '+' only
NAME_PREF = ['Z', 'z', 'UTC', 'utc', 'PST', 'zulu', 'ACDT', 'wet', 'WET', 'NST']
EPOCHS = ['946684800', '0', '00012', '1700000000', '253402300799']
SPEC = re.compile(r'%(?:3f|6f|:z|#z|[YmdHMSzZs])')


def hx(s):
    b = s.encode('utf-8')
    return b.hex() if b else '-'


# ------------------------------------------------------------------ generated tables

_tables = None


def load_tables(path=TABLES):
    """(rows, tz): rows = [(pattern, has_year, has_tz, has_tzZ, has_time)], tz = [(name, offset text)]"""
    global _tables
    if _tables is None or _tables[0] != path:
        src = open(path, encoding='utf-8').read()
        body = src[src.index('def cliFilterPatterns : List Row'):]
        body = body[:body.index(']')]
        rows = [(m.group(1), m.group(2) == 'true', m.group(3) == 'true', m.group(4) == 'true', m.group(5) == 'true')
                for m in re.finditer(r'^  ⟨"((?:[^"\\]|\\.)*)", (true|false), (true|false), (true|false), (true|false)⟩', body, re.M)]
        tzsrc = src[src.index('def tzTable'):]
        tzsrc = tzsrc[:tzsrc.index(']')]
        tz = re.findall(r'^  \("([A-Za-z]+)", "([^"]*)"\)', tzsrc, re.M)
        append_value = re.search(r'def appendTimeValue : String := "([^"]*)"', src).group(1)
        append_pattern = re.search(r'def appendTimePattern : String := "([^"]*)"', src).group(1)
        _tables = (path, rows, tz, append_value, append_pattern)
    return _tables[1], _tables[2]


def _append():
    load_tables()
    return _tables[3], _tables[4]


def off_secs(text):
    """'+05:30' -> 19800"""
    return (-1 if text[0] == '-' else 1) * (int(text[1:3]) * 3600 + int(text[4:6]) * 60)


# ------------------------------------------------------------------ values of a row's grammar

def zone_texts(spec):
    """[(text, offset secs)] for a numeric zone specifier"""
    out = []
    combos = [(sg, hh, mm) for (hh, mm) in ZONE_OFFS for sg in ('+', '-', MINUS)] + [('+', 23, 59)]
    for sg, hh, mm in combos:
        o = (1 if sg == '+' else -1) * (hh * 3600 + mm * 60)
        out.append(('%s%02d%02d' % (sg, hh, mm), o))
        out.append(('%s%02d:%02d' % (sg, hh, mm), o))
    if spec == '%#z':
        for sg, hh, mm in combos:
            if mm == 0:
                out.append(('%s%02d' % (sg, hh), (1 if sg == '+' else -1) * hh * 3600))
        out += [('Z', 0), ('z', 0)]
    return out


def name_texts(tz):
    d = dict(tz)
    return [(n, off_secs(d[n])) for n in NAME_PREF if d.get(n)]


def render(pattern, ymd, hms, micro, ztext, epoch=''):
    y, mo, d = ymd
    hh, mi, ss = hms
    m = {'%Y': '%04d' % y, '%m': '%02d' % mo, '%d': '%02d' % d, '%H': '%02d' % hh, '%M': '%02d' % mi, '%S': '%02d' % ss,
         '%3f': ('%06d' % micro)[:3], '%6f': '%06d' % micro, '%z': ztext, '%:z': ztext, '%#z': ztext, '%Z': ztext, '%s': epoch}
    return SPEC.sub(lambda g: m[g.group(0)], pattern)


def days_from_civil(y, m, d):
    y -= m <= 2
    era = y // 400
    yoe = y - era * 400
    doy = (153 * (m + (-3 if m > 2 else 9)) + 2) // 5 + d - 1
    doe = yoe * 365 + yoe // 4 - yoe // 100 + doy
    return era * 146097 + doe - 719468


def records():
    """every emitted case as a dict: line, value, tz (text), tz_secs, row (origin row index), fields for the oracle"""
    rows, tz = load_tables()
    out = []
    for ri, (pat, has_year, has_tz, has_z, has_time) in enumerate(rows):
        specs = SPEC.findall(pat)
        if '%s' in specs:
            for ep in EPOCHS:
                for tza, tzs in TZARGS:
                    v = render(pat, (0, 0, 0), (0, 0, 0), 0, '', ep)
                    out.append({'row': ri, 'value': v, 'tz': tza, 'tz_secs': tzs, 'epoch': int(ep)})
            continue
        zspec = next((s for s in specs if s in ('%z', '%:z', '%#z', '%Z')), None)
        if zspec == '%Z':
            zones = name_texts(tz)
        elif zspec:
            zones = zone_texts(zspec)
        else:
            zones = [('', None)]
        nfrac = 3 if ('%3f' in specs or '%6f' in specs) else 1
        k = ri
        for zi, (ztext, zoff) in enumerate(zones):
            for di, (ymd, hms) in enumerate(DATETIMES):
                if not has_time:
                    hms = (0, 0, 0)
                for ti, (tza, tzs) in enumerate(TZARGS):
                    # zone-less rows: all fractions; zoned rows: the fraction rotates
                    fr = range(nfrac) if zspec is None else [(k + zi + di + ti) % nfrac]
                    for fi in fr:
                        micro = FRACS[fi]
                        v = render(pat, ymd, hms, micro, ztext)
                        ns = 0
                        if '%3f' in specs:
                            ns = micro // 1000 * 1000000
                        elif '%6f' in specs:
                            ns = micro * 1000
                        out.append({'row': ri, 'value': v, 'tz': tza, 'tz_secs': tzs, 'ymd': ymd, 'hms': hms, 'ns': ns, 'zone': zoff})
    for r in out:
        r['line'] = 'dt %s %s - %d' % (hx(r['value']), r['tz'], NOW_NS)
    return out


def cases():
    """the DISTINCT request lines (`dt <hex value> <tz> - <now>`), in a fixed order (first occurrence in `records()`; a value that
    belongs to the grammar of several rows, e.g. of a `%z` and of a `%:z` row, is one request)"""
    seen = set()
    for r in records():
        if r['line'] not in seen:
            seen.add(r['line'])
            yield r['line']


def expected_reply(rec):
    """the documented instant of one record, as the H2 / driver reply text; independent of model and matcher"""
    if 'epoch' in rec:
        return 'some %d 0 %d' % (rec['epoch'] - rec['tz_secs'], rec['tz_secs'])
    off = rec['tz_secs'] if rec['zone'] is None else rec['zone']
    y, mo, d = rec['ymd']
    hh, mi, ss = rec['hms']
    leap = ss == 60
    secs = days_from_civil(y, mo, d) * 86400 + hh * 3600 + mi * 60 + (59 if leap else ss) - off
    return 'some %d %d %d' % (secs, rec['ns'] + (1000000000 if leap else 0), off)


# ------------------------------------------------------------------ python matcher: does row r read value v?

WS = {chr(c) for c in list(range(9, 14)) + [0x20, 0x85, 0xA0, 0x1680, 0x2028, 0x2029, 0x202F, 0x205F, 0x3000] + list(range(0x2000, 0x200B))}
I64MAX = 9223372036854775807
MIN_SEC = days_from_civil(-262143, 1, 1) * 86400
MAX_SEC = days_from_civil(262142, 12, 31) * 86400 + 86399


def _lstrip(s):
    i = 0
    while i < len(s) and s[i] in WS:
        i += 1
    return s[i:]


def _number(s, lo, hi):
    i = 0
    while i < len(s) and i < hi and '0' <= s[i] <= '9':
        i += 1
    if i < lo or i == 0 or int(s[:i]) > I64MAX:
        return None
    return int(s[:i]), s[i:]


def _scan_tz(s, permissive):
    if not s:
        return None
    c = s[0]
    if permissive and c in 'Zz':
        return 0, s[1:]
    if c not in ('+', '-', MINUS):
        return None
    neg = c != '+'
    r = s[1:]
    if len(r) < 2 or not ('0' <= r[0] <= '9' and '0' <= r[1] <= '9'):
        return None
    hours = int(r[:2])
    r = r[2:]
    i = 0
    while i < len(r) and (r[i] == ':' or r[i] in WS):
        i += 1
    r = r[i:]
    if len(r) >= 2:
        if not ('0' <= r[0] <= '5' and '0' <= r[1] <= '9'):
            return None
        secs = hours * 3600 + int(r[:2]) * 60
        return (-secs if neg else secs), r[2:]
    if len(r) == 1:
        return None
    if not permissive:
        return None
    return (-hours * 3600 if neg else hours * 3600), ''


def _items(pattern):
    out = []
    i = 0
    while i < len(pattern):
        m = SPEC.match(pattern, i)
        if m:
            out.append(m.group(0))
            i = m.end()
        elif pattern[i] == '%':
            out.append('bad')
            break
        else:
            out.append(('ws',) if pattern[i] in WS else ('lit', pattern[i]))
            i += 1
    return out


def _strptime(pattern, s):
    p = {}

    def put(k, v):
        if k in p and p[k] != v:
            return False
        p[k] = v
        return True
    for it in _items(pattern):
        if it == 'bad':
            return None
        if isinstance(it, tuple):
            if it[0] == 'ws':
                s = _lstrip(s)
            else:
                if not s or s[0] != it[1]:
                    return None
                s = s[1:]
            continue
        if it == '%Y':
            t = _lstrip(s)
            if t[:1] in ('+', '-'):
                r = _number(t[1:], 1, len(t))
                if r and t[0] == '-':
                    r = (-r[0], r[1])
            else:
                r = _number(t, 1, 4)
            key = 'Y'
        elif it in ('%m', '%d', '%H', '%M', '%S'):
            r = _number(_lstrip(s), 1, 2)
            key = it[1]
        elif it == '%s':
            t = _lstrip(s)
            r = _number(t, 1, len(t))
            key = 's'
        elif it in ('%3f', '%6f'):
            k = int(it[1])
            r = _number(s, k, k)
            if r:
                r = (r[0] * 10 ** (9 - k), r[1])
            key = 'f'
        elif it in ('%z', '%:z', '%#z'):
            r = _scan_tz(_lstrip(s), it == '%#z')
            key = 'z'
        else:  # %Z: skips non-whitespace (never reached: process_dt rewrites %Z to %z)
            i = 0
            while i < len(s) and s[i] not in WS:
                i += 1
            s = s[i:]
            continue
        if r is None or not put(key, r[0]):
            return None
        s = r[1]
    return p if s == '' else None


def _valid_date(y, m, d):
    if not (1 <= m <= 12 and d >= 1):
        return False
    ml = [31, 29 if (y % 4 == 0 and (y % 100 != 0 or y % 400 == 0)) else 28, 31, 30, 31, 30, 31, 31, 30, 31, 30, 31][m - 1]
    return d <= ml


def _naive(p, offset):
    date = None
    if all(k in p for k in 'Ymd') and -262143 <= p['Y'] <= 262142 and _valid_date(p['Y'], p['m'], p['d']):
        date = days_from_civil(p['Y'], p['m'], p['d'])
    tod = None
    if 'H' in p and 'M' in p and 0 <= p['H'] <= 23 and 0 <= p['M'] <= 59:
        s = p.get('S', 0)
        if 0 <= s <= 60:
            base = p['H'] * 3600 + p['M'] * 60 + (59 if s == 60 else s)
            lf = 1000000000 if s == 60 else 0
            if 'f' in p:
                if 'S' in p and 0 <= p['f'] <= 999999999:
                    tod = (base, lf + p['f'])
            else:
                tod = (base, lf)
    if date is not None and tod is not None:
        loc = date * 86400 + tod[0]
        if 's' in p and not (p['s'] == loc - offset or (tod[1] >= 1000000000 and p['s'] == loc - offset + 1)):
            return None
        return loc, tod[1]
    if 's' in p and not any(k in p for k in 'YmdHMSf') and MIN_SEC <= p['s'] + offset <= MAX_SEC:
        return p['s'] + offset, 0
    return None


def _wscounts(s):
    i = 0
    while i < len(s) and s[i] in ' \t\n\r':
        i += 1
    run = s[:i]
    return run.count(' '), run.count('\t'), run.count('\n') + run.count('\r')


def _issue660(value, pattern):
    def tail(s):
        return (0, 0, 0) if all(c in ' \t\n\r' for c in s) else _wscounts(s[::-1])
    return _wscounts(value) == _wscounts(pattern) and tail(value) == tail(pattern)


def attempt(row, value, tz_secs, tzmap=None):
    """one row's attempt in process_dt: None or (secs, subsec ns, offset)"""
    pat, has_year, has_tz, has_z, has_time = row
    if tzmap is None:
        tzmap = dict(load_tables()[1])
    v = value
    if has_z:
        i = len(v)
        while i > 0 and v[i - 1].isalpha():
            i -= 1
        name = v[i:]
        if name not in tzmap:
            return None
        v = v[:i] + tzmap[name]
        pat = pat.replace('%Z', '%z', 1)
    if not has_time:
        av, ap = _append()
        v += av
        pat += ap
    p = _strptime(pat, v)
    if p is None:
        return None
    if has_tz:
        o = p['z'] if 'z' in p else (0 if 's' in p else None)
        if o is None:
            return None
        n = _naive(p, o)
        if n is None or not (-86400 < o < 86400 and MIN_SEC <= n[0] - o <= MAX_SEC and _issue660(v, pat)):
            return None
        return n[0] - o, n[1], o
    n = _naive(p, 0)
    if n is None or not (MIN_SEC <= n[0] - tz_secs <= MAX_SEC and _issue660(v, pat)):
        return None
    return n[0] - tz_secs, n[1], tz_secs


def accepts(r, value, tz_secs=0):
    return attempt(load_tables()[0][r], value, tz_secs) is not None


def analyse(recs=None):
    """run the python matcher over every record.
    Returns (accept_pairs, winner_pairs, first): accept_pairs / winner_pairs map (r, L) -> [request count, set of values, set of tz];
    first[i] = (index of the first accepting row or None, its result) for record i."""
    rows, tz = load_tables()
    tzmap = dict(tz)
    if recs is None:
        recs = records()
    acc, win, first = {}, {}, []
    for rec in recs:
        hit = [(r, a) for r, a in ((r, attempt(rows[r], rec['value'], rec['tz_secs'], tzmap)) for r in range(len(rows))) if a is not None]
        first.append(hit[0] if hit else (None, None))
        early = [r for r, _ in hit if r < rec['row']]
        for r in early:
            e = acc.setdefault((r, rec['row']), [0, set(), set()])
            e[0] += 1
            e[1].add(rec['value'])
            e[2].add(rec['tz'])
        if early:
            e = win.setdefault((early[0], rec['row']), [0, set(), set()])
            e[0] += 1
            e[1].add(rec['value'])
            e[2].add(rec['tz'])
    return acc, win, first


def expected_pairs():
    """sorted list of the (earlier row, later row) pairs where the earlier row accepts some emitted value of the later row (96)"""
    return sorted(analyse()[0])


def winner_pairs():
    """the pairs where the earlier row is the FIRST accepting row for some emitted value of the later row (51)"""
    return sorted(analyse()[1])


def structural_pairs():
    """the pairs the table structure allows, derived from the patterns only (no values): same skeleton (pattern without zone
    specifier and the blank before it), r < L, and [both numeric-zone rows] or [r is %#z or %Z, L is %Z] or [r is %Z, L is %#z]"""
    rows, _ = load_tables()
    info = []
    for pat, *_ in rows:
        m = re.search(r' ?(%z|%:z|%#z|%Z)$', pat)
        info.append((pat[:m.start()], m.group(1)) if m else (pat, None))
    out = []
    for L in range(len(rows)):
        for r in range(L):
            (sr, kr), (sl, kl) = info[r], info[L]
            if sr != sl or kr is None or kl is None:
                continue
            num = ('%z', '%:z', '%#z')
            if (kr in num and kl in num) or (kr in ('%#z', '%Z') and kl == '%Z') or (kr == '%Z' and kl == '%#z'):
                out.append((r, L))
    return sorted(out)


# ------------------------------------------------------------------ stand-alone run

def _h2(s4, lines):
    env = dict(os.environ, S4_VERIF_EVAL='1', TZ='UTC')
    replies, todo = [], list(lines)
    while todo:
        p = subprocess.run([s4], input=('\n'.join(todo) + '\n').encode(), env=env, stdout=subprocess.PIPE, stderr=subprocess.DEVNULL, timeout=1800)
        got = p.stdout.decode('utf-8', 'replace').splitlines()
        if len(got) >= len(todo):
            return replies + got[:len(todo)]
        replies += got + ['exit' if p.returncode == 1 else 'died rc=%d' % p.returncode]
        todo = todo[len(got) + 1:]
    return replies


def _drv(drv, lines):
    p = subprocess.run([drv], input=('\n'.join('cli ' + l for l in lines) + '\n').encode(), stdout=subprocess.PIPE, timeout=1800)
    return p.stdout.decode('utf-8', 'replace').splitlines()


def main(argv):
    import argparse
    ap = argparse.ArgumentParser()
    ap.add_argument('--s4', required=True)
    ap.add_argument('--drv', required=True, help='drv_cli (or drvmux)')
    a = ap.parse_args(argv)
    recs = records()
    lines = list(cases())
    print('records (row, value, tz)', len(recs), 'requests (distinct lines)', len(lines), 'distinct values', len({r['value'] for r in recs}))
    impl_d = _h2(a.s4, lines)
    model_d = _drv(a.drv, lines)
    print('replies impl', len(impl_d), 'model', len(model_d))
    if len(impl_d) != len(lines) or len(model_d) != len(lines):
        print('reply count differs from request count')
        return 2
    for name, reps in (('impl', impl_d), ('model', model_d)):
        dd = {}
        for i in reps:
            dd[i.split(' ')[0]] = dd.get(i.split(' ')[0], 0) + 1
        print('outcome distribution over the requests (%s):' % name, dd)
    print('impl vs model mismatching requests:', sum(1 for i, m in zip(impl_d, model_d) if i != m))
    bi, bm = dict(zip(lines, impl_d)), dict(zip(lines, model_d))
    impl = [bi[r['line']] for r in recs]
    model = [bm[r['line']] for r in recs]
    mism = [(r, i, m) for r, i, m in zip(recs, impl, model) if i != m]
    print('impl vs model mismatching records:', len(mism))
    for r, i, m in mism[:10]:
        print('   ', repr(r['value']), r['tz'], 'impl', i, 'model', m)
    bad = [(r, i, expected_reply(r)) for r, i in zip(recs, impl) if i != expected_reply(r)]
    print('impl vs documented instant (python oracle) differences:', len(bad))
    for r, i, e in bad[:10]:
        print('   ', repr(r['value']), r['tz'], 'row', r['row'], 'impl', i, 'documented', e)
    acc, win, first = analyse(recs)
    pm = [(r, i, f) for r, i, f in zip(recs, impl, first) if i != ('none' if f[0] is None else 'some %d %d %d' % f[1])]
    print('impl vs python matcher (first accepting row) differences:', len(pm))
    for r, i, f in pm[:10]:
        print('   ', repr(r['value']), r['tz'], 'impl', i, 'matcher', f)
    rows = load_tables()[0]
    own = [r for r in recs if ('some %d %d %d' % (attempt(rows[r['row']], r['value'], r['tz_secs']) or (0, -1, 0))) != expected_reply(r)]
    print("records whose OWN row's attempt (matcher) is not the documented instant:", len(own))
    sp = structural_pairs()
    print('accepting pairs exercised:', len(acc), ' first-acceptor (winner) pairs:', len(win), ' structural prediction:', len(sp),
          ' equal:', sorted(acc) == sp)
    print('later rows with a stealer:', len({L for _, L in acc}), ' rows never stolen from:', sorted(set(range(len(load_tables()[0]))) - {L for _, L in acc}))
    print('per accepting pair: min requests', min(e[0] for e in acc.values()), 'min distinct values', min(len(e[1]) for e in acc.values()),
          'min tz', min(len(e[2]) for e in acc.values()))
    print('per winner pair: min requests', min(e[0] for e in win.values()), 'min distinct values', min(len(e[1]) for e in win.values()),
          'min tz', min(len(e[2]) for e in win.values()))
    cnt = sorted(e[0] for e in acc.values())
    print('requests per accepting pair: min %d median %d max %d' % (cnt[0], cnt[len(cnt) // 2], cnt[-1]))
    print('winner pairs:', ' '.join('%d<%d' % p for p in sorted(win)))
    stolen = sum(1 for r, f in zip(recs, first) if f[0] is not None and f[0] < r['row'])
    print('requests answered by an earlier row:', stolen, 'by the own row:', len(recs) - stolen)
    return 1 if (mism or bad or pm or own) else 0


if __name__ == '__main__':
    sys.exit(main(sys.argv[1:]))
