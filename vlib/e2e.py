"""End-to-end helpers: input generators, container builders, running the real
`s4` binary (built with hooks on) and parsing what it prints."""
import bz2
import calendar
import gzip
import io
import lzma
import os
import subprocess
import tarfile
import time

from vlib import core

BASE_ARGS = ['--color', 'never', '-t', '+00:00']


class Rng:
    def __init__(self, seed):
        self.s = (seed * 0x9E3779B97F4A7C15 + 0x123456789abcdef1) & 0xFFFFFFFFFFFFFFFF

    def next(self):
        self.s = (self.s + 0x9E3779B97F4A7C15) & 0xFFFFFFFFFFFFFFFF
        z = self.s
        z = ((z ^ (z >> 30)) * 0xBF58476D1CE4E5B9) & 0xFFFFFFFFFFFFFFFF
        z = ((z ^ (z >> 27)) * 0x94D049BB133111EB) & 0xFFFFFFFFFFFFFFFF
        return z ^ (z >> 31)

    def below(self, n):
        return self.next() % n if n > 0 else 0

    def range(self, lo, hi):
        return lo + self.below(hi - lo + 1)

    def chance(self, num, den):
        return self.below(den) < num

    def pick(self, seq):
        return seq[self.below(len(seq))]

    def shuffle(self, seq):
        seq = list(seq)
        for i in range(len(seq) - 1, 0, -1):
            j = self.below(i + 1)
            seq[i], seq[j] = seq[j], seq[i]
        return seq


def fmt_ts(epoch_s, style=0, frac_ns=None, tz=None):
    """timestamp text for epoch seconds (UTC). styles: 0 'YYYY-MM-DD HH:MM:SS'"""
    t = time.gmtime(epoch_s)
    s = time.strftime('%Y-%m-%d %H:%M:%S', t)
    if frac_ns is not None:
        s += '.%09d' % frac_ns
    if tz:
        s += tz
    return s


WORDS = [b'alpha', b'beta', b'gamma', b'delta', b'kernel', b'daemon', b'started', b'stopped', b'error', b'ok',
         b'user', b'session', b'opened', b'closed', b'connection', b'from', b'host', b'', b'--', b'\xc3\xa9t\xc3\xa9']


def text_line(rng, minlen=0, maxlen=60, weird=True):
    """digit-free line body (no newline)"""
    out = bytearray()
    target = rng.range(minlen, maxlen)
    while len(out) < target:
        out += rng.pick(WORDS)
        out += b' '
        if weird and rng.chance(1, 40):
            out += bytes([rng.pick([0, 0x80, 0xff, 0x09, 0x0d])])
    return bytes(out[:max(target, 0)]).replace(b'\n', b' ')


class GenLog:
    """A generated text log: bytes, and its messages (offset, length, epoch_s)."""

    def __init__(self, data, msgs, prefix_len=0):
        self.data = data
        self.msgs = msgs
        self.prefix_len = prefix_len   # bytes before the first timestamped line

    def expected_bytes(self, lo=None, hi=None):
        out = bytearray()
        for (off, ln, t) in self.msgs:
            if lo is not None and t < lo:
                continue
            if hi is not None and t > hi:
                continue
            out += self.data[off:off + ln]
        if out and not out.endswith(b'\n'):
            out += b'\n'
        return bytes(out)


def gen_log(rng, nmsgs, start=1672531200, steps=(0, 0, 1, 1, 2, 5, 60, 3600), cont_prob=(1, 4), max_cont=3,
            maxlen=60, final_newline=True, crlf=False, tag=b'', headless=0, weird=True, body_min=0, frac_choices=None):
    data = bytearray()
    for _ in range(headless):
        data += text_line(rng, 1, maxlen, weird) + b'\n'
    prefix = len(data)
    msgs = []
    nss = []
    t = start
    ns = 0
    for k in range(nmsgs):
        step = rng.pick(steps)
        t += step
        if frac_choices:
            # sub-second part: non-decreasing within one second so the log stays chronological
            cand = [x for x in frac_choices if step > 0 or x >= ns]
            ns = rng.pick(cand) if cand else ns
        nss.append(ns)
        off = len(data)
        eol = b'\r\n' if crlf and rng.chance(1, 2) else b'\n'
        data += fmt_ts(t, frac_ns=(ns if frac_choices else None)).encode() + b' ' + tag + text_line(rng, body_min, maxlen, weird) + eol
        if rng.chance(*cont_prob):
            for _ in range(rng.range(1, max_cont)):
                kind = rng.below(6)
                if kind == 0:
                    data += b'\n'                       # blank line
                elif kind == 1:
                    data += b'    at ' + text_line(rng, 0, maxlen, weird) + b'\r\n'
                else:
                    data += b'  ' + text_line(rng, 0, maxlen, weird) + b'\n'
        msgs.append((off, len(data) - off, t))
    if not final_newline and data.endswith(b'\n'):
        data = data[:-1]
        if data.endswith(b'\r'):
            data = data[:-1]
        o, l, t0 = msgs[-1]
        msgs[-1] = (o, len(data) - o, t0)
    g = GenLog(bytes(data), msgs, prefix)
    g.ns = nss
    return g


# ------------------------------------------------------------------ containers

def pack(data, kind, path, inner_name='inner.log', mtime=0, level=None):
    """write `data` to `path` in container `kind` (plain|gz|bz2|xz|lz4|tar)"""
    if kind == 'plain':
        open(path, 'wb').write(data)
    elif kind == 'gz':
        with open(path, 'wb') as f:
            with gzip.GzipFile(filename=inner_name, mode='wb', fileobj=f, mtime=mtime,
                               compresslevel=9 if level is None else level) as g:
                g.write(data)
    elif kind == 'bz2':
        open(path, 'wb').write(bz2.compress(data, 9 if level is None else level))
    elif kind == 'xz':
        open(path, 'wb').write(lzma.compress(data, format=lzma.FORMAT_XZ, check=lzma.CHECK_CRC32))
    elif kind in ('lz4', 'lz4f'):
        # lz4f: the writer flushes every 40 000 bytes, so the frame has non-final blocks shorter than 64 KiB
        tmp = path + '.raw'
        open(tmp, 'wb').write(data)
        rc, out, err, _ = core.run([core.S4H, 'pack', 'lz4', tmp, path] + (['40000'] if kind == 'lz4f' else []))
        os.unlink(tmp)
        if rc != 0:
            raise RuntimeError('lz4 pack failed: ' + err.decode())
    elif kind == 'tar':
        with tarfile.open(path, 'w', format=tarfile.USTAR_FORMAT) as tf:
            ti = tarfile.TarInfo(inner_name)
            ti.size = len(data)
            ti.mtime = mtime or 1700000000
            tf.addfile(ti, io.BytesIO(data))
    else:
        raise ValueError(kind)
    return path


SUFFIX = {'plain': '', 'gz': '.gz', 'bz2': '.bz2', 'xz': '.xz', 'lz4': '.lz4', 'lz4f': '.lz4', 'tar': '.tar'}


# ------------------------------------------------------------------ running s4

def s4(args, cwd=None, env=None, timeout=120, stdin=None):
    e = dict(os.environ)
    e.pop('S4_VERIF_TRACE', None)
    e.pop('S4_VERIF_DELAYS', None)
    e['TZ'] = 'UTC'
    if env:
        e.update(env)
    t0 = time.time()
    try:
        p = subprocess.run([core.S4] + list(args), cwd=cwd, env=e, stdout=subprocess.PIPE, stderr=subprocess.PIPE,
                           timeout=timeout, input=stdin)
        return p.returncode, p.stdout, p.stderr, time.time() - t0
    except subprocess.TimeoutExpired as ex:
        return -9, ex.stdout or b'', (ex.stderr or b'') + b'\nTIMEOUT', time.time() - t0


def parse_trace(path):
    """trace file -> driver tokens"""
    toks = []
    for line in open(path):
        w = line.split()
        if not w:
            continue
        if w[0] == 'R':
            if w[2] == 'I':
                toks.append(f'RI:{w[1]}:{w[3]}')
            elif w[2] == 'M':
                toks.append(f'RM:{w[1]}:{w[3]}')
            elif w[2] == 'S':
                toks.append(f'RS:{w[1]}:{w[3]}')
            elif w[2] == 'X':
                toks.append(f'RX:{w[1]}')
        elif w[0] == 'P':
            toks.append(f'P:{w[1]}:{w[2]}')
        elif w[0] in ('B', 'E'):
            toks.append(w[0])
    return toks


def merge_expected(sources):
    """sources: list of lists of (epoch, bytes) in file order -> merged bytes
    (first minimum in source order). Reference implementation of the property."""
    idx = [0] * len(sources)
    out = []
    while True:
        best = None
        for i, src in enumerate(sources):
            if idx[i] < len(src):
                t = src[idx[i]][0]
                if best is None or t < sources[best][idx[best]][0]:
                    best = i
        if best is None:
            break
        out.append((best, sources[best][idx[best]]))
        idx[best] += 1
    return out
