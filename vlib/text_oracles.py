"""Implementation-side oracles on the real `s4` binary for text logs:
C02 (bytes), C12 (block size), C05 (containers), C03 (window), C11 (years)."""
import os

from vlib import core, e2e
from vlib.coord_common import first_diff

SYSLOG_SZ_MAX = 8096


def first_line_len(data):
    i = data.find(b'\n')
    return len(data) if i < 0 else i + 1


def first_head_end(log):
    """offset just past the first timestamped line of a generated log"""
    if not log.msgs:
        return len(log.data)
    off = log.msgs[0][0]
    i = log.data.find(b'\n', off)
    return len(log.data) if i < 0 else i + 1


def shapes(rng, k):
    """a rotating catalogue of log shapes"""
    shape = k % 8
    kw = dict(nmsgs=rng.range(3, 40), maxlen=50, final_newline=True, weird=True)
    if shape == 1:
        kw.update(final_newline=False)
    elif shape == 2:
        kw.update(crlf=True)
    elif shape == 3:
        kw.update(headless=rng.range(1, 3))
    elif shape == 4:
        kw.update(nmsgs=rng.range(1, 3), cont_prob=(1, 1), max_cont=6)
    elif shape == 5:
        kw.update(nmsgs=rng.range(100, 400), maxlen=120)     # > 8096 bytes
    elif shape == 6:
        kw.update(cont_prob=(0, 1), maxlen=8)                # short single-line messages
    elif shape == 7:
        kw.update(nmsgs=rng.range(2, 12), maxlen=300, cont_prob=(1, 2), max_cont=8)   # long lines, multi-block
    return kw


def run_plain(path, extra=(), timeout=120):
    return e2e.s4(e2e.BASE_ARGS + list(extra) + [path], timeout=timeout)


def small_hex(data):
    return data.hex() if len(data) <= 20000 else ('sha-only:%d bytes' % len(data))


def oracle_bytes(ctx, n):
    """C02: stdout == file content from the first timestamped line to the end (+ final newline)."""
    rng = e2e.Rng(ctx.seed * 31 + 5)
    fails, samples, ev = [], [], 0
    for k in range(n):
        kw = shapes(rng, k)
        nm = kw.pop('nmsgs')
        log = e2e.gen_log(rng, nm, **kw)
        p = os.path.join(ctx.work, 'c02_%d.log' % k)
        open(p, 'wb').write(log.data)
        exp = log.expected_bytes()
        # the default block size, and small ones placed around the ends of the first lines so that
        # continuation lines of the first messages straddle the end of block zero
        nls = [i for i, c in enumerate(log.data[:400]) if c == 10][:5]
        cands = [64, 65, 100, 128, 4096] + [x for p_ in nls for x in (p_, p_ + 1, p_ + 5) if x >= 64]
        fl = first_head_end(log)
        # a newline exactly on the last byte of block zero (bs = p + 1) for each of the first newlines
        edge = [p_ + 1 for p_ in nls[:4] if p_ + 1 >= 64]
        for bs in [None, rng.pick(cands)] + edge:
            extra = [] if bs is None else ['--blocksz', str(bs)]
            rc, out, err, _ = run_plain(p, extra)
            ev += 1
            if rc != 0 or out != exp:
                sig = 'bytes:stdout-differs-from-file-suffix'
                if out == b'' and exp and bs is not None and fl > bs:
                    sig = 'gate:first-line-exceeds-block'          # known finding F1
                fails.append({'signature': sig, 'detail': f'args {extra} rc={rc} ' + first_diff(out, exp),
                              'args': e2e.BASE_ARGS + extra + ['FILE'], 'file_hex': small_hex(log.data), 'shape': k % 8})
        if len(samples) < 2:
            samples.append({'oracle': 'C02 bytes', 'shape': k % 8, 'file_bytes': len(log.data), 'messages': len(log.msgs),
                            'head': log.data[:80].decode('latin1')})
        os.unlink(p)
    # lines longer than the printers' 2056-byte buffer, as first lines and as continuation lines, mixed with short ones
    # (default block size: a line part can only exceed the buffer when the block is larger than it)
    for k in range(max(3, n // 8)):
        log = e2e.gen_log(rng, rng.range(2, 4), maxlen=rng.pick([2500, 4000, 6000]), cont_prob=(3, 4), max_cont=3, weird=rng.chance(1, 2),
                          final_newline=not rng.chance(1, 4))
        p = os.path.join(ctx.work, 'c02_long_%d.log' % k)
        open(p, 'wb').write(log.data)
        exp = log.expected_bytes()
        for extra in ([], ['--blocksz', '0x20000']):
            rc, out, err, _ = run_plain(p, extra)
            ev += 1
            if rc != 0 or out != exp:
                fails.append({'signature': 'bytes:stdout-differs-from-file-suffix', 'detail': f'long lines, args {extra} rc={rc} ' + first_diff(out, exp),
                              'args': e2e.BASE_ARGS + extra + ['FILE'], 'file_hex': small_hex(log.data), 'shape': 'long-lines'})
        os.unlink(p)
    return {'evaluations': ev, 'distinct_nontrivial': ev, 'failures': fails, 'samples': samples,
            'rule': f'{n} generated text logs (lines of up to 6000 bytes at the default block size; 8 shapes: final newline missing, CRLF, headless prefix, long continuation runs, '
                    '>8096 bytes, short messages, multi-block lines, NUL/non-UTF-8 bytes); stdout must equal the file suffix from the '
                    'first timestamped line; every case is distinct (fresh PRNG draw)'}


BLOCKSIZES = [64, 65, 66, 100, 127, 128, 129, 255, 256, 1000, 4096, 8095, 8096, 8097, 0x10000, 0xFFFFFF]


def oracle_blocksz(ctx, n, sizes=None, sig_known=True):
    """C12: stdout at --blocksz b == stdout at the default, for every b."""
    rng = e2e.Rng(ctx.seed * 37 + 11)
    fails, samples, ev = [], [], 0
    sizes = sizes or BLOCKSIZES
    for k in range(n):
        kw = shapes(rng, k)
        nm = kw.pop('nmsgs')
        # keep the first line short so the known gate defect F1 is not what is measured here;
        # F1/F2 are reproduced by their own witnesses in known_gate_witnesses()
        log = e2e.gen_log(rng, nm, **kw)
        if first_line_len(log.data[log.prefix_len:]) > 60 or log.prefix_len:
            log = e2e.gen_log(rng, nm, **{**kw, 'maxlen': 20, 'headless': 0})
        p = os.path.join(ctx.work, 'c12_%d.log' % k)
        open(p, 'wb').write(log.data)
        rc0, out0, err0, _ = run_plain(p)
        ev += 1
        bss = sizes if ctx.thorough else [rng.pick(sizes[:9]), rng.pick(sizes[:9]), rng.pick(sizes[9:]), 64 + rng.below(200)]
        # and a newline exactly on the last byte of block zero, for the first newlines of the file
        bss = list(bss) + [p_ + 1 for p_ in [i for i, c in enumerate(log.data[:600]) if c == 10][:4] if p_ + 1 >= 64]
        for bs in bss:
            rc, out, err, _ = run_plain(p, ['--blocksz', str(bs)])
            ev += 1
            if (rc, out) != (rc0, out0):
                sig = 'blocksz:stdout-differs-from-default'
                fl = first_head_end(log)
                b0 = min(bs, len(log.data))
                if out == b'' and out0 and fl > bs:
                    sig = 'gate:first-line-exceeds-block'
                elif out == b'' and out0 and b0 >= SYSLOG_SZ_MAX:
                    sig = 'gate:blockzero>=8096-needs-2-messages-3-lines'
                elif out0 == b'' and out and min(0x10000, len(log.data)) >= SYSLOG_SZ_MAX:
                    sig = 'gate:blockzero>=8096-needs-2-messages-3-lines'
                fails.append({'signature': sig, 'detail': f'--blocksz {bs}: rc={rc} vs {rc0}; ' + first_diff(out, out0),
                              'args': e2e.BASE_ARGS + ['--blocksz', str(bs), 'FILE'], 'file_hex': small_hex(log.data)})
        # streamed containers read their blocks one way only: the same log as .gz / .bz2 at block sizes such that a LINE STARTS exactly on a
        # block boundary (the reader then needs the byte before the block start; seeded change C12-d) - against the same container at the default
        if out0 and k % 2 == 0:
            starts = [i + 1 for i, c in enumerate(log.data[:4000]) if c == 10 and i + 1 < len(log.data)]
            sbs = set()
            for o in starts:
                for div in (1, 2, 3, 4):
                    if o % div == 0 and o // div >= 64:
                        sbs.add(o // div)
            sbs = sorted(sbs)
            sbs = sbs[:6] + sbs[-3:] if len(sbs) > 9 else sbs
            for kind in ('gz', 'bz2'):
                pk = p + e2e.SUFFIX[kind]
                e2e.pack(log.data, kind, pk, inner_name=os.path.basename(p))
                rck, outk, _, _ = run_plain(pk)
                ev += 1
                for bs in sbs:
                    rc, out, err, _ = run_plain(pk, ['--blocksz', str(bs)])
                    ev += 1
                    if (rc, out) != (rck, outk):
                        rcn, outn, _, _ = run_plain(p, ['--blocksz', str(bs)])
                        if (rcn, outn) != (rc0, out0):
                            continue                # the plain file differs at this block size as well: reported (or attributed to the gate) above
                        fails.append({'signature': 'blocksz:stdout-differs-from-default', 'detail': f'{kind} --blocksz {bs} (a line starts on a block boundary): rc={rc} vs {rck}; ' + first_diff(out, outk),
                                      'args': e2e.BASE_ARGS + ['--blocksz', str(bs), 'FILE' + e2e.SUFFIX[kind]], 'file_hex': small_hex(log.data)})
                os.unlink(pk)
        # the same with colour on: the escape sequences around the timestamp are part of the printed output too, and the
        # highlighting code walks the line's parts (one per block) on its own. Block sizes such that the END of a
        # message's timestamp falls exactly on / next to a block boundary are added.
        if out0 and not any(f['signature'].startswith('gate:') for f in fails[-len(bss):]):
            colour = ['--color', 'always']
            rcc, outc, _, _ = e2e.s4(['-t', '+00:00'] + colour + [p], timeout=120)
            ev += 1
            heads = [off for off, _, _ in log.msgs][1:6]
            cbs = list(bss[:3])
            for off in heads:
                e_ = off + 19                      # exclusive end of 'YYYY-MM-DD HH:MM:SS'
                for d_ in (e_, e_ - 1, e_ + 1):
                    for div in (1, 2, 3):
                        if d_ % div == 0 and d_ // div >= 64:
                            cbs.append(d_ // div)
            for bs in sorted(set(cbs))[:24]:
                rc, out, err, _ = e2e.s4(['-t', '+00:00'] + colour + ['--blocksz', str(bs), p], timeout=120)
                ev += 1
                if (rc, out) != (rcc, outc):
                    rcn, outn, _, _ = run_plain(p, ['--blocksz', str(bs)])
                    if (rcn, outn) != (rc0, out0):
                        continue                    # differs without colour as well: reported (or attributed to the gate) above
                    fails.append({'signature': 'blocksz:coloured-stdout-differs-from-default', 'detail': f'--color always --blocksz {bs}: rc={rc} vs {rcc}; ' + first_diff(out, outc),
                                  'args': ['-t', '+00:00'] + colour + ['--blocksz', str(bs), 'FILE'], 'file_hex': small_hex(log.data)})
        if len(samples) < 2:
            samples.append({'oracle': 'C12 blocksz', 'file_bytes': len(log.data), 'blocksizes': bss, 'stdout_bytes': len(out0)})
        os.unlink(p)
    # messages whose later lines are longer than the printers' 2056-byte buffer: at block sizes up to the buffer size a line
    # reaches the printer in small parts, above it in parts larger than the buffer — the bytes printed must not depend on that
    for k in range(max(3, n // 6)):
        msgs = []
        t = 1672531200 + rng.below(1000)
        for i in range(rng.range(3, 8)):
            t += rng.pick([0, 1, 5])
            m = e2e.fmt_ts(t).encode() + b' m%02d ' % i + e2e.text_line(rng, 5, 40, weird=False) + b'\n'
            for _ in range(rng.below(4)):
                m += b'  ' + e2e.text_line(rng, 0, rng.pick([30, 30, 2500, 5000]), weird=False) + b'\n'
            msgs.append(m)
        data = b''.join(msgs)
        p = os.path.join(ctx.work, 'c12_long_%d.log' % k)
        open(p, 'wb').write(data)
        rc0, out0, err0, _ = run_plain(p)
        ev += 1
        for bs in [256, 1024, 2048, 2056, 2057, 4096, 0x8000]:
            for extra in ([], ['-l']):
                if extra:
                    rcx, outx, _, _ = run_plain(p, extra)
                    ev += 1
                else:
                    rcx, outx = rc0, out0
                rc, out, err, _ = run_plain(p, ['--blocksz', str(bs)] + extra)
                ev += 1
                if (rc, out) != (rcx, outx):
                    fails.append({'signature': 'blocksz:stdout-differs-from-default', 'detail': f'long continuation lines, --blocksz {bs} {extra}: rc={rc} vs {rcx}; ' + first_diff(out, outx),
                                  'args': e2e.BASE_ARGS + ['--blocksz', str(bs)] + extra + ['FILE'], 'file_hex': small_hex(data)})
        if out0 != data:
            fails.append({'signature': 'blocksz:default-run-differs-from-file', 'detail': first_diff(out0, data), 'args': e2e.BASE_ARGS + ['FILE'], 'file_hex': small_hex(data)})
        os.unlink(p)
    return {'evaluations': ev, 'distinct_nontrivial': ev, 'failures': fails, 'samples': samples,
            'rule': f'{n} generated text logs x block sizes from {sizes}, plus logs with continuation lines of up to 5000 bytes at block sizes around the 2056-byte print '
                    'buffer (with and without a prepended date); stdout and exit status must equal the default-size run; distinct = (file, blocksz) runs'}


def known_gate_witnesses(ctx):
    """Reproduce the known gate findings F1 / F2 on the implementation (DESIGN.md §7)."""
    fails, ev = [], 0
    # F1: first line longer than the block
    line = b'2023-01-01 00:00:00 ' + b'x' * 80 + b'\n'
    data = b''.join(b'2023-01-01 00:00:%02d ' % i + b'x' * 80 + b'\n' for i in range(30))
    p = os.path.join(ctx.work, 'f1.log')
    open(p, 'wb').write(data)
    rc0, out0, _, _ = run_plain(p)
    rc1, out1, _, _ = run_plain(p, ['--blocksz', '64'])
    ev += 2
    if out0 == data and out1 != out0:
        fails.append({'signature': 'gate:first-line-exceeds-block', 'detail': f'30 lines of {len(line)} bytes: default prints {len(out0)} bytes, --blocksz 64 prints {len(out1)}',
                      'args': e2e.BASE_ARGS + ['--blocksz', '64', 'FILE'], 'file_hex': small_hex(data)})
    # F2: one message longer than SYSLOG_SZ_MAX in a block zero >= SYSLOG_SZ_MAX
    data2 = b'2023-01-01 00:00:00 start\n' + b''.join(b'  continuation ' + b'y' * 60 + b'\n' for _ in range(140))
    p2 = os.path.join(ctx.work, 'f2.log')
    open(p2, 'wb').write(data2)
    rc0, out0, _, _ = run_plain(p2)
    rc1, out1, _, _ = run_plain(p2, ['--blocksz', '8095'])
    ev += 2
    if out0 != out1:
        fails.append({'signature': 'gate:blockzero>=8096-needs-2-messages-3-lines',
                      'detail': f'single {len(data2)}-byte message: default prints {len(out0)} bytes, --blocksz 8095 prints {len(out1)}',
                      'args': e2e.BASE_ARGS + ['--blocksz', '8095', 'FILE'], 'file_hex': small_hex(data2)})
    for q in (p, p2):
        os.unlink(q)
    return {'evaluations': ev, 'distinct_nontrivial': 2, 'failures': fails, 'samples': [],
            'rule': 'witnesses of known findings F1/F2 replayed on the binary'}


def known_mixed_notation_witness(ctx):
    """F30: a file that mixes two timestamp notations. The notation kept for the file is decided from the messages found
    in block zero, so it depends on the block size; lines in the other notation become continuation lines (or, before the
    first recognised line, are not printed)."""
    import time as _t
    fails, ev = [], 0
    t0 = 1700000000
    A = lambda t, i: _t.strftime('%Y-%m-%d %H:%M:%S', _t.gmtime(t)).encode() + b' A%03d alpha\n' % i
    B = lambda t, i: _t.strftime('[%d/%b/%Y:%H:%M:%S +0000]', _t.gmtime(t)).encode() + b' B%03d beta\n' % i
    data = A(t0, 0) + B(t0 + 1, 1) + B(t0 + 2, 2) + b''.join(A(t0 + 3 + i, 3 + i) for i in range(5))
    p = os.path.join(ctx.work, 'f30.log')
    open(p, 'wb').write(data)
    rc0, out0, _, _ = run_plain(p)
    rc1, out1, _, _ = run_plain(p, ['--blocksz', '64'])
    ev += 2
    if (rc0, out0) != (rc1, out1):
        fails.append({'signature': 'analysis:notation-choice-depends-on-block-zero',
                      'detail': f'1 line of notation A, 2 of notation B, 5 of A: default prints {len(out0)} bytes (first line missing: {not out0.startswith(data[:20])}), '
                                f'--blocksz 64 prints {len(out1)} bytes', 'args': e2e.BASE_ARGS + ['--blocksz', '64', 'FILE'], 'file_hex': small_hex(data)})
    os.unlink(p)
    return {'evaluations': ev, 'distinct_nontrivial': 1, 'failures': fails, 'samples': [], 'rule': 'witness of known finding F30 (mixed notations) replayed on the binary'}


def oracle_containers(ctx, n, kinds=('gz', 'bz2', 'xz', 'lz4', 'tar')):
    """C05: stdout(container) == stdout(plain), with and without a window, at two block sizes."""
    rng = e2e.Rng(ctx.seed * 41 + 13)
    fails, samples, ev = [], [], 0
    for k in range(n):
        kw = shapes(rng, k)
        nm = kw.pop('nmsgs')
        kw['weird'] = kw.get('weird', True)
        log = e2e.gen_log(rng, nm, **{**kw, 'maxlen': min(kw.get('maxlen', 50), 40)})
        base = os.path.join(ctx.work, 'c05_%d' % k)
        os.makedirs(base, exist_ok=True)
        plain = os.path.join(base, 'x.log')
        e2e.pack(log.data, 'plain', plain)
        ts = [t for _, _, t in log.msgs]
        lo, hi = rng.pick(ts), rng.pick(ts)
        if lo > hi:
            lo, hi = hi, lo
        variants = [[], ['-a', '+%d' % lo, '-b', '+%d' % hi], ['--blocksz', str(rng.pick([64, 128, 4096]))]]
        ref = {}
        for vi, v in enumerate(variants):
            ref[vi] = run_plain(plain, v)[:2]
            ev += 1
        for kind in kinds:
            path = os.path.join(base, 'x.log' + e2e.SUFFIX[kind])
            e2e.pack(log.data, kind, path, inner_name='x.log')
            for vi, v in enumerate(variants):
                rc, out, err, _ = run_plain(path, v)
                ev += 1
                if (rc, out) != ref[vi]:
                    fails.append({'signature': f'container:{kind}-differs-from-plain',
                                  'detail': f'{kind} args {v}: rc={rc} vs {ref[vi][0]}; ' + first_diff(out, ref[vi][1]) + f' stderr={err[-200:]!r}',
                                  'args': e2e.BASE_ARGS + v + ['x.log' + e2e.SUFFIX[kind]], 'file_hex': small_hex(log.data)})
            os.unlink(path)
        if len(samples) < 2:
            samples.append({'oracle': 'C05 containers', 'file_bytes': len(log.data), 'kinds': list(kinds), 'variants': variants})
        os.unlink(plain)
    return {'evaluations': ev, 'distinct_nontrivial': ev, 'failures': fails, 'samples': samples,
            'rule': f'{n} generated text logs x containers {kinds} x (no window / window / small block size); '
                    'stdout and exit status must equal the plain file\'s; distinct = runs'}


def oracle_window(ctx, n, kinds=('plain', 'gz')):
    """C03: with -a/-b exactly the messages with A <= t <= B are printed, in file order."""
    rng = e2e.Rng(ctx.seed * 43 + 17)
    fails, samples, ev = [], [], 0
    for k in range(n):
        nm = rng.range(2, 60)
        log = e2e.gen_log(rng, nm, steps=(0, 0, 1, 1, 2, 10, 3600), maxlen=30, final_newline=not rng.chance(1, 4), weird=False)
        ts = [t for _, _, t in log.msgs]
        kind = kinds[k % len(kinds)]
        path = os.path.join(ctx.work, 'c03_%d.log%s' % (k, e2e.SUFFIX[kind]))
        # every other file carries a modification time OLDER than its content (restored from backup, copied from a host whose clock lags,
        # a gzip header MTIME taken from elsewhere): what a dated message's instant is does not depend on it (seeded change C03-e dismissed
        # a file whose mtime lies before --dt-after)
        old_mtime = ts[0] - 86400 * 400 if k % 2 == 1 else 0
        e2e.pack(log.data, kind, path, inner_name='c03.log', mtime=old_mtime)
        if old_mtime:
            os.utime(path, (old_mtime, old_mtime))
        for _ in range(ctx.q(4, 10)):
            pick = lambda: rng.pick(ts) + rng.pick([-1, 0, 0, 0, 1])
            mode = rng.below(5)
            a = b = None
            if mode == 0:
                a = pick()
            elif mode == 1:
                b = pick()
            elif mode == 2:
                a = b = rng.pick(ts)
            else:
                a, b = sorted([pick(), pick()])
            if mode == 4 and rng.chance(1, 3):
                a, b = ts[-1] + 5, ts[-1] + 9          # empty selection after everything
            args = []
            if a is not None:
                args += ['-a', '+%d' % a]
            if b is not None:
                args += ['-b', '+%d' % b]
            rc, out, err, _ = run_plain(path, args)
            ev += 1
            exp = log.expected_bytes(a, b)
            # the final newline is supplied only after the file's last message
            if exp and not log.data.endswith(b'\n'):
                last_off, last_len, last_t = log.msgs[-1]
                sel_last = (a is None or last_t >= a) and (b is None or last_t <= b)
                if not sel_last:
                    exp = b''.join(log.data[o:o + l] for o, l, t in log.msgs if (a is None or t >= a) and (b is None or t <= b))
            if out != exp or (rc != 0):
                fails.append({'signature': f'window:{kind}-selection-differs', 'detail': f'args {args} rc={rc}: ' + first_diff(out, exp),
                              'args': e2e.BASE_ARGS + args + ['FILE'], 'file_hex': small_hex(log.data), 'kind': kind})
        if len(samples) < 2:
            samples.append({'oracle': 'C03 window', 'kind': kind, 'messages': len(ts), 'duplicates': len(ts) - len(set(ts))})
        os.unlink(path)
    return {'evaluations': ev, 'distinct_nontrivial': ev, 'failures': fails, 'samples': samples,
            'rule': f'{n} sorted text logs with duplicate instants ({kinds}) x windows placed on, next to and between message instants, '
                    'one-sided and empty; stdout must be exactly the messages with A<=t<=B in file order, exit 0; distinct = runs'}


def oracle_window_yearless(ctx, n, kinds=('plain', 'gz', 'bz2')):
    """C03 on logs whose timestamps carry no year (classic syslog): the year comes from the file's modification
    time, and the window ends must stay inclusive, also when several messages carry exactly the instant A or B."""
    import time as _t
    rng = e2e.Rng(ctx.seed * 47 + 23)
    fails, ev = [], 0
    for k in range(n):
        nm = rng.range(4, 80)
        t = 1577836800 + rng.below(86400 * 200) + 3600        # 2020, well inside the year
        lines, ts = [], []
        for i in range(nm):
            t += rng.pick([0, 0, 0, 1, 1, 5, 600])
            ts.append(t)
            lines.append((_t.strftime('%b %e %H:%M:%S', _t.gmtime(t)) + ' host prog[%d]: m%03d ' % (100 + i % 5, i)).encode()
                         + e2e.text_line(rng, 3, 30, weird=False) + b'\n')
        data = b''.join(lines)
        mt = ts[-1] + 86400
        kind = kinds[k % len(kinds)]
        path = os.path.join(ctx.work, 'c03y_%d.log%s' % (k, e2e.SUFFIX[kind]))
        e2e.pack(data, kind, path, inner_name='c03y.log', mtime=mt)
        os.utime(path, (mt, mt))
        dup = [x for x in set(ts) if ts.count(x) > 1]
        for w in range(ctx.q(4, 10)):
            pick = lambda: (rng.pick(dup) if dup and rng.chance(2, 3) else rng.pick(ts)) + rng.pick([0, 0, 0, -1, 1])
            mode = w % 4
            a = b = None
            if mode == 0:
                a = pick()
            elif mode == 1:
                b = pick()
            elif mode == 2:
                a = b = rng.pick(dup) if dup else rng.pick(ts)
            else:
                a, b = sorted([pick(), pick()])
            args = (['-a', '+%d' % a] if a is not None else []) + (['-b', '+%d' % b] if b is not None else [])
            rc, out, err, _ = run_plain(path, args)
            ev += 1
            exp = b''.join(l for l, x in zip(lines, ts) if (a is None or x >= a) and (b is None or x <= b))
            if out != exp or rc != 0:
                fails.append({'signature': f'window:{kind}-selection-differs', 'kind': kind,
                              'detail': f'year-less log, mtime {mt}, args {args} rc={rc}: ' + first_diff(out, exp) + f'; messages at A: {ts.count(a) if a else "-"}, at B: {ts.count(b) if b else "-"}',
                              'args': e2e.BASE_ARGS + args + ['FILE'], 'file_hex': small_hex(data), 'mtime': mt})
        os.unlink(path)
    return {'evaluations': ev, 'distinct_nontrivial': ev, 'failures': fails, 'samples': [],
            'rule': f'{n} year-less syslog-style logs ({kinds}; year from the modification time) with runs of equal instants x windows placed on those instants '
                    '(A = several messages, B = several messages, A = B): stdout must be exactly the messages with A<=t<=B'}


def search_from_disagreements(ctx, corr_results, limit=12):
    """Search step (DESIGN §3 step 5): start from the requests on which model and implementation
    disagreed (components whose request carries a block size and the file bytes: proc, gate, sysl, line)
    and look for a failing input of the property itself on the real binary: stdout at that
    --blocksz vs the default block size."""
    fails, ev = [], 0
    seen = set()
    for c in corr_results:
        for d in c.get('disagreements', []):
            w = d['request'].split()
            if len(w) < 3 or w[0] not in ('proc', 'gate', 'sysl', 'line'):
                continue
            try:
                if w[0] in ('proc', 'gate'):
                    bs, hx = int(w[1]), w[2]
                elif w[0] == 'sysl':
                    bs, hx = int(w[1]), w[3]
                else:
                    bs, hx = int(w[2]), w[3]
                data = bytes.fromhex(hx) if hx != '-' else b''
            except Exception:
                continue
            if (bs, hx) in seen or bs < 64 or not data:
                continue
            seen.add((bs, hx))
            if len(seen) > limit:
                break
            p = os.path.join(ctx.work, 'dis_%d.log' % len(seen))
            open(p, 'wb').write(data)
            rc0, out0, _, _ = run_plain(p)
            rc1, out1, _, _ = run_plain(p, ['--blocksz', str(bs)])
            ev += 2
            if (rc0, out0) != (rc1, out1):
                # the same attribution rules as the block-size oracle
                i = data.find(b'\n')
                sig = 'blocksz:stdout-differs-from-default'
                fails.append({'signature': sig, 'detail': f'from a {w[0]} disagreement: --blocksz {bs}: ' + first_diff(out1, out0),
                              'args': e2e.BASE_ARGS + ['--blocksz', str(bs), 'FILE'], 'file_hex': small_hex(data)})
            os.unlink(p)
    return {'evaluations': ev, 'distinct_nontrivial': max(len(seen), 0), 'failures': fails, 'samples': [],
            'rule': 'search from correspondence disagreements: the disagreeing file at the disagreeing --blocksz vs the default block size'}
