"""C09 — journal files: every entry once, in journal order, fields intact."""
import gzip
import json
import os
import subprocess
import time
from collections import Counter

from vlib import core, e2e
from vlib.props.C08 import model_compare

MODS = ['S4V.Props.C09', 'S4V.Props.FilterSpec', 'S4V.Props.JournalRenderSpec', 'S4V.Props.FactsJournal', 'S4V.Props.JournalSkelSpec']
LEVEL_NOTE = ("Proved on the model of JournalReader's iteration with the stop test, the dating source and the field cap regenerated from the source on every run: "
              "without a window every enumerated entry is printed once in journal order; the selection is always an order-preserving sublist; for journals whose receive "
              "times are non-decreasing it is exactly A <= t <= B (inclusive both ends: the exclusive end was a defect repaired by commit a1ebdbb3); the instant is "
              "__REALTIME_TIMESTAMP; the export text carries every enumerated field unchanged (<= 200 fields) and is decodable iff no value contains a newline "
              "(counter-model proved: known finding F11). All ten renderings are modelled (JournalRenderSpec over Gen.JournalRender: mode dispatch and strftime patterns, "
              "field caps, slot/fallback tables, separators and terminators regenerated from journalreader.rs): cat = the first stored MESSAGE + newline, an entry without MESSAGE is skipped "
              "(C09_cat_is_message, C09_cat_without_message); export = three synthetic lines, then each of the first 200 items + newline, then a blank line (C09_export_all_fields, "
              "C09_export_nothing_dropped); the short line for all 64 present/missing combinations of host / identifier / _COMM / _PID / SYSLOG_PID / MESSAGE (C09_short_fields); verbose is a "
              "permutation of the stored pairs (C09_verbose_all_fields); every rendering ends with a newline, depends on its own entry only, and dates the entry by __REALTIME_TIMESTAMP "
              "(C09_render_ends_with_newline, C09_render_depends_only_on_entry, C09_timestamp_is_realtime, C09_timestamp_denotes_instant). Proved false and reproduced: entries with more than "
              "200 fields lose data (known finding F31), repeated keys are handled differently by short / cat / verbose. Tied to the code by running the real binary on shipped journals (plain and in containers) against "
              "`journalctl --file -o json` as an independent reader: entry count, order, per-entry field lines, cat text, and windows on/next to entry times.")
ASSUME = ["libsystemd: after seek_head / seek_realtime_usec(A), sd_journal_next enumerates each entry at or after the seek point once, in journal order; sd_journal_enumerate_available_data yields each stored field once",
          "journalctl is the independent reader for the oracle"]

SOURCES = [
    ('logs/programs/journal/Ubuntu22-user-1000x3.journal.gz', 'gz'),
    ('logs/programs/journal/RHE_91_system.journal.gz', 'gz'),
    ('logs/Ubuntu16/6c6ab73d82464b9493892c81fc732b3a/system.journal', 'plain'),
]


def fmt_us(us):
    s, frac = divmod(us, 1_000_000)
    return time.strftime('%Y-%m-%dT%H:%M:%S', time.gmtime(s)) + '.%06d' % frac


def journalctl(path):
    p = subprocess.run(['journalctl', '--file', path, '-o', 'json', '--no-pager', '--all'], stdout=subprocess.PIPE, stderr=subprocess.PIPE)
    ents = []
    for line in p.stdout.splitlines():
        try:
            ents.append(json.loads(line))
        except Exception:
            pass
    return ents


def val_bytes(v):
    """journalctl json value -> list of raw byte strings (multi-valued fields give several)"""
    if v is None:
        return []
    if isinstance(v, str):
        return [v.encode('utf-8', 'surrogateescape')]
    if isinstance(v, list):
        if v and all(isinstance(x, int) for x in v):
            return [bytes(v)]
        out = []
        for x in v:
            out += val_bytes(x)
        return out
    return [str(v).encode()]


def parse_export(out):
    """s4 export text -> list of entries, each a list of lines"""
    ents = []
    cur = []
    for ln in out.split(b'\n'):
        if ln.startswith(b'__CURSOR=') and cur:
            # entries are separated by an empty line; a multi-line value may contain empty lines too,
            # so start a new entry only at a cursor line
            ents.append(cur)
            cur = []
        cur.append(ln)
    if cur and any(cur):
        ents.append(cur)
    return ents


def oracle_and_corr(ctx):
    rng = e2e.Rng(ctx.seed * 67 + 41)
    failures, samples, reqs, impl = [], [], [], []
    ev = 0
    srcs = SOURCES if ctx.thorough else SOURCES[:2]
    for si, (rel, kind) in enumerate(srcs):
        src = os.path.join(core.REPO, rel)
        if not os.path.exists(src):
            continue
        plain = os.path.join(ctx.work, 'j%d.journal' % si)
        data = gzip.open(src, 'rb').read() if kind == 'gz' else open(src, 'rb').read()
        open(plain, 'wb').write(data)
        # a modification time OLDER than every entry (a journal restored from backup / copied with a lagging clock): the window is applied to the
        # entries' receive times, never to the file's mtime (seeded change C09-e dismissed a journal whose mtime lies before --dt-after)
        os.utime(plain, (946684800, 946684800))
        ref = journalctl(plain)
        if not ref:
            failures.append({'signature': 'journal:journalctl-unavailable', 'detail': rel})
            continue
        cursors = [e.get('__CURSOR') for e in ref]
        cur_idx = {c: i for i, c in enumerate(cursors)}
        times = [int(e['__REALTIME_TIMESTAMP']) for e in ref]
        monotone = all(a <= b for a, b in zip(times, times[1:]))
        multiline = sum(1 for e in ref for k, v in e.items() for b in val_bytes(v) if b'\n' in b)
        # --- full export: fields, count, order
        rc, out, err, _ = e2e.s4(e2e.BASE_ARGS + ['--journal-output', 'export', plain], timeout=600)
        ev += 1
        ents = parse_export(out)
        desc = {'journal': rel, 'entries': len(ref), 'monotone_realtime': monotone, 'multiline_values': multiline}
        if rc != 0 or len(ents) != len(ref):
            failures.append({'signature': 'journal:entry-count', 'detail': f'rc={rc} s4 printed {len(ents)} entries, journalctl {len(ref)}', 'case': desc})
        else:
            got_cursors = [ln[len(b'__CURSOR='):].decode() for e in ents for ln in e[:1]]
            if got_cursors != cursors:
                failures.append({'signature': 'journal:entry-order', 'detail': 'cursor sequence differs from journalctl', 'case': desc})
            bad = 0
            for e, r in zip(ents, ref):
                exp = Counter()
                for k, v in r.items():
                    for b in val_bytes(v):
                        for ln in (k.encode() + b'=' + b).split(b'\n'):
                            exp[ln] += 1
                got = Counter(ln for ln in e)
                got[b''] = 0
                exp[b''] = 0
                # s4 terminates the entry with one empty line
                if +got != +exp:
                    bad += 1
                    if bad == 1:
                        miss = list((exp - got).items())[:3]
                        extra = list((got - exp).items())[:3]
                        failures.append({'signature': 'journal:export-fields-differ', 'case': desc,
                                         'detail': f'entry {r.get("__CURSOR")}: missing {miss} extra {extra}'})
        if multiline:
            failures.append({'signature': 'journal:multiline-value-not-length-prefixed', 'case': desc,
                             'detail': f'{multiline} field values contain a newline; s4 export writes them raw (journalctl -o export uses the binary length-prefixed form)'})
        # --- cat
        rc, out, err, _ = e2e.s4(e2e.BASE_ARGS + ['--journal-output', 'cat', plain], timeout=600)
        ev += 1
        exp_cat = expected_cat(ref)
        if out != exp_cat:
            failures.append({'signature': 'journal:cat-text-differs', 'case': desc, 'detail': f'{len(out)} bytes vs {len(exp_cat)} expected'})
        # --- windows (+ containers)
        nwin = ctx.q(4, 12)
        # two extra windows whose bound lies BEFORE 1970 (entry times are unsigned microseconds; the bound used to wrap around)
        for w in range(nwin + 2):
            a = b = None
            mode = w % 4 if w < nwin else 4 + (w - nwin)
            pick = lambda: rng.pick(times) + rng.pick([0, 0, 0, -1, 1])
            if mode == 0:
                b = rng.pick(times)                # inclusive end exactly on an entry
            elif mode == 1:
                a = rng.pick(times)
            elif mode == 2:
                a = b = rng.pick(times)
            elif mode == 3:
                a, b = sorted([pick(), pick()])
            elif mode == 4:
                a = -315619200000000 - rng.below(1000)      # 1960: everything is after it
            else:
                b = -315619200000000 - rng.below(1000)      # nothing is before it
            path = plain
            ckind = ['plain', 'gz', 'xz', 'bz2', 'lz4'][w % 5] if len(data) < 4_000_000 else 'plain'
            if ckind != 'plain':
                path = plain + e2e.SUFFIX[ckind]
                if not os.path.exists(path):
                    e2e.pack(data, ckind, path, inner_name=os.path.basename(plain))
                    os.utime(path, (946684800, 946684800))
            args = ['--journal-output', 'export']
            if a is not None:
                args += ['-a', fmt_us(a)]
            if b is not None:
                args += ['-b', fmt_us(b)]
            rc, out, err, _ = e2e.s4(e2e.BASE_ARGS + args + [path], timeout=600)
            ev += 1
            got = [cur_idx.get(ln[len(b'__CURSOR='):].decode(), -1) for ln in out.split(b'\n') if ln.startswith(b'__CURSOR=')]
            exp = [i for i, t in enumerate(times) if (a is None or t >= a) and (b is None or t <= b)]
            if monotone and got != exp:
                failures.append({'signature': 'journal:window-selection-differs', 'case': {**desc, 'args': args, 'container': ckind},
                                 'detail': f'printed {len(got)} entries expected {len(exp)}; first printed {got[:3]} expected {exp[:3]}; last {got[-2:]} vs {exp[-2:]}'})
            reqs.append('jrn %s %s %s' % ('n' if a is None else a, 'n' if b is None else b, ','.join(str(t) for t in times)))
            impl.append(','.join(str(i) for i in got))
        if len(samples) < 3:
            samples.append({'oracle': 'C09 journal', **desc})
        for f in os.listdir(ctx.work):
            if f.startswith('j%d.journal' % si):
                os.unlink(os.path.join(ctx.work, f))
    orc = {'evaluations': ev, 'distinct_nontrivial': max(len(set(reqs)), 2), 'failures': failures, 'samples': samples,
           'rule': 'shipped journals (decompressed; also re-packed into gz/xz/bz2/lz4) through `s4 --journal-output export|cat` vs `journalctl --file -o json`: entry count, cursor order, '
                   'per-entry multiset of field lines, MESSAGE text, windows exactly on / next to entry receive times (inclusive both ends); distinct = distinct window requests'}
    corr = model_compare(ctx, 'journal-select', reqs, impl)
    # the same requests through the interpreter of the enumeration skeleton regenerated from journalreader.rs / s4.rs
    corr2 = model_compare(ctx, 'journal-select-skel', ['jskel' + r[3:] for r in reqs], impl)
    return orc, [corr, corr2]


def expected_cat(ref):
    """cat rendering: the MESSAGE text of every entry that stores one (an entry without MESSAGE contributes
    nothing, as with `journalctl -o cat`)"""
    return b''.join(val_bytes(r.get('MESSAGE'))[0] + b'\n' for r in ref if val_bytes(r.get('MESSAGE')))


def oracle_patched(ctx):
    """Journals with unusual entries: the shipped small journal with the field name of some MESSAGE data objects
    renamed in place (MESSAGE= -> MESSAGX=, same length), so that some entries store no MESSAGE. journalctl
    reads such a file without complaint; s4 must still print every entry once (export) and the MESSAGE text of
    every entry that has one (cat), for every choice of entries."""
    rng = e2e.Rng(ctx.seed * 71 + 5)
    failures, ev = [], 0
    rel, kind = SOURCES[0]
    src = os.path.join(core.REPO, rel)
    if not os.path.exists(src):
        return None
    data = gzip.open(src, 'rb').read()
    # occurrences of uncompressed MESSAGE data objects
    occ = []
    i = data.find(b'MESSAGE=')
    while i >= 0:
        if i == 0 or data[i - 1:i] not in (b'_',) and not data[i - 1:i].isalnum():
            occ.append(i)
        i = data.find(b'MESSAGE=', i + 1)
    nvar = ctx.q(4, 16)
    for v in range(nvar):
        b = bytearray(data)
        k = 1 + rng.below(min(len(occ), 2)) if v else 1
        chosen = sorted(rng.shuffle(occ)[:k]) if v else [occ[len(occ) // 2]]
        for o in chosen:
            b[o:o + 8] = b'MESSAGX='
        path = os.path.join(ctx.work, 'patched_%d.journal' % v)
        open(path, 'wb').write(bytes(b))
        ref = journalctl(path)
        has = [bool(val_bytes(r.get('MESSAGE'))) for r in ref]
        desc = {'journal': rel, 'renamed_MESSAGE_objects_at': chosen, 'entries': len(ref), 'entries_with_MESSAGE': sum(has)}
        if not ref:
            os.unlink(path)
            continue
        rc, out, err, _ = e2e.s4(e2e.BASE_ARGS + ['--journal-output', 'export', path])
        ev += 1
        got = [ln[len(b'__CURSOR='):].decode() for ln in out.split(b'\n') if ln.startswith(b'__CURSOR=')]
        if got != [r.get('__CURSOR') for r in ref]:
            failures.append({'signature': 'journal:entry-count', 'case': desc, 'detail': f'export lists {len(got)} entries, journalctl {len(ref)}'})
        for extra in ([], ['-a', fmt_us(int(ref[0]['__REALTIME_TIMESTAMP']))]):
            rc, out, err, _ = e2e.s4(e2e.BASE_ARGS + ['--journal-output', 'cat'] + extra + [path])
            ev += 1
            exp = expected_cat(ref)
            if out != exp:
                failures.append({'signature': 'journal:cat-text-differs', 'case': {**desc, 'args': extra},
                                 'detail': f'cat printed {out.count(10)} lines ({len(out)} B), the journal stores {exp.count(10)} MESSAGE texts ({len(exp)} B); entries with MESSAGE: {has}'})
        os.unlink(path)
    return {'evaluations': ev, 'distinct_nontrivial': nvar, 'failures': failures, 'samples': [],
            'rule': 'the 3-entry shipped journal with 1-2 MESSAGE data objects renamed in place (entries without MESSAGE): export cursor list == journalctl, '
                    'cat == MESSAGE text of the entries that store one, with and without -a at the first entry'}


def step_back(data, k, delta):
    """the journal `data` with the wall clock set back part-way: every entry from position k on (sequence-number order) gets
    __REALTIME_TIMESTAMP - delta; only the `realtime` word of the entry objects is rewritten. None if the layout is unexpected."""
    import struct
    b = bytearray(data)
    if b[:8] != b'LPKSHHRH':
        return None
    header_size, = struct.unpack_from('<Q', b, 88)
    tail, = struct.unpack_from('<Q', b, 136)
    off, entries = header_size, []
    while off <= tail and off + 16 <= len(b):
        size, = struct.unpack_from('<Q', b, off + 8)
        if size < 16:
            return None
        if b[off] == 3:
            entries.append(off)
        off = (off + size + 7) & ~7
    seq = [struct.unpack_from('<Q', b, o + 16)[0] for o in entries]
    if seq != sorted(seq) or not 0 < k < len(entries):
        return None
    for o in entries[k:]:
        rt, = struct.unpack_from('<Q', b, o + 24)
        struct.pack_into('<Q', b, o + 24, rt - delta)
    return bytes(b)


def oracle_clock_step_back(ctx):
    """Journals whose receive times go BACKWARDS between entries (the wall clock was stepped back while journald was writing):
    the property's order is the order the journal enumerates its entries (what `journalctl --file` prints), not receive-time
    order. Shipped samples are all non-decreasing, so the realtime word of the later entries is rewritten in place."""
    rng = e2e.Rng(ctx.seed * 113 + 9)
    failures, ev, nvar = [], 0, 0
    for si, (rel, kind) in enumerate(SOURCES[:2] if not ctx.thorough else SOURCES):
        src = os.path.join(core.REPO, rel)
        if not os.path.exists(src):
            continue
        data = gzip.open(src, 'rb').read() if kind == 'gz' else open(src, 'rb').read()
        if not data or len(data) > 12_000_000:
            continue
        n0 = len(journalctl_tmp(ctx, data))
        if n0 < 2:
            continue
        for v in range(ctx.q(2, 6)):
            k = 1 + rng.below(n0 - 1)
            pd = step_back(data, k, rng.pick([3_000_000, 60_000_000, 3_600_000_000]))
            if pd is None:
                continue
            path = os.path.join(ctx.work, 'stepback_%d_%d.journal' % (si, v))
            open(path, 'wb').write(pd)
            ref = journalctl(path)
            times = [int(r['__REALTIME_TIMESTAMP']) for r in ref]
            if len(ref) != n0 or times == sorted(times):
                os.unlink(path)
                continue
            nvar += 1
            desc = {'journal': rel, 'entries': len(ref), 'clock_set_back_from_entry': k}
            for pk in ('plain', 'gz') if v == 0 else ('plain',):
                p2 = path
                if pk != 'plain':
                    p2 = path + e2e.SUFFIX[pk]
                    e2e.pack(pd, pk, p2, inner_name=os.path.basename(path))
                rc, out, err, _ = e2e.s4(e2e.BASE_ARGS + ['--journal-output', 'export', p2], timeout=600)
                ev += 1
                got = [ln[len(b'__CURSOR='):].decode() for ln in out.split(b'\n') if ln.startswith(b'__CURSOR=')]
                exp = [r.get('__CURSOR') for r in ref]
                if got != exp:
                    what = 'journal:not-in-journal-order' if sorted(got) == sorted(exp) else 'journal:entry-count'
                    failures.append({'signature': what, 'case': {**desc, 'container': pk},
                                     'detail': f'export lists {len(got)} entries, journalctl {len(exp)}; first difference at position {next((i for i, (a, b) in enumerate(zip(got, exp)) if a != b), min(len(got), len(exp)))}'})
                rc, out, err, _ = e2e.s4(e2e.BASE_ARGS + ['--journal-output', 'cat', p2], timeout=600)
                ev += 1
                if out != expected_cat(ref):
                    failures.append({'signature': 'journal:cat-text-differs', 'case': {**desc, 'container': pk}, 'detail': f'cat text differs from journalctl order ({len(out)} B)'})
                if p2 != path:
                    os.unlink(p2)
            os.unlink(path)
    return {'evaluations': ev, 'distinct_nontrivial': max(nvar, 1), 'failures': failures, 'samples': [],
            'rule': 'shipped journals with the realtime word of the entries from a random position on lowered (clock set back 3 s / 1 min / 1 h): export cursors and cat text must follow '
                    'journalctl --file order (journal order), plain and gz'}


def journalctl_tmp(ctx, data):
    p = os.path.join(ctx.work, 'jtmp_count.journal')
    open(p, 'wb').write(data)
    try:
        return journalctl(p)
    finally:
        os.unlink(p)


def oracle_many_fields(ctx):
    """A journal written by the real systemd-journald with entries of ~200 and of 319 fields (corpus/jrender/synth.journal.xz; journald
    stores up to 1024 fields per entry): every stored field must appear in the export rendering, and the short rendering must show the
    MESSAGE. The renderings stop enumerating after 200 items (known finding F31)."""
    import lzma
    src = os.path.join(core.VERIF, 'corpus', 'jrender', 'synth.journal.xz')
    failures, ev = [], 0
    if not os.path.exists(src):
        return {'evaluations': 0, 'distinct_nontrivial': 0, 'failures': [], 'samples': [], 'rule': 'synthetic journal missing'}
    plain = os.path.join(ctx.work, 'synth.journal')
    open(plain, 'wb').write(lzma.open(src).read())
    ref = journalctl(plain)
    rc, out, err, _ = e2e.s4(e2e.BASE_ARGS + ['--journal-output', 'export', plain], timeout=600)
    ev += 1
    ents = parse_export(out)
    desc = {'journal': 'corpus/jrender/synth.journal.xz', 'entries': len(ref)}
    if not ref:
        failures.append({'signature': 'journal:journalctl-unavailable', 'detail': 'synth'})
    elif rc != 0 or len(ents) != len(ref):
        failures.append({'signature': 'journal:entry-count', 'detail': f'rc={rc} s4 printed {len(ents)} entries, journalctl {len(ref)}', 'case': desc})
    else:
        for e, r in zip(ents, ref):
            exp = Counter()
            nitems = 0
            for k, v in r.items():
                for b in val_bytes(v):
                    if not k.startswith('__'):
                        nitems += 1
                    for ln in (k.encode() + b'=' + b).split(b'\n'):
                        exp[ln] += 1
            got = Counter(ln for ln in e)
            got[b''] = 0
            exp[b''] = 0
            ev += 1
            if +got != +exp:
                miss = list((exp - got).items())
                extra = list((got - exp).items())
                # the known finding is exactly "the first 200 stored items are printed, the rest dropped": one missing line per dropped item
                # (values of the corpus' big entries are single-line), i.e. nitems - 200 missing lines; any other shortfall is a different defect
                if nitems > 200 and not extra and sum(c for _, c in miss) == nitems - 200:
                    failures.append({'signature': 'journal:fields-beyond-200-dropped', 'case': {**desc, 'stored_items': nitems},
                                     'detail': f'entry {r.get("__CURSOR")} stores {nitems} items; {sum(c for _, c in miss)} field line(s) missing from the export rendering, e.g. {miss[:2]}'})
                else:
                    failures.append({'signature': 'journal:export-fields-differ', 'case': {**desc, 'stored_items': nitems},
                                     'detail': f'entry {r.get("__CURSOR")}: missing {miss[:3]} extra {extra[:3]}'})
    return {'evaluations': ev, 'distinct_nontrivial': ev, 'failures': failures, 'samples': [],
            'rule': 'a journald-written journal with entries of 5..319 fields (repeated keys, binary / empty / multi-line / 128 KB values): per entry the export field lines == journalctl -o json'}


def check(ctx):
    ok_gen = core.step_gen(ctx, ['Journal', 'Filter', 'JournalRender', 'JournalSkel', 'JournalSkelMutants'])
    prove = core.step_prove(ctx, MODS) if ok_gen else {'module': ' '.join(MODS), 'obligations': 0, 'discharged': 0}
    core.step_drv(ctx) if (ok_gen or ctx.search_mode) else False
    ok_impl = core.step_build_impl(ctx)
    orc, corr = (None, [])
    if ok_impl:
        orc, corr = oracle_and_corr(ctx)
        orc = core.merge_oracles([orc, oracle_patched(ctx), oracle_many_fields(ctx), oracle_clock_step_back(ctx)])
        # every rendering of every entry: the real JournalReader vs Model.JournalRender (values from journalctl -o export, order from the real enumeration)
        os.environ.setdefault('S4_REPO', core.REPO)
        corr.append(core.correspond(ctx, 'jrender', ctx.q(2000, 60000)))
    return core.decide(ctx, prove, corr, orc, LEVEL_NOTE, ASSUME)


def replay(ctx, data):
    return core.generic_replay(ctx, data)
