"""C13 — prepended fields, separators and colour are pure decoration."""
import os

from vlib import core, e2e
from vlib import print_common as pc
from vlib.props.C08 import model_compare
from vlib.coord_common import first_diff

MODS = ['S4V.Props.PrintSpec', 'S4V.Props.FactsPrint']
LEVEL_NOTE = ("Proved over a byte-level model of the 8+8+4+4 print variants of printers.rs (as sequences of buffer_write_or_return!/setcolor_or_return! calls, "
              "interpreted with the printer's color_spec_last) and of the coordinator's separator / final-newline writes: without escapes every printed line is "
              "file field ++ datetime field ++ line for text logs, event-log records and journal entries under both colour settings (C13_field_order), no options => exactly "
              "the message bytes (C13_plain), stripping escapes and per-line fields gives back the message (C13_strip, C13_strip_buf with the necessary 'ends in newline' "
              "hypothesis: C13_strip_buf_full_false), one separator after each message and none inside (C13_separator), colour adds only escapes "
              "(C13_colour_only_escapes), with -w every printed name is padded to the widest printed name in display columns, for arbitrary names incl. wide characters "
              "(C13_align_full_holds; unfolds the regenerated ALIGN_PADS_BY_COLUMNS; the char-count padding repaired as F9 is the counter-model "
              "char_count_padding_misaligns); the prepend separator is literal in the datetime field (PREPEND_SEPARATOR_LITERAL regenerated; F17 repaired). Lines split over read blocks: `hlParts` mirrors the loop of print_color_line_highlight_dt! over the lineparts literally and its "
              "per-part body is proved equal to the body TRANSLATED from printers.rs on every run (hlPart_matches_source: the five cases, their comparisons, the bounds of "
              "every &slice[..], the colour of every write); for every partition of a line and every datetime span b<=e the writes are the line (C13_parts_bytes), byte i is "
              "written under the datetime colour iff b<=i<e and under the text colour otherwise (C13_parts_dt, C13_parts_dt_bytes), so the plain and counted streams are "
              "those of the one-part model (hlParts_eq_hlLine) and the theorems above extend to multi-part lines. Tied to the code by running the real binary over the option cross product on sources of all four kinds and comparing stdout "
              "byte for byte with the model's rendering (driver op `prt run`); the expected datetime field is computed independently of s4 and chrono; and in-process "
              "(harness component `prt`, driver op `prt sys`): real Syslines read at block sizes 8..8192 (first lines of up to hundreds of parts, datetime straddling part "
              "boundaries, messages larger than the print buffer) printed by the real PrinterLogMessage::print_sysline with fd 1 redirected: bytes, (printed, flushed) and "
              "the colour of every byte equal the model's.")
ASSUME = ["strftime rendering (chrono) and the escape bytes of a ColorSpec (termcolor) are not modelled: the datetime field enters the model already formatted "
          "(computed independently in Python from the message's instant, zone and format), the escape bytes are parameters required to be runs of ESC[...m",
          "the datetime field is strftime(format ++ prepend separator) as coded (s4.rs first_print); the independent renderer assumes a separator without '%' "
          "(separators with '%' are probed separately: known finding F14)",
          "write errors are not modelled; the lineparts of a line are taken to be its pieces between block boundaries (checked against count_lineparts() and the "
          "line's bytes in the harness); the datetime span (dt_beg, dt_end) of a Sysline is read from its Debug rendering",
          "the datetime highlight span of a message is read off the `--color always` run without prefixes and then used to predict every other colour run"]


def scenarios(ctx, rng):
    w = ctx.work
    scs = []
    n_text = ctx.q(3, 10)
    for k in range(n_text):
        scs.append(pc.text_scenario(rng, w, k, nonascii=(k % 2 == 1)))
    scs.append(pc.text_scenario(rng, w, 90, names=['a.log', '日本語.log']))
    # sources that print nothing (no timestamp at all / every message before -a) with the WIDEST name: the -w width is that of the
    # widest PRINTED name, and colours/prefixes of the printing sources are unaffected
    scs.append(pc.text_scenario(rng, w, 87, names=['a.log', 'bb.log'], silent=[(2, 'a-much-longer-name-that-prints-nothing.log', 'old')]))
    scs.append(pc.text_scenario(rng, w, 88, names=['a.log', 'bb.log'], silent=[(1, 'silent-and-wider-than-the-others.log', 'nolog')]))
    # messages that share a second or a millisecond but not the instant (steps of 0 s, 9-digit fractions): with a -d format finer than
    # the default every message must carry ITS OWN instant (seeded change C13-d: a cache of the last formatted field keyed on milliseconds)
    scs.append(pc.text_scenario(rng, w, 86, names=['a.log', 'bb.log'], steps=(0, 0, 0, 0, 1), nmsgs=(10, 16),
                                fracs=(0, 1000, 2000, 250000, 999000, 999999, 1000000, 1000001, 500000000, 999999999)))
    scs.append(pc.wtmp_text_scenario(rng, w, 91))
    scs.append(pc.evtx_scenario(rng, w, 92 + ctx.seed % 3))
    scs.append(pc.journal_scenario(rng, w, 95, mode='short'))
    scs.append(pc.journal_scenario(rng, w, 96, mode='export'))
    if ctx.thorough:
        scs.append(pc.wtmp_text_scenario(rng, w, 97))
        scs.append(pc.journal_scenario(rng, w, 98, mode='verbose'))
        scs.append(pc.journal_scenario(rng, w, 99, mode='short-iso-precise', big=True))
    return scs


def align_check(sc, t, out):
    """-w, measured on the REAL stdout: every line must begin with one of the printed names padded with spaces to the
    common width W = the widest printed name in display columns, then the prepend separator (was finding F9: the
    padding counted chars; repaired, so any misalignment is a violation again)"""
    fm, al = t[0], t[1]
    if not (fm and al):
        return None
    ffield, _, sepb = pc.fields(sc, t)
    if not ffield or sepb:
        # with a message separator the line starts are not the field starts; those runs are judged by strip_decor only
        return None
    names = [name.decode() for (name, _, _, _) in ffield.values()]
    psep = next(iter(ffield.values()))[3]
    W = max(pc.disp_width(n) for n in names)
    heads = [n.encode() + b' ' * (W - pc.disp_width(n)) + psep for n in names]
    plain = pc.ESC_RE.sub(b'', out)
    wide = any(pc.disp_width(n) != len(n) for n in names)
    # only the first line of every message is looked at when a message's later lines could begin with anything:
    # every printed line carries the field, so all of them are checked
    for ln in plain.split(b'\n'):
        ln = ln.lstrip(b'\0')     # the NUL written after every accounting record (known finding F12 of C08) starts the next line
        if not ln:
            continue
        if not any(ln.startswith(h) for h in heads):
            return ('print:align-pads-by-char-count' if wide else 'print:align-mismatch',
                    f'line {ln[:60]!r} does not begin with a printed name padded to {W} display columns + separator {psep!r}; names {names}')
    return None


def oracle_and_corr(ctx):
    rng = e2e.Rng(ctx.seed * 61 + 37)
    cols = pc.colors_text()
    failures, samples = [], []
    reqs, impl = [], []
    preqs, pimpl = [], []
    ev = 0
    scs = scenarios(ctx, rng)
    per = ctx.q(48, 400)
    for sc in scs:
        for pr in sc.problems:
            failures.append({**pr, 'case': {'scenario': sc.name}})
        if sc.problems or not sc.msgs:
            continue
        for t in pc.option_tuples(rng, per):
            args = pc.tuple_args(t)
            rc, out, err, _ = sc.run(args)
            ev += 1
            case = {'scenario': sc.name, 'args': sc.args(args), 'files': [f['base'] for f in sc.files]}
            if b'panicked' in err or rc not in (0, 1):
                failures.append({'signature': 'print:crash', 'detail': f'rc={rc} {err[-300:]!r}', 'case': case})
                continue
            ok, det, what = pc.strip_decor(sc, t, out)
            if not ok:
                sig = 'print:strip-differs-from-undecorated:' + what
                # the one known inconsistency: accounting records, no colour, both fields -> datetime first
                if what == 'file' and not t[6] and t[0] and any(m['kind'] == 'f' for m in sc.msgs):
                    ok2, _, _ = pc.strip_decor(sc, t, out, swap_fixed=True)
                    if ok2:
                        sig = 'print:fixedstruct-datetime-before-file'
                failures.append({'signature': sig, 'detail': det, 'case': case})
            al = align_check(sc, t, out) if ok else None
            if al:
                failures.append({'signature': al[0], 'detail': al[1], 'case': case})
            reqs.append(pc.run_request(sc, t, cols))
            impl.append(pc.hx(out))
            for rq, exp in pc.pfx_requests(sc, t):
                preqs.append(rq)
                pimpl.append(exp)
            if len(samples) < 4 and ev % 17 == 1:
                samples.append({'oracle': 'C13 strip', **case, 'stdout_bytes': len(out), 'ok': ok})
    # the prepend separator must be literal in both fields; it is appended to the strftime format before formatting
    for sc in [s for s in scs if not s.problems and s.msgs][:1] + [s for s in scs if s.name.startswith('wtmp') and not s.problems][:1]:
        # with and without a file-name field: the separator follows BOTH fields and only the datetime one goes through strftime
        # (seeded change C13-e escaped the shared string once, so the file field printed `%%`)
        for ps, fm_ in (('%H', None), ('%', None), ('%', '-n'), (' 100% ', '-p')):
            t = (fm_, bool(fm_), 1, 0, ps, None, False)
            args = pc.tuple_args(t)
            rc, out, err, _ = sc.run(args)
            ev += 1
            case = {'scenario': sc.name, 'args': sc.args(args), 'files': [f['base'] for f in sc.files]}
            ok, det, what = pc.strip_decor(sc, t, out)
            if b'panicked' in err:
                failures.append({'signature': 'print:prepend-separator-interpreted-as-strftime', 'case': case,
                                 'detail': f'panic: {err[-160:]!r}'})
            elif not ok:
                failures.append({'signature': 'print:prepend-separator-interpreted-as-strftime' if what == 'datetime' else
                                 'print:strip-differs-from-undecorated:' + what, 'detail': det, 'case': case})
    orc = {'evaluations': ev, 'distinct_nontrivial': len(set(reqs)), 'failures': failures, 'samples': samples,
           'rule': f'{len(scs)} scenarios (text logs with names of differing and non-ASCII widths, wtmp + text, evtx, journal short/export) x {per} option tuples from '
                   '-n/-p x -w x {none,-u,-l,-z +05:30,-z -03:00,-z +01:00} x -d {default,%s,microseconds} x --prepend-separator x --separator (escapes) x --color; '
                   'deleting escapes, per-line file and datetime fields and separators must leave the undecorated stdout; distinct = distinct model requests'}
    res = [model_run_compare(ctx, reqs, impl), model_compare(ctx, 'prt-pfx', sorted(set(preqs)), [dict(zip(preqs, pimpl))[r] for r in sorted(set(preqs))])]
    return orc, res


def oracle_multipart(ctx):
    """Lines split across read blocks, timestamp not at column 0 (e.g. `<14>2020-…`), colour on:
    the decorated output with the escapes (and prefixes) removed must equal the undecorated output
    at the same block size. (The end-to-end counterpart of C13_parts_bytes.)"""
    import os
    rng = e2e.Rng(ctx.seed * 89 + 3)
    fails, ev = [], 0
    for k in range(ctx.q(3, 20)):
        lines = []
        t = 1577836800 + rng.below(1000)
        for i in range(rng.range(40, 120)):
            t += rng.pick([0, 1, 1, 7])
            pre = rng.pick([b'<14>', b'[', b'<165>1 ', b'host7 ', b''])
            body = b' app: ' + e2e.text_line(rng, 5, 70, weird=False)
            lines.append(pre + e2e.fmt_ts(t).replace(' ', 'T').encode() + body + b'\n')
            if rng.chance(1, 5):
                lines.append(b'    continuation ' + e2e.text_line(rng, 0, 90, weird=False) + b'\n')
        data = b''.join(lines)
        p = os.path.join(ctx.work, 'mp_%d.log' % k)
        open(p, 'wb').write(data)
        for bs in [64, rng.pick([65, 100, 127, 128])]:
            base = ['-t', '+00:00', '--blocksz=%d' % bs]
            rc0, plain, err0, _ = e2e.s4(['--color=never'] + base + [p])
            if not plain:
                continue          # gate rejected the file at this block size (known findings F1/F2)
            for extra in ([], ['-n'], ['-u', '-d=%Y%m%dT%H%M%S%z']):
                rc1, col, err1, _ = e2e.s4(['--color=always'] + base + extra + [p])
                rc2, nocol, err2, _ = e2e.s4(['--color=never'] + base + extra + [p])
                ev += 2
                stripped = pc.ESC_RE.sub(b'', col)
                if b'panicked' in err1 or rc1 not in (0, 1):
                    fails.append({'signature': 'print:crash', 'detail': f'rc={rc1} {err1[-300:]!r}', 'case': {'args': base + extra, 'color': 'always'}, 'file_hex': data.hex()})
                elif stripped != nocol:
                    fails.append({'signature': 'print:colour-changes-bytes-on-multipart-lines',
                                  'detail': f'--blocksz {bs} {extra}: ' + first_diff(stripped, nocol), 'case': {'args': base + extra}, 'file_hex': data.hex() if len(data) < 20000 else 'large'})
        os.unlink(p)
    return {'evaluations': ev, 'distinct_nontrivial': ev, 'failures': fails, 'samples': [],
            'rule': 'logs whose timestamp is not at column 0, at --blocksz 64..128 (lines split across blocks): --color always with escapes removed must equal --color never, with and without prefixes'}


def model_run_compare(ctx, reqs, impl):
    """compare only the stdout part of the `prt run` reply"""
    res = {'component': 'prt-run', 'cases': len(reqs), 'disagreements': [], 'distinct': len(set(reqs))}
    if not reqs:
        return res
    rc, model = pc.drive(reqs)
    if rc != 0 or len(model) != len(reqs):
        ctx.broken.append({'kind': 'correspondence', 'name': 'prt-run', 'detail': f'driver rc={rc} replies={len(model)} of {len(reqs)}'})
        return res
    nd = 0
    for r, i, m in zip(reqs, impl, model):
        mo = m.split(' ')[0]
        if mo != i:
            nd += 1
            if len(res['disagreements']) < 5:
                res['disagreements'].append({'request': r[:2000], 'impl': i[:1500], 'model': mo[:1500]})
    res['n_disagreements'] = nd
    res['samples'] = [{'request': reqs[0][:300], 'reply': model[0][:200]}]
    if nd:
        d = res['disagreements'][0]
        ctx.broken.append({'kind': 'correspondence', 'name': 'prt-run',
                           'detail': f"{nd} disagreement(s); first: {d['request'][:300]} impl={d['impl'][:200]} model={d['model'][:200]}",
                           'disagreements': res['disagreements'][:3]})
        ctx.log(f'correspondence prt-run: {nd} DISAGREEMENTS')
    else:
        ctx.log(f'correspondence prt-run: {len(reqs)} cases agree')
    ctx.steps.setdefault('correspond', []).append({k: v for k, v in res.items() if k != 'disagreements'})
    return res


def corr_prt(ctx):
    """real Syslines (lineparts) through the real print_sysline vs the buffer/lineparts model"""
    os.environ['S4H_TMP'] = os.path.join(ctx.work, 'tmp')
    return core.correspond(ctx, 'prt', ctx.q(2000, 20000))


def check(ctx):
    ok_gen = core.step_gen(ctx, ['Print'])
    prove = core.step_prove(ctx, MODS) if ok_gen else {'module': ' '.join(MODS), 'obligations': 0, 'discharged': 0}
    ok_drv = core.step_drv(ctx) if (ok_gen or ctx.search_mode) else False
    ok_impl = core.step_build_impl(ctx, need_harness=True)
    orc, corr = (None, [])
    if ok_impl and ok_drv:
        orc, corr = oracle_and_corr(ctx)
        corr = corr + [corr_prt(ctx)]
        orc = core.merge_oracles([orc, oracle_multipart(ctx)])
    return core.decide(ctx, prove, corr, orc, LEVEL_NOTE, ASSUME)


def replay(ctx, data):
    return core.generic_replay(ctx, data)
