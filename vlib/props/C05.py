"""C05 — compression and archiving are transparent."""
import bz2
import gzip
import io
import os
import shutil
import tarfile
import time

from vlib import core, e2e, text_oracles
from vlib.coord_common import first_diff
from vlib.props import C08

MODS = ['S4V.Props.StreamSpec', 'S4V.Props.StreamSearchSpec', 'S4V.Props.TarMemberSpec', 'S4V.Props.LineSkelSpec']
LEVEL_NOTE = ("Proved over the model of BlockReader::new / read_block / read_block_File{,Gz,Bz2,Lz4,Xz,Tar} / drop_block and the copy loop of "
              "decompress_to_ntf, with a decoder modelled as the decompressed bytes plus an ARBITRARY script of chunk sizes: for every block size >= 1, "
              "every content (empty, one byte, exact multiples) and every chunking, gz, bz2 and lz4 assemble exactly the plain file's blocks; xz (split in new, "
              "incl. the never-returned extra empty block when bs divides the size) and tar (whole member on first miss) do so for any request order; a streamed "
              "reader asked in non-decreasing order answers what the plain reader answers; the look-back keeps only the highest block (depth 0); the temp file "
              "of decompress_to_ntf holds exactly the decompressed bytes. The lz4 proof unfolds the generated LZ4_FILL_LOOP (read_block_FileLz4 reads into the "
              "unfilled rest of the block until it is full; repaired in 0949c9b4, was F22); the reader with ONE read per block is kept as a counter-model "
              "(assemble_eq_lz4_single_read_false). Loop shapes/constants (GZ BUF_SZ, lz4 fill loop, xz `<=`, look-back target, Done-above-last) are "
              "extracted from the source on every run. Tied to the code by opening a real BlockReader over containers built by the harness (gz levels 0-9, "
              "header fields, sync-flush points; xz; lz4 block sizes/linked/flush points; tar ustar/gnu, member position) and by Python (bz2 levels, tar "
              "ustar/gnu/pax) and comparing every returned block (length + hash), filesz, blocks_highest and blocks_read count with the model, for in-order, "
              "step-back, repeated and gapped request orders. The real decoders' chunk sizes are not observed (that needs a patched reader): the theorems "
              "cover all chunkings and the correspondence checks the assembled result; for lz4 the chunk boundaries are the frame's block boundaries, which "
              "the harness knows because it built the frame. "
              "Search strategy and drop policy (S4V.Props.StreamSearchSpec): the translator extracts the WHOLE BlockReader::is_streamed_file table (every row, checked to be "
              "FileType x FileTypeArchive + Unparsable, no wildcard), read_block's dispatch table, which read_block_File* end with the look-back drop (bz2, gz, lz4), the "
              "choice `linear search iff is_streamed_file()` of find_sysline_{between_datetime_filters,at_datetime_filter}, the condition of disable_drop_data() in "
              "blockzero_analysis_syslines (streamed && !has_year) and in FixedStructReader::new, and the drop_data guard of drop_block. Proved by `decide` over those generated "
              "values (a flipped row / negated condition breaks the proof): every (file type, bz2|gz|lz4) row is `true` (C05_streamed_table), hence the search made on such "
              "a file is the linear one and every request of a linear (non-decreasing) block trace gets the plain file's block for every chunking / block size / content "
              "(C05_search_on_streamed_ok); a bisection trace on the same reader gets Done for a block that exists (binary_on_stream_loses: why the flag matters); a year-less "
              "streamed log gets disable_drop_data() and the reader then answers EVERY request order, the backwards year pass in particular (C05_yearless_keep, "
              "C05_keep_any_order over the model extended with drop_data), while with drop left on the backwards trace loses blocks (backward_on_stream_drop_loses). The block "
              "traces are a separate abstract model at the level of block offsets (S4V.Model.StreamSearch); one bridge to the SyslineReader model is proved: the offsets at "
              "which the modelled linear search calls find_sysline are strictly increasing (lsearch_probes_increasing). Tied to the code by component `strm`: the REAL "
              "is_streamed_file() of a BlockReader opened over a container for each (file type, archive) it can be opened with (Text and FixedStruct x 6 archives; Evtx, Journal, "
              "Unparsable are refused by BlockReader::new) vs the generated table; the real BlockReader with and without disable_drop_data() under backwards / bisection / "
              "random request orders vs the model; and the real SyslogProcessor pipeline (stages 0-3 + streaming loop with drop_data_try) over multi-block logs with and "
              "without a year, with and without -a/-b, in gz/lz4/xz/tar (built by the harness) and bz2 (Python corpus): its messages must equal the plain file's and "
              "is_drop_data() after stage 1 must equal the generated keepAllBlocks condition. End to end: stdout(plain) == stdout(container) for text logs, wtmp, evtx and a journal.")
ASSUME = ["the decoders (flate2, bzip2-rs, lz4_flex, lzma-rs, tar) deliver the right bytes in some chunking, or fail; bzip2-rs rejects some valid streams (known finding F23)",
          "single-stream / single-member containers; gzip ISIZE is the true size (< 4 GiB)",
          "file-type classification of a member is covered by C15/C16, not here; WHICH member's bytes a listed entry reads is TarMemberSpec"]

JOURNAL_GZ = os.path.join(core.REPO, 'logs/programs/journal/Ubuntu22-user-1000x3.journal.gz')
EVTX = os.path.join(core.REPO, 'logs/programs/evtx/Microsoft-Windows-Kernel-PnP%4Configuration.evtx')
KINDS = ('gz', 'bz2', 'xz', 'lz4', 'tar')


def make_corpus(ctx):
    """bz2 (no encoder crate offline) and Python-made tar archives for the `asm` component"""
    d = os.path.join(ctx.work, 'corpus')
    os.makedirs(d, exist_ok=True)
    rng = e2e.Rng(ctx.seed * 7 + 5)
    idx = []
    sizes = [0, 1, 2, 63, 64, 65, 128, 1000, 4096] + ([70000] if not ctx.thorough else [70000, 200000, 950000])
    k = 0
    for n in sizes:
        for style in (0, 1):
            if style == 0:
                # compressible pseudo-random text (bzip2-rs rejects incompressible multi-block streams: F23)
                data = bytes(97 + (rng.below(26) if rng.below(4) else 0) for _ in range(n)) if n < 5000 else \
                    (b''.join(b'%d %s\n' % (i, b'abcdefgh'[: 1 + i % 8] * (1 + i % 5)) for i in range(n // 8 + 2)))[:n]
            else:
                out = []
                i = 0
                sz = 0
                while sz < n:
                    line = b'2024-01-01 00:%02d:%02d host p[%d]: msg %d %s\n' % ((i // 60) % 60, i % 60, rng.below(9999), i, b'x' * rng.below(40))
                    out.append(line)
                    sz += len(line)
                    i += 1
                data = b''.join(out)[:n]
            raw = os.path.join(d, 'r%d.raw' % k)
            open(raw, 'wb').write(data)
            for lvl in (1, 9):
                p = os.path.join(d, 'c%d_%d.bz2' % (k, lvl))
                open(p, 'wb').write(bz2.compress(data, lvl))
                idx.append(('bz2', p, raw))
            for fmt, nm in ((tarfile.USTAR_FORMAT, 'u'), (tarfile.GNU_FORMAT, 'g'), (tarfile.PAX_FORMAT, 'p')):
                if n > 70000 and nm != 'p':
                    continue
                p = os.path.join(d, 'c%d_%s.tar' % (k, nm))
                with tarfile.open(p, 'w', format=fmt) as t:
                    for j in range(k % 3):
                        b = b'z' * (j * 700 + 5)
                        ti = tarfile.TarInfo('pre%d.txt' % j)
                        ti.size = len(b)
                        t.addfile(ti, io.BytesIO(b))
                    ti = tarfile.TarInfo('sub/m.log')
                    ti.size = len(data)
                    t.addfile(ti, io.BytesIO(data))
                    ti = tarfile.TarInfo('post.txt')
                    ti.size = 33
                    t.addfile(ti, io.BytesIO(b'q' * 33))
                idx.append(('tar', p, raw, 'sub/m.log'))
            k += 1
    open(os.path.join(d, 'index.tsv'), 'w').write('\n'.join('\t'.join(x) for x in idx) + '\n')
    # multi-block text logs as bz2 for the `strm` component: with a year (linear search on a stream) and
    # without (disable_drop_data + backwards year pass). Instants in 2023 before the files' mtime.
    import time as _t
    sidx = []
    mt = 1700000000
    for j in range(ctx.q(4, 12)):
        yearless = j % 2 == 1
        t = 1672531200 + rng.below(86400 * 20)
        out = []
        for i in range(rng.range(60, 400)):
            t += rng.pick([0, 1, 1, 2, 30, 600, 7200])
            g = _t.gmtime(t)
            head = _t.strftime('%b %e %H:%M:%S', g) if yearless else _t.strftime('%Y-%m-%d %H:%M:%S', g)
            out.append(('%s host prog[%d]: message %d %s\n' % (head, 100 + i % 7, i, 'x' * rng.below(40))).encode())
            if rng.below(6) == 0:
                out.append(b'   continued ' + b'y' * rng.below(30) + b'\n')
        data = b''.join(out)
        raw = os.path.join(d, 's%d.raw' % j)
        open(raw, 'wb').write(data)
        p = os.path.join(d, 's%d.log.bz2' % j)
        open(p, 'wb').write(bz2.compress(data, 1 + j % 9))
        os.utime(p, (mt, mt))
        sidx.append(('bz2', p, raw, 'n' if yearless else 'y'))
    open(os.path.join(d, 'index_strm.tsv'), 'w').write('\n'.join('\t'.join(x) for x in sidx) + '\n')
    return d


def corr_asm(ctx):
    os.environ['S4H_TMP'] = os.path.join(ctx.work, 'tmp')
    d = make_corpus(ctx)
    return [core.correspond(ctx, 'asm', ctx.q(2000, 40000), extra=['corpus', d]),
            core.correspond(ctx, 'strm', ctx.q(1200, 12000), extra=['corpus', d]),
            core.correspond(ctx, 'tarm', ctx.q(1500, 15000))]


def run(path, extra=()):
    rc, out, err, _ = e2e.s4(e2e.BASE_ARGS + list(extra) + [path], timeout=180)
    return rc, out, err


def compare_packed(ctx, label, data, inner, variants, fails, kinds=KINDS, sig_fn=None):
    """stdout/rc of every container of `data` vs the plain file, for each argument variant"""
    base = os.path.join(ctx.work, 'pk_' + label)
    os.makedirs(base, exist_ok=True)
    plain = os.path.join(base, inner)
    e2e.pack(data, 'plain', plain)
    ev = 0
    ref = {}
    for vi, v in enumerate(variants):
        ref[vi] = run(plain, v)[:2]
        ev += 1
    nonempty = sum(1 for r in ref.values() if r[1])
    for kind in kinds:
        path = plain + e2e.SUFFIX[kind]
        e2e.pack(data, kind, path, inner_name=inner)
        for vi, v in enumerate(variants):
            rc, out, err = run(path, v)
            ev += 1
            if (rc, out) != ref[vi]:
                fails.append({'signature': (sig_fn(kind) if sig_fn else None) or f'container:{kind}-differs-from-plain',
                              'detail': f'{label} {kind} args {v}: rc={rc} vs {ref[vi][0]}; ' + first_diff(out, ref[vi][1]) + f' stderr={err[-200:]!r}',
                              'args': e2e.BASE_ARGS + list(v) + [os.path.basename(path)]})
        os.unlink(path)
    os.unlink(plain)
    return ev, nonempty


def oracle_binary_kinds(ctx):
    """wtmp (synthesised), the shipped evtx sample and a journal: plain vs each container, with and without a window"""
    fails, samples, ev = [], [], 0
    rng = e2e.Rng(ctx.seed * 97 + 3)
    for k in range(ctx.q(3, 12)):
        n = rng.range(1, 40)
        base_t = 1700000000
        data = b''.join(C08.rec(i, base_t + i * 3 + rng.below(3), rng.below(1000000)) for i in range(n))
        variants = [[], ['-a', '+%d' % (base_t + n), '-b', '+%d' % (base_t + 2 * n)], ['--blocksz', '512']]
        e, ne = compare_packed(ctx, 'wtmp%d' % k, data, 'c05_%d.wtmp' % k, variants, fails,
                               sig_fn=lambda kind: 'container:streamed-fixedstruct-truncated' if kind in ('gz', 'bz2', 'lz4') else None)
        ev += e
        if ne == 0:
            fails.append({'signature': 'oracle:wtmp-plain-printed-nothing', 'detail': 'synthesised wtmp printed nothing'})
    # more than one block at the default block size (200 records = 76 800 bytes)
    data = b''.join(C08.rec(i, 1700000000 + i * 3, 5) for i in range(200))
    e, ne = compare_packed(ctx, 'wtmp200', data, 'c05_200.wtmp', [[]], fails,
                           sig_fn=lambda kind: 'container:streamed-fixedstruct-truncated' if kind in ('gz', 'bz2', 'lz4') else None)
    ev += e
    samples.append({'oracle': 'C05 wtmp', 'records': '1-40 per file, and 200', 'kinds': list(KINDS)})
    if os.path.exists(EVTX):
        data = open(EVTX, 'rb').read()
        variants = [[], ['-a', '2000-01-01T00:00:00', '-b', '2030-01-01T00:00:00'], ['-a', '2023-03-10T00:00:00']]
        e, ne = compare_packed(ctx, 'evtx', data, 'c05.evtx', variants, fails, kinds=KINDS + ('lz4f',))
        ev += e
        samples.append({'oracle': 'C05 evtx', 'file_bytes': len(data), 'nonempty_variants': ne})
    if os.path.exists(JOURNAL_GZ):
        data = gzip.open(JOURNAL_GZ, 'rb').read()
        variants = [[], ['-a', '2023-04-02T07:06:50', '-b', '2023-04-02T07:07:30'], ['-b', '2023-04-02T07:06:50']]
        e, ne = compare_packed(ctx, 'journal', data, 'c05.journal', variants, fails, kinds=KINDS + ('lz4f',))
        ev += e
        samples.append({'oracle': 'C05 journal', 'file_bytes': len(data), 'nonempty_variants': ne})
        if ne == 0:
            fails.append({'signature': 'oracle:journal-plain-printed-nothing', 'detail': 'journal sample printed nothing'})
    return {'evaluations': ev, 'distinct_nontrivial': ev, 'failures': fails, 'samples': samples,
            'rule': 'synthesised wtmp files, the shipped .evtx sample and a shipped journal, each packed as gz/bz2/xz/lz4/tar (evtx and journal also as an lz4 frame whose writer flushed every 40 000 bytes: short non-final blocks): stdout and exit '
                    'status must equal the plain file\'s, without a window, with -a/-b, at another block size; distinct = runs'}


def big_log(nbytes):
    out = []
    sz = 0
    i = 0
    while sz < nbytes:
        line = b'2024-01-%02d %02d:%02d:%02d m%07d some text for the line\n' % (1 + (i // 86400) % 28, (i // 3600) % 24, (i // 60) % 60, i % 60, i)
        out.append(line)
        sz += len(line)
        i += 1
    return b''.join(out)


def oracle_known_decoder_findings(ctx):
    """detectors for the repaired lz4 single read (was F22, fixed in 0949c9b4: the signature is no longer a
    known finding, so a regression is reported as a VIOLATION) and F23 (bzip2-rs rejects a valid stream)"""
    fails, ev = [], 0
    base = os.path.join(ctx.work, 'dec')
    os.makedirs(base, exist_ok=True)
    # (was F22) an lz4 frame with more than one block, read at a block size that does not divide the frame's block size
    data = big_log(4 * 1024 * 1024 + 300000)
    plain = os.path.join(base, 'big.log')
    open(plain, 'wb').write(data)
    lz = plain + '.lz4'
    e2e.pack(data, 'lz4', lz)
    for bs in (1000, 65536):
        r0 = run(plain, ['--blocksz', str(bs)])
        r1 = run(lz, ['--blocksz', str(bs)])
        ev += 2
        if r0[:2] != r1[:2]:
            fails.append({'signature': 'lz4:short-read-at-frame-block-boundary',
                          'detail': f'--blocksz {bs}: ' + first_diff(r1[1], r0[1]), 'args': e2e.BASE_ARGS + ['--blocksz', str(bs), 'big.log.lz4']})
    os.unlink(lz)
    os.unlink(plain)
    # F23: incompressible data spanning more than one bzip2 block
    rng = e2e.Rng(ctx.seed + 77)
    rnd = bytes(rng.below(256) for _ in range(150000))
    p = os.path.join(base, 'rnd.log')
    open(p, 'wb').write(rnd)
    open(p + '.bz2', 'wb').write(bz2.compress(rnd, 1))
    r0 = run(p)
    r1 = run(p + '.bz2')
    ev += 2
    if (r0[0], r0[1]) != (r1[0], r1[1]):
        fails.append({'signature': 'bz2:decoder-rejects-valid-stream', 'detail': f'rc {r1[0]} vs {r0[0]}; stderr {r1[2][-160:]!r}',
                      'args': e2e.BASE_ARGS + ['rnd.log.bz2']})
    return {'evaluations': ev, 'distinct_nontrivial': ev, 'failures': fails, 'samples': [],
            'rule': 'a 4.3 MB text log as a two-block lz4 frame at --blocksz 1000 and 65536, and 150 KB of random bytes as a two-block bz2: same stdout/rc as the plain file'}


def oracle_multiblock(ctx):
    """Text logs spanning many blocks (small --blocksz), with a datetime window and/or without a year in the
    timestamps (the two paths where the readers treat streamed containers differently: linear instead of
    binary search, and keeping every block for the backwards year pass). Output must equal the plain file's."""
    import time as _t
    rng = e2e.Rng(ctx.seed * 59 + 3)
    fails, ev, nonempty = [], 0, 0
    mt = 1719800000   # 2024-07-01: one modification time for every container, so that the year guess agrees
    for k in range(ctx.q(3, 14)):
        yearless = k % 3 == 1
        n = rng.range(300, 1500)
        t = 1704067200 + rng.below(86400 * 30)
        lines, ts = [], []
        for i in range(n):
            t += rng.pick([0, 1, 1, 2, 30, 600])
            ts.append(t)
            g = _t.gmtime(t)
            head = (_t.strftime('%b %e %H:%M:%S', g) + ' host prog[%d]:' % (100 + i % 7)) if yearless else _t.strftime('%Y-%m-%d %H:%M:%S', g)
            lines.append(head.encode() + b' m ' + e2e.text_line(rng, 5, 50, weird=False) + b'\n')
            if rng.chance(1, 6):
                lines.append(b'   continued ' + e2e.text_line(rng, 0, 40, weird=False) + b'\n')
        data = b''.join(lines)
        bs = rng.pick([512, 1024, 2048, 4096])
        lo, hi = sorted([rng.pick(ts), rng.pick(ts)])
        mid = ts[len(ts) // 2 + rng.below(len(ts) // 3)]
        if yearless:
            variants = [['--blocksz', str(bs)], ['--blocksz', str(bs), '-u']]
        else:
            variants = [['--blocksz', str(bs), '-a', '+%d' % lo, '-b', '+%d' % hi], ['--blocksz', str(bs), '-a', '+%d' % mid],
                        ['--blocksz', str(bs), '-b', '+%d' % mid], ['-a', '+%d' % mid]]
        base = os.path.join(ctx.work, 'mb_%d' % k)
        os.makedirs(base, exist_ok=True)
        plain = os.path.join(base, 'messages.log')
        e2e.pack(data, 'plain', plain)
        os.utime(plain, (mt, mt))
        ref = {}
        for vi, v in enumerate(variants):
            ref[vi] = run(plain, v)[:2]
            ev += 1
            nonempty += 1 if ref[vi][1] else 0
        for kind in KINDS:
            path = plain + e2e.SUFFIX[kind]
            e2e.pack(data, kind, path, inner_name='messages.log', mtime=mt)
            os.utime(path, (mt, mt))
            for vi, v in enumerate(variants):
                rc, out, err = run(path, v)
                ev += 1
                if (rc, out) != ref[vi]:
                    fails.append({'signature': f'container:{kind}-differs-from-plain',
                                  'detail': f'multi-block {"year-less " if yearless else ""}log ({len(data)} B) {kind} args {v}: rc={rc} vs {ref[vi][0]}; ' + first_diff(out, ref[vi][1]) + f' stderr={err[-200:]!r}',
                                  'args': e2e.BASE_ARGS + list(v) + [os.path.basename(path)]})
            os.unlink(path)
        os.unlink(plain)
    return {'evaluations': ev, 'distinct_nontrivial': nonempty, 'failures': fails, 'samples': [],
            'rule': 'text logs of 300-1500 messages read at --blocksz 512..4096 (tens to hundreds of blocks), every third without a year in its timestamps; '
                    'windows -a/-b/-a -b inside the log; gz/bz2/xz/lz4/tar vs plain: same stdout and exit status; distinct = reference runs with non-empty output'}


def oracle_multimember_tar(ctx):
    """A .tar with several members, some of whose paths are suffixes of one another (`old/app.log` before `app.log`, as when a
    log directory is archived together with its `old/` subdirectory): the archive must print what the extracted members, named
    in archive order, print."""
    import io
    import tarfile
    rng = e2e.Rng(ctx.seed * 73 + 19)
    fails, ev = [], 0
    for k in range(ctx.q(6, 40)):
        base = os.path.join(ctx.work, 'mt_%d' % k)
        os.makedirs(base, exist_ok=True)
        stem = rng.pick(['app.log', 'messages', 'syslog', 'x.log'])
        names = rng.pick([['old/' + stem, stem], [stem, 'old/' + stem], ['a/b/' + stem, 'b/' + stem, stem], ['archive/' + stem, 'other.log', stem],
                          ['one.log', 'two.log'], [stem]])
        members = []
        for i, nm in enumerate(names):
            log = e2e.gen_log(rng, rng.range(2, 12), start=1672531200 + i, steps=(0, 1, 2, 5), maxlen=30, weird=False, tag=b'M%d ' % i)
            members.append((nm, log.data))
        tpath = os.path.join(base, 'bundle.tar')
        with tarfile.open(tpath, 'w', format=rng.pick([tarfile.USTAR_FORMAT, tarfile.GNU_FORMAT])) as tf:
            for nm, data in members:
                ti = tarfile.TarInfo(nm)
                ti.size = len(data)
                ti.mtime = 1700000000
                tf.addfile(ti, io.BytesIO(data))
        plain = []
        for i, (nm, data) in enumerate(members):
            pp = os.path.join(base, 'x%d' % i, nm)
            os.makedirs(os.path.dirname(pp), exist_ok=True)
            open(pp, 'wb').write(data)
            plain.append(pp)
        for extra in ([], ['--blocksz', '256']):
            r0 = e2e.s4(e2e.BASE_ARGS + list(extra) + plain, timeout=180)[:2]
            r1 = run(tpath, extra)[:2]
            ev += 2
            if r0 != r1:
                fails.append({'signature': 'container:tar-differs-from-plain',
                              'detail': f'members {names} args {extra}: rc {r1[0]} vs {r0[0]}; ' + first_diff(r1[1], r0[1]),
                              'args': e2e.BASE_ARGS + list(extra) + ['bundle.tar'], 'members': names})
        shutil.rmtree(base, ignore_errors=True)
    return {'evaluations': ev, 'distinct_nontrivial': ev, 'failures': fails, 'samples': [],
            'rule': 'tar archives of 1-3 members incl. member paths that are suffixes of one another, at the default and a small block size: '
                    'stdout and exit status == the extracted members named in archive order'}


def oracle_duplicate_member_names(ctx):
    """F33: a tar archive may hold several members under the SAME path (`tar -r` / `tar -u` append a newer copy). s4 lists
    every member but identifies it only by `archive|path`, and each reader looks the path up again and stops at the first
    match: both listed entries print the FIRST copy, the later copies' bytes are never printed. Oracle = the property itself:
    the archive must print what its members print as plain files named in archive order. Signature only for this exact shape
    (a repeated member path and the output = first copy repeated)."""
    import io
    import tarfile
    fails, ev = [], 0
    base = os.path.join(ctx.work, 'dupmember')
    os.makedirs(base, exist_ok=True)
    a = b''.join(b'2024-01-01 00:00:%02d first copy line %d\n' % (i, i) for i in range(5))
    b = b''.join(b'2024-01-02 00:00:%02d SECOND copy line %d\n' % (i, i) for i in range(5))
    for fmt, fname in ((tarfile.USTAR_FORMAT, 'ustar'), (tarfile.GNU_FORMAT, 'gnu')):
        tpath = os.path.join(base, 'dup_%s.tar' % fname)
        with tarfile.open(tpath, 'w', format=fmt) as tf:
            for data in (a, b):
                ti = tarfile.TarInfo('app.log')
                ti.size = len(data)
                ti.mtime = 1700000000
                tf.addfile(ti, io.BytesIO(data))
        plain = []
        for i, data in enumerate((a, b)):
            pp = os.path.join(base, 'p%d' % i, 'app.log')
            os.makedirs(os.path.dirname(pp), exist_ok=True)
            open(pp, 'wb').write(data)
            plain.append(pp)
        r0 = e2e.s4(e2e.BASE_ARGS + plain, timeout=120)[:2]
        r1 = run(tpath)[:2]
        ev += 2
        if r0 != r1:
            first_twice = r1[0] == 0 and sorted(r1[1].splitlines()) == sorted(a.splitlines() * 2)
            fails.append({'signature': 'tar:duplicate-member-path-reads-first-copy' if first_twice else 'container:tar-differs-from-plain',
                          'detail': f'{fname} archive with two members named app.log: rc {r1[0]} vs {r0[0]}; ' + first_diff(r1[1], r0[1]),
                          'args': e2e.BASE_ARGS + ['dup_%s.tar' % fname], 'members': ['app.log', 'app.log']})
    # F34: a member whose path contains the sub-path separator '|' is listed but cannot be read: the readers split `archive|a|b.log` at the LAST '|'
    # and try to open `archive|a`. F35: a non-regular entry (a symlink replaced by a file, `tar -r`) under the same path in front of the regular
    # member: the lookups have no entry-type filter, find the empty symlink entry first, and the member prints nothing.
    body = b''.join(b'2024-01-03 00:00:%02d member line %d\n' % (i, i) for i in range(4))
    pp = os.path.join(base, 'pm', 'm.log')
    os.makedirs(os.path.dirname(pp), exist_ok=True)
    open(pp, 'wb').write(body)
    r0 = e2e.s4(e2e.BASE_ARGS + [pp], timeout=120)[:2]
    tsep = os.path.join(base, 'sep.tar')
    with tarfile.open(tsep, 'w', format=tarfile.USTAR_FORMAT) as tf:
        ti = tarfile.TarInfo('a|b.log')
        ti.size = len(body)
        ti.mtime = 1700000000
        tf.addfile(ti, io.BytesIO(body))
    r1 = run(tsep)[:2]
    ev += 2
    if r0 != r1:
        fails.append({'signature': 'tar:member-path-contains-separator' if not r1[1] else 'container:tar-differs-from-plain',
                      'detail': f"member 'a|b.log': rc {r1[0]} vs {r0[0]}; " + first_diff(r1[1], r0[1]), 'args': e2e.BASE_ARGS + ['sep.tar'], 'members': ['a|b.log']})
    tsym = os.path.join(base, 'sym.tar')
    with tarfile.open(tsym, 'w', format=tarfile.USTAR_FORMAT) as tf:
        ti = tarfile.TarInfo('m.log')
        ti.type = tarfile.SYMTYPE
        ti.linkname = 'elsewhere.log'
        ti.mtime = 1700000000
        tf.addfile(ti)
        ti = tarfile.TarInfo('m.log')
        ti.size = len(body)
        ti.mtime = 1700000000
        tf.addfile(ti, io.BytesIO(body))
    r2 = run(tsym)[:2]
    ev += 1
    if r0 != r2:
        fails.append({'signature': 'tar:same-named-non-regular-entry-shadows-member' if not r2[1] else 'container:tar-differs-from-plain',
                      'detail': f"symlink entry 'm.log' before the regular member 'm.log': rc {r2[0]} vs {r0[0]}; " + first_diff(r2[1], r0[1]),
                      'args': e2e.BASE_ARGS + ['sym.tar'], 'members': ['m.log (symlink)', 'm.log']})
    shutil.rmtree(base, ignore_errors=True)
    return {'evaluations': ev, 'distinct_nontrivial': ev, 'failures': fails, 'samples': [],
            'rule': 'witnesses of known findings F33 (two members under one path, ustar and gnu), F34 (member path containing the separator) and F35 (same-named symlink entry in front) replayed on the binary: stdout == the members as plain files'}


def oracle_large_gz(ctx):
    """A .gz text log that inflates to MORE than 512 MiB (GZ_MAX_SZ) while being small on disk: the size limit of BlockReader::new is about the
    file on disk; the streamed reader handles any uncompressed size (seeded change C05-e moved the limit to the uncompressed size). Only the
    last few messages are asked for (-a), so little is printed; the reader still has to walk the whole stream."""
    import zlib
    fails, ev = [], 0
    base = os.path.join(ctx.work, 'biggz')
    os.makedirs(base, exist_ok=True)
    path = os.path.join(base, 'big.log.gz')
    pad = b'x' * 1990
    n = 270_000                                   # 270 000 lines of 2 031 bytes = 548 MB
    t0 = 1700000000
    co = zlib.compressobj(1, zlib.DEFLATED, 31)
    last = []
    with open(path, 'wb') as f:
        chunk = []
        for i in range(n):
            t = t0 + i
            line = time.strftime('%Y-%m-%d %H:%M:%S', time.gmtime(t)).encode() + b' m%08d ' % i + pad + b'\n'
            chunk.append(line)
            if i >= n - 4:
                last.append(line)
            if len(chunk) == 2000:
                f.write(co.compress(b''.join(chunk)))
                chunk = []
        f.write(co.compress(b''.join(chunk)))
        f.write(co.flush())
    rc, out, err = run(path, ['-a', '+%d' % (t0 + n - 4)])
    ev += 1
    if (rc, out) != (0, b''.join(last)):
        fails.append({'signature': 'container:gz-differs-from-plain', 'detail': f'a {os.path.getsize(path)}-byte .gz inflating to {n * (len(pad) + 41)} bytes with -a at its 4th last message: rc={rc}, '
                                                                                 f'{out.count(10)} lines printed, 4 expected; stderr {err[-200:]!r}',
                      'args': e2e.BASE_ARGS + ['-a', '+%d' % (t0 + n - 4), 'big.log.gz']})
    shutil.rmtree(base, ignore_errors=True)
    return {'evaluations': ev, 'distinct_nontrivial': ev, 'failures': fails, 'samples': [],
            'rule': 'a text log of 548 MB (more than GZ_MAX_SZ = 512 MiB) stored as a small .gz, -a at its 4th last message: exactly the last 4 messages are printed'}


def oracle_tar_member_names(ctx):
    """One member per archive, its PATH varied: short, nested, longer than the 100-byte ustar name field (ustar prefix split,
    GNU @LongLink, pax path=), non-ASCII (pax). Text and accounting members are read through BlockReader's tar path, journal and
    evtx members are extracted by decompress_to_ntf: both must find the member under the name the archive listing gives."""
    import io
    import tarfile
    rng = e2e.Rng(ctx.seed * 89 + 23)
    fails, ev, samples = [], 0, []
    payloads = [('text.log', e2e.gen_log(rng, 12, start=1672531200, steps=(1, 2, 5), weird=False).data),
                ('c05n.wtmp', b''.join(C08.rec(i, 1700000000 + i * 3, 5) for i in range(6)))]
    if os.path.exists(EVTX):
        payloads.append(('c05n.evtx', open(EVTX, 'rb').read()))
    if os.path.exists(JOURNAL_GZ):
        payloads.append(('c05n.journal', gzip.open(JOURNAL_GZ, 'rb').read()))
    long_dir = '/'.join(['directory-%02d-with-a-long-name' % i for i in range(4)])          # 119 bytes
    forms = [('short', lambda b: b, (tarfile.USTAR_FORMAT, tarfile.GNU_FORMAT, tarfile.PAX_FORMAT)),
             ('nested', lambda b: 'var/log/host/' + b, (tarfile.USTAR_FORMAT, tarfile.GNU_FORMAT, tarfile.PAX_FORMAT)),
             ('long', lambda b: long_dir + '/' + b, (tarfile.USTAR_FORMAT, tarfile.GNU_FORMAT, tarfile.PAX_FORMAT)),
             ('nonascii', lambda b: 'журнал/' + b, (tarfile.GNU_FORMAT, tarfile.PAX_FORMAT))]
    if not ctx.thorough:
        payloads = [payloads[0]] + payloads[2:]
    for base_name, data in payloads:
        base = os.path.join(ctx.work, 'tn_' + base_name)
        os.makedirs(base, exist_ok=True)
        plain = os.path.join(base, base_name)
        open(plain, 'wb').write(data)
        ref = run(plain)[:2]
        ev += 1
        if not ref[1]:
            fails.append({'signature': 'oracle:plain-printed-nothing', 'detail': base_name})
            continue
        for fname, mk, fmts in forms:
            for fmt in fmts:
                tpath = os.path.join(base, 'n_%s_%d.tar' % (fname, fmt))
                try:
                    with tarfile.open(tpath, 'w', format=fmt) as tf:
                        ti = tarfile.TarInfo(mk(base_name))
                        ti.size = len(data)
                        ti.mtime = int(os.path.getmtime(plain))
                        tf.addfile(ti, io.BytesIO(data))
                except ValueError:
                    continue        # this format cannot store this name
                r = run(tpath)
                ev += 1
                if r[:2] != ref:
                    fails.append({'signature': 'container:tar-member-name-not-found' if not r[1] else 'container:tar-differs-from-plain',
                                  'detail': f'{base_name} as member {mk(base_name)!r} ({len(mk(base_name).encode())} bytes) in a '
                                            f'{ {0: "ustar", 1: "gnu", 2: "pax"}[fmt]} archive: rc={r[0]} vs {ref[0]}; ' + first_diff(r[1], ref[1]) + f' stderr={r[2][-200:]!r}',
                                  'member': mk(base_name), 'format': fmt})
                os.unlink(tpath)
        samples.append({'oracle': 'C05 tar member names', 'payload': base_name, 'bytes': len(data)})
        shutil.rmtree(base, ignore_errors=True)
    return {'evaluations': ev, 'distinct_nontrivial': ev, 'failures': fails, 'samples': samples[:2],
            'rule': 'a text log, a wtmp file, the evtx sample and a journal as the single member of ustar/gnu/pax archives under short, nested, '
                    '> 100-byte and non-ASCII member paths: stdout and exit status == the plain file'}


def oracle(ctx):
    f = oracle_tar_member_names(ctx)
    a = text_oracles.oracle_containers(ctx, ctx.q(6, 40))
    b = oracle_binary_kinds(ctx)
    c = oracle_known_decoder_findings(ctx)
    d = oracle_multiblock(ctx)
    e = oracle_multimember_tar(ctx)
    g = oracle_duplicate_member_names(ctx)
    h = oracle_large_gz(ctx)
    return core.merge_oracles([a, b, c, d, e, f, g, h])


def check(ctx):
    return core.standard_check(ctx, ['Blocks', 'Stream', 'TarMember', 'Lines', 'LinesMutants'], MODS, [], oracle, LEVEL_NOTE, ASSUME, extra_corr_fn=corr_asm)


def replay(ctx, data):
    return core.generic_replay(ctx, data)
