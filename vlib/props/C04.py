"""C04 — timestamps are interpreted as the instant they denote.

gen (TimeTables, incl. the check against gen/ref/tz.json) -> prove S4V.Props.TimeSpec ->
drv -> harness `time` correspondence (calendar vs chrono NaiveDate; chrono's
`datetime_parse_from_str` vs `parseBuf` on mutated buffers; for every DTPD! row lines rendered
from the row's own regex parts through the real `bytes_to_regex_to_datetime` vs the model fed
the field values) -> end-to-end oracle: one-notation probe logs through the binary with
`-u -d '%Y%m%dT%H%M%S%.9f'`.
"""
import calendar
import os

import glob
import os
from vlib import core, e2e

# the generated per-row capture files (tools/mk_regexcap3.py): RegexCapture3 (index), RegexCapture3a… (parts), RegexCapture3Spec
_RC3 = sorted(os.path.splitext(os.path.basename(p))[0] for p in glob.glob(os.path.join(os.path.dirname(os.path.abspath(__file__)), '..', '..', 'lean', 'S4V', 'Props', 'RegexCapture3*.lean')) + glob.glob(os.path.join(os.path.dirname(os.path.abspath(__file__)), '..', '..', 'lean', 'S4V', 'Props', 'RegexE2E*.lean')))
MODS_BASE = ['S4V.Props.TimeSpec', 'S4V.Props.RegexSpec', 'S4V.Props.RegexCapture', 'S4V.Props.RegexCapture2', 'S4V.Props.RegexCapture2Auto', 'S4V.Props.PatSelSpec', 'S4V.Props.CapturesSpec', 'S4V.Props.CapturesMutants']
MODS = MODS_BASE + ['S4V.Props.' + m for m in _RC3]
LEVEL_NOTE = ("Proved (S4V.Props.TimeSpec over the hand model of captures_to_buffer_bytes + datetime_parse_from_str and the tables regenerated from "
              "datetime.rs): every DTPD! row has range start 0; every DTFSS set's strftime pattern is the item sequence its enum fields stand for; every "
              "zone value is +-HH:MM within 14 h, scans to that offset, case variants agree; every accepted month name maps to its month; "
              "C04_normalise_parse: for all date-time sets, canonical buffer pieces parse to instantNs of the denoted fields with zone-less/_fill sets read "
              "in the fallback zone, plus notation lemmas (day 8/ 8/08, unpadded month/hour, month names, fill year, fraction padding = as written, "
              "10-12 digits truncated, named/ambiguous zones). False statements proved false: epoch timestamps are shifted by --tz-offset "
              "(C04_epoch_full_false). Repaired and now proved: every written form of every month abbreviation, `May.` included, has an arm "
              "(C04_month_abbrev_complete, C04_may_dot; counter-model of the old 102-name table: C04_may_dot_before_repair). Calendar: civil_roundtrip both ways for all Int, strict monotonicity "
              "(S4V.Lemmas.Time). The 173 regexes themselves are inside the model (Gen.Regex: every DTPD! row's pattern re-parsed from datetime.rs into an AST on every run; "
              "Model.Regex: language semantics `Matches` over strict UTF-8 and an executable leftmost-first matcher `search` with capture groups, proved sound (C04_search_sound)). "
              "Proved over the whole regenerated table: every match of every row contains a digit; a has_year4 row only matches text containing '1' or '2'; a has_d2 row only matches text "
              "with two consecutive digits; hence the cheap pre-checks never skip a line the pattern would match (C04_ezcheck_sound) and find_datetime_in_line with the three persisting "
              "EZCHECK cursors returns what the loop without them returns (C04_ezcheck_transparent; without `range start = 0` it is false: C04_ezcheck_transparent_full_false, latent). "
              "For the RFC 3339 row the captures are proved end to end: for every field value, `search` on the rendered text captures exactly the fields, which C04_normalise_parse turns "
              "into the denoted instant (C04_rfc3339_search, C04_rfc3339_end_to_end), and thirteen more rows by a symbolic re-run of the matcher proved sound once and "
              "one decide per row (RegexCapture2/2Auto: ISO 8601 date-time with space or T and optional separators, zone-less end to end - C04_iso_end_to_end - and with +-HH:MM, +-HHMM, +-HH and all 392 "
              "zone names; RFC 5424-style <PRI> rows; RFC 3164 with and without year, all 105 month-name forms; RFC 2822; epoch seconds; two ad-hoc named-month notations): match at 0, exact span, every "
              "group on its field, for every field value and every admissible tail (the tail condition is proved necessary). Which row a file is read with (PatSelSpec; constants regenerated): try order = count descending then "
              "index; first line gets the lowest matching row; after analysis exactly the most-used row (lowest index on ties) remains and every line is dated by it alone; for a one-notation "
              "file the dates are the same before and after analysis; the parse LRU is transparent and cleared at both year changes. NOT theorems: completeness/priority of `search` w.r.t. "
              "the regex crate for rows other than 71, chrono = parseBuf: these are the correspondences `rgx` (every row: match, span, every group span), `time`, `patsel` and the end-to-end probes.")
ASSUME = ["chrono 0.4.40 strptime behaves as modelled in parseBuf (differential: `time parse`)",
          "the regex crate implements the modelled semantics (leftmost-first, Unicode classes, strict UTF-8): differential `rgx` on every row (match yes/no, overall span, span of every named group) "
          "over the repo's own test lines, AST samples in junk context, one-byte mutations, ill-formed UTF-8 and random bytes; plus `time norm` (all 173 rows)",
          "slice_contains_12_D2, ezcheck_slice and find_datetime_in_line are pub(crate): tied by the translated has_year4/has_d2 tables, the three public byte tests (`rgx c`) and the proofs",
          "gen/ref/tz.json is the stated oracle for what a zone abbreviation denotes"]

FMT = '%Y%m%dT%H%M%S%.9f'


def ns(y, mo, d, hh, mi, ss, nano, off):
    return (calendar.timegm((y, mo, d, hh, mi, ss)) - off) * 10 ** 9 + nano


def fmt_ns(t):
    s, n = divmod(t, 10 ** 9)
    import time
    return time.strftime('%Y%m%dT%H%M%S', time.gmtime(s)) + '.%09d' % n


# (name, line template with {i} second digit, expected ns of line i (i = 0, 1), tz arg, known-finding signature or None)
def probes():
    P = []

    def add(name, mk, exp, tz='+00:00', sig=None):
        P.append((name, mk, exp, tz, sig))
    add('rfc3339-Z', lambda i: f'2024-02-29T23:59:5{i}Z host app: m', lambda i: ns(2024, 2, 29, 23, 59, 50 + i, 0, 0))
    add('rfc3339-frac-offset', lambda i: f'2024-02-29T23:59:5{i}.123456789+05:30 host app: m', lambda i: ns(2024, 2, 29, 23, 59, 50 + i, 123456789, 19800))
    add('rfc3339-frac1', lambda i: f'2000-01-01T00:00:0{i}.5-08:00 host app: m', lambda i: ns(2000, 1, 1, 0, 0, i, 500000000, -28800))
    add('rfc5424', lambda i: f'<34>1 2099-12-30T12:00:0{i}.003Z mymachine su - ID47 - m', lambda i: ns(2099, 12, 30, 12, 0, i, 3000000, 0))
    add('rfc3164-year', lambda i: f'Feb 29 01:02:0{i} 2024 host app: m', lambda i: ns(2024, 2, 29, 1, 2, i, 0, 0))
    add('rfc2822', lambda i: f'Date: Thu, 29 Feb 2024 23:59:5{i} -0330 m', lambda i: ns(2024, 2, 29, 23, 59, 50 + i, 0, -12600))
    add('iso-space-zoneless-tz', lambda i: f'2024-03-01 00:00:0{i} host app: m', lambda i: ns(2024, 3, 1, 0, 0, i, 0, 19800), tz='+05:30')
    add('named-zone', lambda i: f'2024-03-01 00:00:0{i} PST host app: m', lambda i: ns(2024, 3, 1, 0, 0, i, 0, -28800), tz='+05:30')
    add('ambiguous-zone-fallback', lambda i: f'2024-03-01 00:00:0{i} IST host app: m', lambda i: ns(2024, 3, 1, 0, 0, i, 0, 3600), tz='+01:00')
    # an ambiguous abbreviation is read in the --tz-offset zone THROUGH the zone's text form handed to the parser: zones west of UTC with
    # minutes (-03:30, -09:30, -02:15) exercise the sign/minutes rendering of that text (seeded change C04-e rendered -03:30 as -04:30)
    add('ambiguous-zone-fallback-west-0330', lambda i: f'2021-03-04 05:06:0{i} IST host app: m', lambda i: ns(2021, 3, 4, 5, 6, i, 0, -12600), tz='-03:30')
    add('ambiguous-zone-fallback-west-0930', lambda i: f'2021-03-04 05:06:0{i} CST host app: m', lambda i: ns(2021, 3, 4, 5, 6, i, 0, -34200), tz='-09:30')
    add('ambiguous-zone-fallback-west-0215', lambda i: f'2021-03-04 05:06:0{i} BST host app: m', lambda i: ns(2021, 3, 4, 5, 6, i, 0, -8100), tz='-02:15')
    add('zoneless-west-0330', lambda i: f'2021-03-04 05:06:0{i} host app: m', lambda i: ns(2021, 3, 4, 5, 6, i, 0, -12600), tz='-03:30')
    add('epoch', lambda i: f'170000000{i} host app: m', lambda i: (1700000000 + i) * 10 ** 9)
    add('epoch-frac', lambda i: f'170000000{i}.250 host app: m', lambda i: (1700000000 + i) * 10 ** 9 + 250000000)
    # repaired finding F27 (b9821264): `May.` captured by a CGP_MONTHb row must give the instant it denotes like `Jun.`
    # (before the repair these two files made the file's thread panic); the signature is kept so a regression is
    # reported under the old name
    add('may-dot', lambda i: f'[31/May./2024:12:00:0{i} +0000] m', lambda i: ns(2024, 5, 31, 12, 0, i, 0, 0), sig='time:may-dot-panics-file-dropped')
    add('may-dot-tabs', lambda i: f'Started on:\tFri May.\t31 12:00:0{i}\t2024 m', lambda i: ns(2024, 5, 31, 12, 0, i, 0, 0),
        sig='time:may-dot-panics-file-dropped')
    add('jun-dot', lambda i: f'[28/Jun./2024:12:00:0{i} +0000] m', lambda i: ns(2024, 6, 28, 12, 0, i, 0, 0))
    add('jun-dot-weekday', lambda i: f'Fri Jun. 28 12:00:0{i} 2024 m', lambda i: ns(2024, 6, 28, 12, 0, i, 0, 0))
    # findings
    add('epoch-with-tz-offset', lambda i: f'170000000{i} host app: m', lambda i: (1700000000 + i) * 10 ** 9, tz='+05:00',
        sig='time:epoch-shifted-by-tz-offset')
    # (was F29, repaired by bd971ab2) the rows for this notation use CGP_MONTHBb, which lacked the dotted forms of May only
    add('may-dot-weekday', lambda i: f'Fri May. 31 12:00:0{i} 2024 m', lambda i: ns(2024, 5, 31, 12, 0, i, 0, 0),
        sig='time:may-dot-unmatched-by-MONTHBb')
    add('long-names-zone-cut', lambda i: f'Wednesday, September 30, 2024, 01:02:0{i} -08:15 m', lambda i: ns(2024, 9, 30, 1, 2, i, 0, -29700),
        sig='time:zone-beyond-range_regex-end')
    # F36 / F37 (found by the RegexE2E slice: catalogue renderings longer than range_regex.end): a LONG month name in the
    # `2023 Aug 31 20:01:05 +01:00` rows (range end 30) cuts the zone; in the zone-less row (range end 25) it cuts the seconds, so only
    # the year-less row matches and the year written in the text is replaced by the file's mtime year
    add('long-month-zone-cut', lambda i: f'2023 September 30 20:01:0{i} +05:30 [ERROR] m', lambda i: ns(2023, 9, 30, 20, 1, i, 0, 19800),
        sig='time:zone-beyond-range_regex-end-YbdHMS-rows')
    add('long-month-year-dropped', lambda i: f'2023 September 30 20:01:0{i} [ERROR] m', lambda i: ns(2023, 9, 30, 20, 1, i, 0, 0),
        sig='time:year-dropped-range_regex-end-25')
    return P


def oracle(ctx):
    fails, samples, dist = [], [], {}
    ev = 0
    open_sigs = {k.get('signature') for k in core.load_known().get('open', []) if k.get('property') == 'C04'}
    for name, mk, exp, tz, sig in probes():
        lines = [mk(i) for i in (0, 1, 2)]
        data = ('\n'.join(lines) + '\n').encode()
        path = os.path.join(ctx.work, 'c04_%s.log' % name)
        open(path, 'wb').write(data)
        args = ['--color', 'never', '-t=' + tz, '-u', '-d', FMT, path]
        rc, out, err, _ = e2e.s4(args)
        ev += 1
        want = b''.join((fmt_ns(exp(i)) + ':' + lines[i] + '\n').encode() for i in (0, 1, 2))
        ok = rc == 0 and out == want
        dist['ok' if ok else (sig or 'differs')] = dist.get('ok' if ok else (sig or 'differs'), 0) + 1
        if not ok:
            fails.append({'signature': sig or ('time:probe-differs:' + name), 'detail': f'{name}: rc={rc} got {out[:160]!r} want {want[:160]!r}',
                          'args': args[:-1] + ['FILE'], 'file_hex': data.hex()})
        elif sig in open_sigs:
            # a recorded (open) finding no longer reproduces: say so (not a failure)
            ctx.log(f'note: known finding {sig} did not reproduce')
        if len(samples) < 3:
            samples.append({'oracle': 'C04 probe', 'notation': name, 'first_out': out[:90].decode('latin1')})
        os.unlink(path)
    res = {'evaluations': ev, 'distinct_nontrivial': ev, 'failures': fails, 'samples': samples, 'outcomes': dist,
           'rule': 'one 3-line probe log per documented notation (RFC 3339 +-fraction/offset, RFC 5424, RFC 3164 with year, RFC 2822, zone-less with '
                   '--tz-offset, named and ambiguous zone, epoch +-fraction) plus `May.`/`Jun.` witnesses of the repaired F27 and the three open finding witnesses; stdout prefix must be the denoted instant'}
    ctx.steps.setdefault('oracle', []).append({k: v for k, v in res.items() if k not in ('failures', 'samples')})
    ctx.log(f'oracle C04: {ev} probes, outcomes {dist}')
    return res


MON = ['Jan', 'Feb', 'Mar', 'Apr', 'May', 'Jun', 'Jul', 'Aug', 'Sep', 'Oct', 'Nov', 'Dec']
WDAY = ['Mon', 'Tue', 'Wed', 'Thu', 'Fri', 'Sat', 'Sun']


def off_text(off, style):
    sg = '-' if off < 0 else '+'
    hh, mm = divmod(abs(off) // 60, 60)
    if style == 'colon':
        return '%s%02d:%02d' % (sg, hh, mm)
    if style == 'plain':
        return '%s%02d%02d' % (sg, hh, mm)
    return 'Z'


def oracle_sweep(ctx):
    """End-to-end sweep over the documented notations: one 3-line log per (notation, number of fractional digits 0-9, offset
    spelling), random dates 1970-2099 incl. month ends and leap days, random times of day and offsets in 15-minute steps; the
    instant printed with -u must be the instant the text denotes (computed here from the calendar), fraction kept as written."""
    rng = e2e.Rng(ctx.seed * 83 + 29)
    fails, ev, dist = [], 0, {}
    special = [(1970, 1, 2), (2000, 2, 29), (2024, 2, 29), (2099, 12, 30), (2023, 1, 31), (2038, 1, 19), (1999, 12, 31), (2100 - 1, 3, 31)]

    def rdate():
        if rng.chance(1, 3):
            return rng.pick(special)
        y = rng.range(1970, 2099)
        m = rng.range(1, 12)
        d = rng.range(1, calendar.monthrange(y, m)[1])
        if (y, m, d) == (1970, 1, 1):
            d = 2
        if (y, m, d) == (2099, 12, 31):
            d = 30
        return (y, m, d)

    # name -> (template fn(y,m,d,H,M,S,frac_text,off_text), zone styles, fraction separator)
    N = {
        'iso-T': (lambda y, m, d, H, M, S, f, o: f'{y:04d}-{m:02d}-{d:02d}T{H:02d}:{M:02d}:{S:02d}{f}{o} host app: msg', ['colon', 'plain', 'Z', None], '.'),
        'iso-space': (lambda y, m, d, H, M, S, f, o: f'{y:04d}-{m:02d}-{d:02d} {H:02d}:{M:02d}:{S:02d}{f} {o} host app: msg', ['colon', 'plain', None], '.'),
        'iso-comma': (lambda y, m, d, H, M, S, f, o: f'{y:04d}-{m:02d}-{d:02d} {H:02d}:{M:02d}:{S:02d}{f} host app: msg', [None], ','),
        'slash': (lambda y, m, d, H, M, S, f, o: f'{y:04d}/{m:02d}/{d:02d} {H:02d}:{M:02d}:{S:02d}{f} {o} host app: msg', ['colon', None], '.'),
        'rfc5424': (lambda y, m, d, H, M, S, f, o: f'<34>1 {y:04d}-{m:02d}-{d:02d}T{H:02d}:{M:02d}:{S:02d}{f}{o} mymachine su - ID47 - msg', ['colon', 'Z'], '.'),
        'bracket': (lambda y, m, d, H, M, S, f, o: f'[{y:04d}-{m:02d}-{d:02d}T{H:02d}:{M:02d}:{S:02d}{f}{o}] app msg', ['colon', 'Z'], '.'),
        'apache': (lambda y, m, d, H, M, S, f, o: f'host - - [{d:02d}/{MON[m - 1]}/{y:04d}:{H:02d}:{M:02d}:{S:02d} {o}] "GET /" msg', ['plain'], None),
        'rfc3164-year': (lambda y, m, d, H, M, S, f, o: f'{MON[m - 1]} {d:2d} {H:02d}:{M:02d}:{S:02d} {y:04d} host app: msg', [None], None),
        'rfc2822': (lambda y, m, d, H, M, S, f, o: f'Date: {WDAY[calendar.weekday(y, m, d)]}, {d:02d} {MON[m - 1]} {y:04d} {H:02d}:{M:02d}:{S:02d} {o} msg', ['plain'], None),
    }
    names = sorted(N)
    reps = ctx.q(1, 6)
    for name in names:
        mk, zstyles, sep = N[name]
        for nd in (range(0, 10) if sep else [0]):
            for rep in range(reps):
                zs = zstyles[(nd + rep) % len(zstyles)]
                tzarg_off = rng.pick([0, 19800, -28800, 3600, -12600, 45900])
                lines, want = [], []
                for i in range(3):
                    y, m, d = rdate()
                    H, M, S = rng.pick([(0, 0, 0), (12, 0, 0), (23, 59, 59), (rng.below(24), rng.below(60), rng.below(60))])
                    off = 0 if zs == 'Z' else (rng.range(-48, 56) * 900)
                    digits = ''.join(str(rng.below(10)) for _ in range(nd))
                    if digits and digits.strip('0') == '':
                        digits = digits[:-1] + '7'
                    ftxt = (sep + digits) if nd else ''
                    otxt = off_text(off, zs) if zs else ''
                    line = mk(y, m, d, H, M, S, ftxt, otxt).replace('  host', ' host')
                    eff = off if zs else tzarg_off
                    nano = int((digits + '000000000')[:9]) if nd else 0
                    lines.append(line)
                    want.append(ns(y, m, d, H, M, S, nano, eff))
                data = ('\n'.join(lines) + '\n').encode()
                path = os.path.join(ctx.work, 'sweep.log')
                open(path, 'wb').write(data)
                args = ['--color', 'never', '-t=' + off_text(tzarg_off, 'colon'), '-u', '-d', FMT, path]
                rc, out, err, _ = e2e.s4(args)
                ev += 1
                exp = b''.join((fmt_ns(want[i]) + ':' + lines[i] + '\n').encode() for i in range(3))
                ok = rc == 0 and out == exp
                key = f'{name}/frac{nd}'
                dist[name] = dist.get(name, 0) + 1
                if not ok:
                    fails.append({'signature': 'time:instant-differs-from-denotation:' + key,
                                  'detail': f'{key} zone spelling {zs}: rc={rc} got {out[:200]!r} want {exp[:200]!r}', 'args': args[:-1] + ['FILE'], 'file_hex': data.hex()})
    return {'evaluations': ev, 'distinct_nontrivial': ev, 'failures': fails, 'samples': [], 'outcomes': dist,
            'rule': 'sweep: 9 notations x 0-9 fractional digits x zone spellings (+HH:MM, +HHMM, Z, none = --tz-offset) x random dates 1970-2099 '
                    '(month ends, leap days), times of day, offsets in 15-minute steps: -u prefix == denoted instant'}


def search_from_norm_disagreements(ctx):
    """When the `time` correspondence disagrees, turn disagreeing requests into failing inputs: the request carries the
    log line; write it to a file, run the binary and compare the instant it attributes with the model's (proved to be the
    instant the captured text denotes)."""
    fails, ev = [], 0
    for res in getattr(ctx, 'corr_results', []) or []:
        for dg in (res.get('disagreements') or [])[:12]:
            w = dg.get('request', '').split(' ')
            if len(w) < 6 or w[:2] != ['time', 'norm'] or 'year=' not in dg['request']:
                continue
            try:
                line = bytes.fromhex(w[3])
                tzoff = int(w[5])
                model = int(dg['model'])
            except ValueError:
                continue
            if not line.endswith(b'\n'):
                line += b'\n'
            path = os.path.join(ctx.work, 'dis.log')
            open(path, 'wb').write(line * 3)
            args = ['--color', 'never', '-t=' + off_text(tzoff, 'colon'), '-u', '-d', FMT, path]
            rc, out, err, _ = e2e.s4(args)
            ev += 1
            want = (fmt_ns(model) + ':').encode() + line
            if not out.startswith(want):
                fails.append({'signature': 'time:instant-differs-from-denotation:row' + w[2],
                              'detail': f'row {w[2]} line {line!r}: s4 prints {out[:60]!r}, the text denotes {fmt_ns(model)} (model, proved); in-process impl={dg["impl"]}',
                              'args': args[:-1] + ['FILE'], 'file_hex': (line * 3).hex()})
                if len(fails) >= 3:
                    break
    return {'evaluations': ev, 'distinct_nontrivial': ev, 'failures': fails, 'samples': [],
            'rule': 'search seeded from correspondence disagreements (only runs when the time correspondence disagrees)'}


def oracle_all(ctx):
    return core.merge_oracles([oracle(ctx), oracle_sweep(ctx), search_from_norm_disagreements(ctx)])


def check(ctx):
    return core.standard_check(ctx, ['TimeTables', 'Regex', 'PatSel', 'Captures'], MODS, [('time', 3000, 60000), ('capx', 2000, 20000), ('e2e', 2000, 20000), ('rgx', 12000, 150000), ('rgxr', 60000, 680000), ('patsel', 500, 6000)], oracle_all, LEVEL_NOTE, ASSUME)


def replay(ctx, data):
    f = data.get('failure') or {}
    core.step_build_impl(ctx, need_s4=True)
    core.step_drv(ctx)
    if f.get('file_hex') and f.get('args'):
        p = os.path.join(ctx.work, 'replay.log')
        open(p, 'wb').write(bytes.fromhex(f['file_hex']))
        args = [p if a == 'FILE' else a for a in f['args']]
        rc, out, err, _ = e2e.s4(args)
        print('s4', ' '.join(args), '-> rc', rc)
        print(out.decode('latin1'))
    return core.generic_replay(ctx, data)
