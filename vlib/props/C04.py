"""C04 — timestamps are interpreted as the instant they denote.

gen (TimeTables, incl. the check against gen/ref/tz.json) -> prove S4V.Props.TimeSpec ->
drv -> harness `time` correspondence (calendar vs chrono NaiveDate; chrono's
`datetime_parse_from_str` vs `parseBuf` on mutated buffers; for every DTPD! row lines rendered
from the row's own regex parts through the real `bytes_to_regex_to_datetime` vs the model fed
the field values) -> end-to-end oracle: one-notation probe logs through the binary with
`-u -d '%Y%m%dT%H%M%S%.9f'`.
"""
import calendar
import os

from vlib import core, e2e

MODS = ['S4V.Props.TimeSpec']
LEVEL_NOTE = ("Proved (S4V.Props.TimeSpec over the hand model of captures_to_buffer_bytes + datetime_parse_from_str and the tables regenerated from "
              "datetime.rs): every DTPD! row has range start 0; every DTFSS set's strftime pattern is the item sequence its enum fields stand for; every "
              "zone value is +-HH:MM within 14 h, scans to that offset, case variants agree; every accepted month name maps to its month; "
              "C04_normalise_parse: for all date-time sets, canonical buffer pieces parse to instantNs of the denoted fields with zone-less/_fill sets read "
              "in the fallback zone, plus notation lemmas (day 8/ 8/08, unpadded month/hour, month names, fill year, fraction padding = as written, "
              "10-12 digits truncated, named/ambiguous zones). False statements proved false: epoch timestamps are shifted by --tz-offset "
              "(C04_epoch_full_false). Repaired and now proved: every written form of every month abbreviation, `May.` included, has an arm "
              "(C04_month_abbrev_complete, C04_may_dot; counter-model of the old 102-name table: C04_may_dot_before_repair). Calendar: civil_roundtrip both ways for all Int, strict monotonicity "
              "(S4V.Lemmas.Time). NOT theorems: what the 173 regexes capture, which pattern wins block-zero analysis, chrono = parseBuf: these are the "
              "correspondence (every row, rendered lines) and the end-to-end probes.")
ASSUME = ["chrono 0.4.40 strptime behaves as modelled in parseBuf (differential: `time parse`)",
          "the regex crate captures what the renderer wrote (differential: `time norm`, all 173 rows)",
          "gen/ref/tz.json is the stated oracle for what a zone abbreviation denotes"]

FMT = '%Y%m%dT%H%M%S%.9f'


def ns(y, mo, d, hh, mi, ss, nano, off):
    return (calendar.timegm((y, mo, d, hh, mi, ss)) - off) * 10 ** 9 + nano


def fmt_ns(t):
    s, n = divmod(t, 10 ** 9)
    import time
    return time.strftime('%Y%m%dT%H%M%S', time.gmtime(s)) + '.%09d' % n


# (name, line template with {i} second digit, expected ns of line i (i = 0, 1), tz arg, known-finding signature or None)
def probes():
    P = []

    def add(name, mk, exp, tz='+00:00', sig=None):
        P.append((name, mk, exp, tz, sig))
    add('rfc3339-Z', lambda i: f'2024-02-29T23:59:5{i}Z host app: m', lambda i: ns(2024, 2, 29, 23, 59, 50 + i, 0, 0))
    add('rfc3339-frac-offset', lambda i: f'2024-02-29T23:59:5{i}.123456789+05:30 host app: m', lambda i: ns(2024, 2, 29, 23, 59, 50 + i, 123456789, 19800))
    add('rfc3339-frac1', lambda i: f'2000-01-01T00:00:0{i}.5-08:00 host app: m', lambda i: ns(2000, 1, 1, 0, 0, i, 500000000, -28800))
    add('rfc5424', lambda i: f'<34>1 2099-12-30T12:00:0{i}.003Z mymachine su - ID47 - m', lambda i: ns(2099, 12, 30, 12, 0, i, 3000000, 0))
    add('rfc3164-year', lambda i: f'Feb 29 01:02:0{i} 2024 host app: m', lambda i: ns(2024, 2, 29, 1, 2, i, 0, 0))
    add('rfc2822', lambda i: f'Date: Thu, 29 Feb 2024 23:59:5{i} -0330 m', lambda i: ns(2024, 2, 29, 23, 59, 50 + i, 0, -12600))
    add('iso-space-zoneless-tz', lambda i: f'2024-03-01 00:00:0{i} host app: m', lambda i: ns(2024, 3, 1, 0, 0, i, 0, 19800), tz='+05:30')
    add('named-zone', lambda i: f'2024-03-01 00:00:0{i} PST host app: m', lambda i: ns(2024, 3, 1, 0, 0, i, 0, -28800), tz='+05:30')
    add('ambiguous-zone-fallback', lambda i: f'2024-03-01 00:00:0{i} IST host app: m', lambda i: ns(2024, 3, 1, 0, 0, i, 0, 3600), tz='+01:00')
    add('epoch', lambda i: f'170000000{i} host app: m', lambda i: (1700000000 + i) * 10 ** 9)
    add('epoch-frac', lambda i: f'170000000{i}.250 host app: m', lambda i: (1700000000 + i) * 10 ** 9 + 250000000)
    # repaired finding F27 (b9821264): `May.` captured by a CGP_MONTHb row must give the instant it denotes like `Jun.`
    # (before the repair these two files made the file's thread panic); the signature is kept so a regression is
    # reported under the old name
    add('may-dot', lambda i: f'[31/May./2024:12:00:0{i} +0000] m', lambda i: ns(2024, 5, 31, 12, 0, i, 0, 0), sig='time:may-dot-panics-file-dropped')
    add('may-dot-tabs', lambda i: f'Started on:\tFri May.\t31 12:00:0{i}\t2024 m', lambda i: ns(2024, 5, 31, 12, 0, i, 0, 0),
        sig='time:may-dot-panics-file-dropped')
    add('jun-dot', lambda i: f'[28/Jun./2024:12:00:0{i} +0000] m', lambda i: ns(2024, 6, 28, 12, 0, i, 0, 0))
    add('jun-dot-weekday', lambda i: f'Fri Jun. 28 12:00:0{i} 2024 m', lambda i: ns(2024, 6, 28, 12, 0, i, 0, 0))
    # findings
    add('epoch-with-tz-offset', lambda i: f'170000000{i} host app: m', lambda i: (1700000000 + i) * 10 ** 9, tz='+05:00',
        sig='time:epoch-shifted-by-tz-offset')
    # (was F29, repaired by bd971ab2) the rows for this notation use CGP_MONTHBb, which lacked the dotted forms of May only
    add('may-dot-weekday', lambda i: f'Fri May. 31 12:00:0{i} 2024 m', lambda i: ns(2024, 5, 31, 12, 0, i, 0, 0),
        sig='time:may-dot-unmatched-by-MONTHBb')
    add('long-names-zone-cut', lambda i: f'Wednesday, September 30, 2024, 01:02:0{i} -08:15 m', lambda i: ns(2024, 9, 30, 1, 2, i, 0, -29700),
        sig='time:zone-beyond-range_regex-end')
    return P


def oracle(ctx):
    fails, samples, dist = [], [], {}
    ev = 0
    open_sigs = {k.get('signature') for k in core.load_known().get('open', []) if k.get('property') == 'C04'}
    for name, mk, exp, tz, sig in probes():
        lines = [mk(i) for i in (0, 1, 2)]
        data = ('\n'.join(lines) + '\n').encode()
        path = os.path.join(ctx.work, 'c04_%s.log' % name)
        open(path, 'wb').write(data)
        args = ['--color', 'never', '-t=' + tz, '-u', '-d', FMT, path]
        rc, out, err, _ = e2e.s4(args)
        ev += 1
        want = b''.join((fmt_ns(exp(i)) + ':' + lines[i] + '\n').encode() for i in (0, 1, 2))
        ok = rc == 0 and out == want
        dist['ok' if ok else (sig or 'differs')] = dist.get('ok' if ok else (sig or 'differs'), 0) + 1
        if not ok:
            fails.append({'signature': sig or ('time:probe-differs:' + name), 'detail': f'{name}: rc={rc} got {out[:160]!r} want {want[:160]!r}',
                          'args': args[:-1] + ['FILE'], 'file_hex': data.hex()})
        elif sig in open_sigs:
            # a recorded (open) finding no longer reproduces: say so (not a failure)
            ctx.log(f'note: known finding {sig} did not reproduce')
        if len(samples) < 3:
            samples.append({'oracle': 'C04 probe', 'notation': name, 'first_out': out[:90].decode('latin1')})
        os.unlink(path)
    res = {'evaluations': ev, 'distinct_nontrivial': ev, 'failures': fails, 'samples': samples, 'outcomes': dist,
           'rule': 'one 3-line probe log per documented notation (RFC 3339 +-fraction/offset, RFC 5424, RFC 3164 with year, RFC 2822, zone-less with '
                   '--tz-offset, named and ambiguous zone, epoch +-fraction) plus `May.`/`Jun.` witnesses of the repaired F27 and the three open finding witnesses; stdout prefix must be the denoted instant'}
    ctx.steps.setdefault('oracle', []).append({k: v for k, v in res.items() if k not in ('failures', 'samples')})
    ctx.log(f'oracle C04: {ev} probes, outcomes {dist}')
    return res


def check(ctx):
    return core.standard_check(ctx, ['TimeTables'], MODS, [('time', 3000, 60000)], oracle, LEVEL_NOTE, ASSUME)


def replay(ctx, data):
    f = data.get('failure') or {}
    core.step_build_impl(ctx, need_s4=True)
    core.step_drv(ctx)
    if f.get('file_hex') and f.get('args'):
        p = os.path.join(ctx.work, 'replay.log')
        open(p, 'wb').write(bytes.fromhex(f['file_hex']))
        args = [p if a == 'FILE' else a for a in f['args']]
        rc, out, err, _ = e2e.s4(args)
        print('s4', ' '.join(args), '-> rc', rc)
        print(out.decode('latin1'))
    return core.generic_replay(ctx, data)
