"""C11 — year-less timestamps receive the right year.

gen (Consts, Filter, Year) -> prove S4V.Props.YearSpec -> drv -> build s4 + harness ->
in-process correspondence (component `year`: the REAL SyslogProcessor stages 0-2 over generated
year-less files vs the model, driver op `time yearx`) -> end-to-end oracle:
generated RFC 3164 logs (`Mon DD HH:MM:SS host prog: text`) spanning 0..4 year
boundaries x mtimes inside the last message's year x zones x windows x containers
(plain: os.utime; .gz: header MTIME with a misleading file mtime; .tar: member mtime) x
block sizes, plus two-file merges. The printed `-u` prefix of every line is compared with
(a) the generator's true dates and (b) the Lean model `processMissingYear` (driver op
`time year`). The 29-February witnesses of YearSpec are replayed on the binary and
must behave as the model says (documented limitation, Issue #245).
"""
import calendar
import os
import time

from vlib import core, e2e

MODS = ['S4V.Props.YearSpec']
LEVEL_NOTE = ("Proved (S4V.Props.YearSpec). The model of process_missing_year is a function of the loop's control skeleton REGENERATED from the source on every run "
              "(gen/gen_year.py -> S4V.Gen.Year; every statement of the prologue, the loop body and the jump action must be a known shape, else the translator fails): "
              "the order of the jump test and of the exits (DECISIONS = jump, start-of-file exit, --dt-after test), the comparison operators of the jump test "
              "(dt_cur > dt_prev, diff > threshold), the year step (-1), remove_sysline / same offset retried / previous message kept on a jump, the "
              "Result_Filter_DateTime1 variants on which the --dt-after match breaks (OccursBefore only), year from the mtime in tz_offset, clear_syslines first, and "
              "the only caller (stage 2, after block-zero analysis, only when the pattern has no year); dt_after_or_before is the generated S4V.Gen.Filter function and the "
              "threshold is regenerated from BACKWARDS_TIME_JUMP_MEANS_NEW_YEAR. Every theorem goes through walk_eq_nf, which unfolds those constants: moving the "
              "start-of-file exit in front of the jump test, adding a break on dt == --dt-after, >= for >, another year step or break variant regenerates different "
              "constants and the proofs fail; what those two defects would do is kept as counter-models (start_exit_before_jump_misdates_first: message 1 one year late "
              "and the stored dates step back more than the threshold; break_on_equal_after_loses: of two messages at instant A only the later is re-dated under -a A). "
              "For plain files (every message a real month/day other than 29 February): the last message gets year(mtime) (C11_last_year); if the true year never "
              "decreases, time never runs back more than 25 h, consecutive gaps are < 365 d - 25 h and the mtime lies in the last message's year, every message gets "
              "its true year (C11_years) and with --dt-after exactly the messages down to the first one before the bound are re-dated (C11_window); for any order "
              "the stored dates never step back more than 25 h (C11_monotone). 29 February (Issue #245): C11_years_full_false, C11_feb29_first_undated, and two "
              "behaviours found by the in-process correspondence and now modelled: a sysline re-read with a common fill year also takes FOLLOWING 29 February lines "
              "that had been stored with a leap year (C11_last_feb29_lost: a trailing 29 February loses its sysline; C11_last_year_full_false), and when only text / "
              "29 February lines precede the search offset find_sysline_year turns forward and the message found again is re-dated with the stepped-back year "
              "(C11_refind_redates). Calendar: civil_roundtrip / strict monotonicity for all Int (S4V.Lemmas.Time). Tied to the code (a) in process: harness component "
              "`year` writes year-less files (1-41 messages, 0-4 year wraps at every position incl. between message 1-2 and the last two, runs of equal instants, "
              "29 February lines, 0-2 leading lines without a timestamp, continuation lines, multi-block block sizes, 6 zones, mtime on the edges of the local year), "
              "sets the mtime, runs the real SyslogProcessor stages 0-2 with --dt-after on / next to message instants, and compares what is stored at every "
              "message's offset (instant, or nothing) with the model; (b) end to end: the binary's -u prefixes are compared with the generator's true dates and with "
              "the model's instants for every generated file; mtime source per container, file order, window and merge are observed there.")
ASSUME = ["regex + chrono attribute month/day/time of an RFC 3164 line as written (C04)",
          "find_sysline_year itself (backward search to a line that parses with the fill year, forward search when none does, forward extension over lines that do not "
          "parse, range replacement in syslines_by_range) is modelled by hand (findParse / refind / blank) and validated by the in-process correspondence, not translated",
          "C11_monotone and C11_last_year are proved for plain files only; with 29 February lines they are checked by the correspondence, not proved"]

MONTHS = ['Jan', 'Feb', 'Mar', 'Apr', 'May', 'Jun', 'Jul', 'Aug', 'Sep', 'Oct', 'Nov', 'Dec']
OFFSETS = [0, 0, 19800, -28800, 50400, -43200, 3600]
J = 90000


def tz_arg(off):
    sign = '+' if off >= 0 else '-'
    a = abs(off)
    return '-t=%s%02d:%02d' % (sign, a // 3600, (a % 3600) // 60)


def jan1(y):
    return calendar.timegm((y, 1, 1, 0, 0, 0))


def gen_times(rng, n, want_bounds, backward=True):
    """true LOCAL seconds (as if UTC) of n messages; no 29 Feb; gaps < 365d-25h; small backward steps inside a year"""
    y0 = rng.range(1975, 2094)
    t = jan1(y0) + rng.below(365 * 86400)
    out = []
    bounds_left = want_bounds
    for i in range(n):
        if i:
            kind = rng.below(10)
            remaining = n - i
            if bounds_left > 0 and (kind >= 7 or remaining <= bounds_left):
                # jump over the next year boundary
                ny = jan1(time.gmtime(t).tm_year + 1)
                gap_min = ny - t
                gap_max = 365 * 86400 - J - 1
                step = gap_min + rng.below(max(1, min(gap_max - gap_min, 40 * 86400)))
                if step > gap_max:
                    step = gap_max
                # every third wrap: a gap just below the largest one the hypotheses allow (365 d - 25 h): read in the successor's year the message
                # then lies between 25 h and 26 h AFTER its successor, the narrowest jump that must still count as a year wrap (seeded change C11-d)
                if rng.chance(1, 3) and gap_max - 3599 >= gap_min:
                    step = gap_max - rng.below(3600)
                if t + step >= ny:
                    bounds_left -= 1
            elif kind == 0 and backward:
                step = -rng.below(24 * 3600)
            elif kind <= 3:
                step = rng.below(5)
            elif kind <= 5:
                step = rng.below(7200)
            else:
                step = rng.below(20 * 86400)
            nt = t + step
            if step < 0 and time.gmtime(nt).tm_year != time.gmtime(t).tm_year:
                nt = t
            if time.gmtime(nt).tm_year > time.gmtime(t).tm_year and want_bounds == 0:
                nt = t
            if time.gmtime(nt).tm_year > time.gmtime(t).tm_year:
                pass
            t = nt
        g = time.gmtime(t)
        if g.tm_mon == 2 and g.tm_mday == 29:
            t += 86400
        out.append(t)
    # enforce the hypotheses exactly (gap and year monotonicity), repair locally
    for i in range(1, len(out)):
        a, b = out[i - 1], out[i]
        if b - a >= 365 * 86400 - J or a > b + J or time.gmtime(a).tm_year > time.gmtime(b).tm_year:
            out[i] = a
    return out


def render(loc_times, tag=b''):
    lines = []
    for i, t in enumerate(loc_times):
        g = time.gmtime(t)
        lines.append(('%s %2d %02d:%02d:%02d host prog: %smsg n%s\n' % (
            MONTHS[g.tm_mon - 1], g.tm_mday, g.tm_hour, g.tm_min, g.tm_sec, tag.decode(), 'abcdefghij'[i % 10] * (1 + i % 3))).encode())
    return lines


def msgs_arg(loc_times):
    if not loc_times:
        return '-'
    return ','.join('%d:%d:%d' % (g.tm_mon, g.tm_mday, g.tm_hour * 3600 + g.tm_min * 60 + g.tm_sec)
                    for g in (time.gmtime(t) for t in loc_times))


def pick_mtime(rng, last_loc, off):
    y = time.gmtime(last_loc).tm_year
    lo = jan1(y) - off
    hi = jan1(y + 1) - off - 1
    c = rng.below(5)
    mt = [lo, hi, last_loc - off, lo + rng.below(hi - lo + 1), hi - rng.below(3)][c]
    return max(1, mt)


def write_case(ctx, name, data, kind, mtime, rng):
    path = os.path.join(ctx.work, name + '.log' + e2e.SUFFIX[kind])
    if kind == 'plain':
        open(path, 'wb').write(data)
        os.utime(path, (mtime, mtime))
    elif kind in ('bz2', 'xz', 'lz4'):
        # no embedded time: the file's own mtime decides
        e2e.pack(data, kind, path, inner_name=name + '.log')
        os.utime(path, (mtime, mtime))
    else:
        if kind == 'gz' and rng.chance(1, 2):
            # a gzip header WITHOUT the optional FNAME field (`gzip -c < f > f.gz`, gzip.compress): MTIME must still be used
            import gzip as _gz
            with open(path, 'wb') as f:
                f.write(_gz.compress(data, 6, mtime=mtime))
        else:
            e2e.pack(data, kind, path, inner_name=name + '.log', mtime=mtime)
        # gz / tar: the file's own mtime must NOT be what decides: put it in another year
        wrong = mtime + rng.pick([-3, -1, 1, 2]) * 366 * 86400
        wrong = min(max(wrong, 86400), 4102444800)
        os.utime(path, (wrong, wrong))
    return path


def prefix_of(t_utc):
    return time.strftime('%Y-%m-%dT%H:%M:%S', time.gmtime(t_utc)).encode()


def parse_prefix(b):
    try:
        return calendar.timegm(time.strptime(b.decode(), '%Y-%m-%dT%H:%M:%S'))
    except Exception:
        return None


def run_s4(paths, off, after, before, bs=None):
    args = ['--color', 'never', tz_arg(off), '-u', '-d', '%Y-%m-%dT%H:%M:%S']
    # NB: not `-a +<epoch>`: that form is read as a local time in the -t zone (side finding, C14)
    if after is not None:
        args += ['-a', prefix_of(after).decode() + '+00:00']
    if before is not None:
        args += ['-b', prefix_of(before).decode() + '+00:00']
    if bs:
        args += ['--blocksz', str(bs)]
    return e2e.s4(args + list(paths)), args


def model_years(reqs):
    rc, out, err, _ = core.run([core.DRV], input=('\n'.join(reqs) + '\n').encode(), timeout=600)
    lines = out.decode().splitlines()
    if rc != 0 or len(lines) != len(reqs):
        return None
    res = []
    for l in lines:
        if l == '-':
            res.append([])
        else:
            res.append([None if x == 'n' else int(x) for x in l.split(',')])
    return res


def oracle(ctx):
    rng = e2e.Rng(ctx.seed * 41 + 3)
    n = ctx.q(70, 900)
    fails, samples = [], []
    ev = 0
    dist = {}
    cases = []
    for k in range(n):
        bounds = k % 5
        nm = rng.range(max(1, bounds + 1), 24)
        off = rng.pick(OFFSETS)
        backward = (k % 2 == 0)
        loc = gen_times(rng, nm, bounds, backward)
        nb = sum(1 for a, b in zip(loc, loc[1:]) if time.gmtime(a).tm_year != time.gmtime(b).tm_year)
        kind = ['plain', 'gz', 'tar', 'plain', 'bz2', 'plain', 'xz'][k % 7]
        mtime = pick_mtime(rng, loc[-1], off)
        if kind in ('gz', 'tar') and mtime >= 2 ** 32:
            kind = 'plain'
        true_utc = [t - off for t in loc]
        wins = [(None, None)]
        chrono = all(a <= b for a, b in zip(true_utc, true_utc[1:]))
        piv = rng.pick(true_utc)
        wins.append((piv + rng.pick([-1, 0, 1]), None))
        piv2 = rng.pick(true_utc)
        lo, hi = sorted([piv + rng.pick([-1, 0, 0, 1]), piv2 + rng.pick([-1, 0, 0, 1])])
        wins.append((lo, hi))
        if k % 3 == 0:
            wins.append((None, piv2))
        if not chrono:
            # a window is searched for by bisection, which presumes a chronological file (C03)
            wins = [(None, None)]
        bs = rng.pick([None, None, 1024, 128])
        cases.append(dict(k=k, loc=loc, off=off, kind=kind, mtime=mtime, wins=wins, bs=bs, nb=nb, true_utc=true_utc))
    # the model's answers, one driver run
    reqs, idx = [], []
    for c in cases:
        for (a, b) in c['wins']:
            reqs.append('time year %d %d %s %s' % (c['mtime'], c['off'], 'n' if a is None else a, msgs_arg(c['loc'])))
            idx.append((c['k'], a, b))
    model = model_years(reqs)
    if model is None:
        fails.append({'signature': 'year:driver-failed', 'detail': 'drv did not answer the `time year` requests'})
        model = [None] * len(reqs)
    mi = 0
    for c in cases:
        lines = render(c['loc'])
        data = b''.join(lines)
        path = write_case(ctx, 'c11_%d' % c['k'], data, c['kind'], c['mtime'], rng)
        for (a, b) in c['wins']:
            m = model[mi]
            mi += 1
            (rc, out, err, _), args = run_s4([path], c['off'], a, b, c['bs'])
            ev += 1
            key = f"{c['kind']} bounds={min(c['nb'], 4)} win={'ab'[0] if a is not None else '-'}{'b' if b is not None else '-'}"
            dist[key] = dist.get(key, 0) + 1
            exp = b''.join(prefix_of(t) + b':' + l for t, l in zip(c['true_utc'], lines)
                           if (a is None or t >= a) and (b is None or t <= b))
            info = {'args': args + ['FILE'], 'file_hex': data.hex() if len(data) < 6000 else None, 'kind': c['kind'], 'mtime': c['mtime'],
                    'off': c['off'], 'year_boundaries': c['nb']}
            if rc != 0 or out != exp:
                from vlib.coord_common import first_diff
                fails.append({'signature': 'year:printed-dates-differ-from-true-dates', 'detail': f'rc={rc} ' + first_diff(out, exp), **info})
            if m is not None:
                expm = b''.join(prefix_of(t) + b':' + l for t, l in zip(m, lines)
                                if t is not None and (a is None or t >= a) and (b is None or t <= b))
                if out != expm:
                    from vlib.coord_common import first_diff
                    fails.append({'signature': 'year:printed-dates-differ-from-model', 'detail': f'rc={rc} ' + first_diff(out, expm), **info})
            if len(samples) < 3 and c['nb'] >= 1 and a is None:
                samples.append({'oracle': 'C11 years', 'kind': c['kind'], 'year_boundaries': c['nb'], 'mtime': c['mtime'], 'off': c['off'],
                                'first_out': out[:120].decode('latin1'), 'messages': len(lines)})
        os.unlink(path)
    # merges: one chronology dealt to two year-less files
    nmerge = ctx.q(12, 120)
    for k in range(nmerge):
        off = rng.pick(OFFSETS)
        loc = gen_times(rng, rng.range(6, 30), k % 3, backward=False)
        deal = [rng.below(2) for _ in loc]
        parts = [[t for t, d in zip(loc, deal) if d == i] for i in (0, 1)]
        if not parts[0] or not parts[1]:
            continue
        ok = True
        for p in parts:
            for x, y in zip(p, p[1:]):
                if y - x >= 365 * 86400 - J:
                    ok = False
        if not ok:
            continue
        paths, lines2 = [], []
        for i, p in enumerate(parts):
            ls = render(p, tag=b'f%d ' % i)
            lines2.append(ls)
            kind = ['plain', 'gz', 'tar'][(k + i) % 3]
            paths.append(write_case(ctx, 'c11m_%d_%d' % (k, i), b''.join(ls), kind, pick_mtime(rng, p[-1], off), rng))
        (rc, out, err, _), args = run_s4(paths, off, None, None)
        ev += 1
        dist['merge'] = dist.get('merge', 0) + 1
        # expected: stable merge by instant, ties to the earlier argument; within a file, file order.
        # The coordinator always prints the earliest head-of-file message, so a file whose own order
        # runs backwards is consumed in file order.
        heads = [0, 0]
        exp = bytearray()
        while heads[0] < len(parts[0]) or heads[1] < len(parts[1]):
            cand = [(parts[i][heads[i]], i) for i in (0, 1) if heads[i] < len(parts[i])]
            t, i = min(cand)
            exp += prefix_of(t - off) + b':' + lines2[i][heads[i]]
            heads[i] += 1
        if rc != 0 or bytes(exp) != out:
            from vlib.coord_common import first_diff
            fails.append({'signature': 'year:merge-differs', 'detail': f'rc={rc} ' + first_diff(out, bytes(exp)), 'args': args + ['FILE0', 'FILE1'],
                          'files_hex': [b''.join(l).hex() for l in lines2]})
        for p in paths:
            os.unlink(p)
    # 29 February witnesses (Issue #245): the binary must do what the model says
    wit = [
        ([(1, 2, 0), (2, 29, 43200), (2, 20, 0)], 2025, [1735776000, None, 1740009600]),
        ([(2, 27, 36000), (2, 29, 43200), (1, 5, 1800)], 2025, [1709028000, 1709208000, 1736037000]),
        ([(2, 29, 43200), (1, 5, 1800)], 2025, [None, 1736037000]),
    ]
    for j, (ms, year, want) in enumerate(wit):
        lines = [('%s %2d %02d:%02d:%02d host prog: w%d\n' % (MONTHS[m - 1], d, s // 3600, s % 3600 // 60, s % 60, i)).encode()
                 for i, (m, d, s) in enumerate(ms)]
        path = write_case(ctx, 'c11w_%d' % j, b''.join(lines), 'plain', calendar.timegm((year, 3, 1, 0, 0, 0)), rng)
        req = 'time year %d 0 n %s' % (calendar.timegm((year, 3, 1, 0, 0, 0)), ','.join('%d:%d:%d' % x for x in ms))
        m = model_years([req])
        (rc, out, err, _), args = run_s4([path], 0, None, None)
        ev += 1
        dist['feb29-witness'] = dist.get('feb29-witness', 0) + 1
        got = []
        for l in out.splitlines():
            got.append(parse_prefix(l[:19]))
        # model -> printed prefixes: a swallowed line is printed under the date of the message that swallowed it
        # (the nearest dated message before it); a leading undated line is parsed by the forward pass with 1972
        expect = []
        cur = None
        for i, t in enumerate(want):
            if t is not None:
                cur = t
                expect.append(t)
            elif cur is not None:
                expect.append(cur)
            else:
                mo, d, s = ms[i]
                expect.append(calendar.timegm((1972, mo, d, 0, 0, 0)) + s)
        if m is None or m[0] != want:
            fails.append({'signature': 'year:feb29-model-changed', 'detail': f'model {m} expected {want}', 'request': req})
        if got != expect:
            fails.append({'signature': 'year:feb29-binary-differs-from-model', 'detail': f'printed {got} model-derived {expect}',
                          'args': args + ['FILE'], 'file_hex': b''.join(lines).hex()})
        os.unlink(path)
    res = {'evaluations': ev, 'distinct_nontrivial': ev, 'failures': fails, 'samples': samples, 'outcomes': dist,
           'rule': 'generated year-less RFC 3164 logs (1-24 messages, 0-4 year boundaries, backward steps < 24 h, gaps up to 365 d - 25 h) x '
                   'mtime at start/end/inside the last message\'s local year x 6 zones x {none, -a, -a -b, -b} windows on and next to message instants x '
                   '{plain, gz, tar, bz2, xz} x block sizes; stdout must equal true-date prefixes + lines, and the model\'s; 2-file merges; '
                   '3 February-29 witnesses must behave as the model says; distinct = (file, window) runs'}
    ctx.steps.setdefault('oracle', []).append({k: v for k, v in res.items() if k not in ('failures', 'samples')})
    ctx.log(f'oracle C11: {ev} runs, {len(fails)} failures, distribution {dist}')
    return res


def check(ctx):
    return core.standard_check(ctx, ['Consts', 'Filter', 'Year'], MODS, [('year', 2500, 12000)], oracle, LEVEL_NOTE, ASSUME, need_harness=True)


def replay(ctx, data):
    core.step_build_impl(ctx, need_s4=True, need_harness=True)
    core.step_drv(ctx)
    f = data.get('failure') or {}
    print('recorded failure:', {k: (v if not isinstance(v, str) or len(v) < 300 else v[:300] + '…') for k, v in f.items()})
    if f.get('file_hex') and f.get('args'):
        p = os.path.join(ctx.work, 'replay.log' + e2e.SUFFIX.get(f.get('kind', 'plain'), ''))
        e2e.pack(bytes.fromhex(f['file_hex']), f.get('kind', 'plain'), p, inner_name='replay.log', mtime=f.get('mtime', 0))
        if f.get('kind', 'plain') == 'plain' and f.get('mtime'):
            os.utime(p, (f['mtime'], f['mtime']))
        args = [p if a == 'FILE' else a for a in f['args']]
        rc, out, err, _ = e2e.s4(args)
        print('s4', ' '.join(args), '-> rc', rc)
        print(out.decode('latin1'))
    return core.generic_replay(ctx, data)
