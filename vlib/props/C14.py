"""C14 — `--dt-after/--dt-before` arguments resolve to the documented instant.

Tie: (1) hook H2 (`S4_VERIF_EVAL`): the existing functions `cli_process_tz_offset`,
`string_wdhms_to_duration`, `process_dt` of the real binary answer the same
requests as the Lean driver op `cli …`, on the enumerated grammar (every
generated pattern row x zone spelling x fraction length x boundary dates; every
subset and order of w/d/h/m/s units, both signs, with and without '@') and on
near-miss mutants; (2) `cli ab …` (evaluation order of -a/-b, rejections)
against the exit status and the "Datetime filter -a/-b" lines of `--summary`.
Oracle: those summary lines / exit status against the documented denotation
computed here, independently of the model.
"""
import calendar
import os
import re
import subprocess

from vlib import core, e2e

MODS = ['S4V.Props.CliSpec', 'S4V.Props.CliNoStealSpec', 'S4V.Props.FactsCli']
GEN = ['CliTables', 'CliItems']
LEVEL_NOTE = ("Proved over the model S4V.Model.Cli of process_dt / string_wdhms_to_duration / cli_process_args whose tables (76 pattern rows, the regex pieces and "
              "their anchors, the time-zone name map) are regenerated from s4.rs / datetime.rs on every run. ABSOLUTE FORMS, FOR ALL VALUES (C14_abs, "
              "S4V/Props/CliSpec.lean + S4V/Lemmas/CliAbs.lean): for every one of the 76 generated rows (C14_abs_rows_covered: all 76 satisfy the decidable per-row "
              "condition RowOk, none is left to a representative) and EVERY value of the row's grammar - year 0000..9999 (four digits), a valid calendar date, hour "
              "<= 23, minute <= 59, second <= 60 (60 = leap-second reading), %3f / %6f any three / six digits, numeric zone with sign + - or U+2212, hours <= 23, "
              "minutes <= 59 written +HHMM or +HH:MM (and for %#z also +HH, Z, z), zone name = any name the generated table maps to a non-empty offset, %s any "
              "non-empty digit string <= 8210266790399 - and every --tz-offset strictly inside +-24h, the row's own attempt returns the instant computed from the "
              "calendar arithmetic of S4V.Model.Time (not from the interpreter): explicit zone (numeric or named) wins (C14_abs_zone_wins), zone-less is read at "
              "--tz-offset (C14_abs_zoneless), a bare date means 00:00:00, '+N' = N seconds in the --tz-offset zone, the instant of ':60' is that of the next second "
              "(C14_abs_instant). The text is rendered generically from the row's own pattern items; the proof unfolds the generated rows and zone table (rows_ok, "
              "tzTable_ok). Every such value is accepted by process_dt as a whole (C14_abs_accepted). NO-STEAL, FOR ALL VALUES (C14_no_steal, C14_no_steal_rows): for "
              "the rows at positions 0, 1, 15, 16, 30, 31, 57, 58, 72, 73, 74 (the zone-less forms of the help text, with and without .%3f, and the three bare dates) "
              "no earlier row reads any of their values, so process_dt as a whole returns the documented instant; for the other 65 rows (zoned forms, .%6f, +%s) an "
              "earlier row may read the value and agreement with it is decided on representative values only (C14_no_steal_repr, 15 rows) - a general proof is not done "
              "(interface: C14_abs_processDt). The relative forms sum their units with the sign for every string of the grammar (C14_rel), '-a X -b @+D' = '-a X -b X+D' "
              "(C14_at), both-'@' / after>before / ambiguous zone are rejected, every string outside the relative grammar is refused by the relative branch "
              "(C14_reject_garbage: the unanchored match of finding F5 is repaired; a repeated unit is still accepted, last occurrence wins, C14_rel_lastwins / F5b). Tied to the code by the H2 evaluation mode of the real binary (same requests to both sides) and "
              "by the --summary lines and exit status of real runs.")
ASSUME = ["chrono 0.4.40 parse_from_str / Parsed resolution / TimeDelta limits, the regex crate on REGEX_DUR_OFFSET (leftmost-first, last repetition of a named "
          "group wins, \\d = Unicode Nd) and Rust char::is_whitespace are modelled, not verified (validated by the H2 correspondence only)",
          "char::is_alphabetic is modelled as ASCII letters (argued equivalent for process_dt in S4V/Model/Cli.lean; exercised by mutants with non-ASCII letters)",
          "the '-a/-b' evaluation order is observed through --summary, which prints whole seconds only"]

NOW_NS = 1700000000123456789          # 2023-11-14T22:13:20.123456789Z
F5_SIG = 'cli:relative-offset-unanchored-match-accepted'
EPOCH_SIG = 'cli:epoch-read-in-tz-offset-zone'


def hx(s):
    b = s.encode('utf-8')
    return b.hex() if b else '-'


# ------------------------------------------------------------------ generated tables

def load_tables():
    path = os.path.join(core.LEAN, 'S4V', 'Gen', 'CliTables.lean')
    src = open(path, encoding='utf-8').read()
    rows = []
    for m in re.finditer(r'^  ⟨"((?:[^"\\]|\\.)*)", (true|false), (true|false), (true|false), (true|false)⟩', src, re.M):
        rows.append((m.group(1), m.group(2) == 'true', m.group(3) == 'true', m.group(4) == 'true', m.group(5) == 'true'))
    tz = re.findall(r'^  \("([A-Za-z]+)", "([^"]*)"\)', src, re.M)
    return rows, tz


SPEC = re.compile(r'%(?:3f|6f|:z|#z|[YmdHMSzZs])')

DATES = [(1970, 1, 1), (2099, 12, 31), (2000, 2, 29), (2024, 2, 29), (1972, 2, 29), (2023, 2, 28), (2001, 3, 1),
         (1999, 12, 31), (2000, 1, 1), (2038, 1, 19), (2023, 11, 14)] + \
        [(2021, m, calendar.monthrange(2021, m)[1]) for m in range(1, 13)] + [(2020, m, 1) for m in range(1, 13)]
BAD_DATES = [(2023, 2, 29), (1900, 2, 29), (2021, 4, 31), (2021, 13, 1), (2021, 0, 10), (2021, 1, 0), (2021, 1, 32)]
TIMES = [(0, 0, 0), (23, 59, 59), (12, 34, 56), (1, 2, 3), (23, 59, 60), (9, 0, 60)]
BAD_TIMES = [(24, 0, 0), (12, 60, 0), (12, 0, 61)]
OFFS = [(1, 0, 0), (-1, 0, 0), (1, 5, 30), (-1, 3, 30), (1, 14, 0), (-1, 12, 0), (1, 23, 59), (-1, 23, 59), (-1, 8, 0), (1, 9, 0)]
BAD_OFFS = [(1, 24, 0), (1, 5, 60), (-1, 99, 0)]
TZARGS = ['+00:00', '+05:30', '-08:00', '+14:00', '-03:30', '+0100', '-11']
TZARG_SECS = {'+00:00': 0, '+05:30': 19800, '-08:00': -28800, '+14:00': 50400, '-03:30': -12600, '+0100': 3600, '-11': -39600}


def tz_spellings(spec, sgn, hh, mm):
    s = '+' if sgn > 0 else '-'
    out = [('%s%02d%02d' % (s, hh, mm)), ('%s%02d:%02d' % (s, hh, mm))]
    if spec == '%#z':
        if mm == 0:
            out.append('%s%02d' % (s, hh))
    return out


def render(pattern, ymd, hms, frac, tztext, epoch=None):
    y, mo, d = ymd
    hh, mi, ss = hms

    def sub(m):
        sp = m.group(0)
        return {'%Y': '%04d' % y, '%m': '%02d' % mo, '%d': '%02d' % d, '%H': '%02d' % hh, '%M': '%02d' % mi,
                '%S': '%02d' % ss, '%3f': ('%09d' % frac)[:3], '%6f': ('%09d' % frac)[:6],
                '%z': tztext, '%:z': tztext, '%#z': tztext, '%Z': tztext, '%s': str(epoch)}[sp]
    return SPEC.sub(sub, pattern)


def denote(pattern, ymd, hms, frac, off_secs):
    """documented instant: (epoch secs of the wall-clock second, subsec ns, offset)"""
    y, mo, d = ymd
    hh, mi, ss = hms
    fr = 0
    if '%3f' in pattern:
        fr = frac // 1000000 * 1000000
    elif '%6f' in pattern:
        fr = frac // 1000 * 1000
    leap = ss == 60
    secs = calendar.timegm((y, mo, d, hh, mi, 59 if leap else ss, 0, 0, 0)) - off_secs
    return secs, fr + (1000000000 if leap else 0), off_secs


def gen_abs(rng, rows, tz, n_scale):
    """requests + expected (None = no independent expectation)"""
    out = []
    named = [(k, v) for k, v in tz]
    for ri, (pat, has_year, has_tz, has_z, has_time) in enumerate(rows):
        specs = SPEC.findall(pat)
        if '%s' in specs:
            for ep in [0, 1, 946684800, 1700000000, 4102444799, 253402300799, 99999999999999, 8210266876799, 8210266876800,
                       9223372036854775807, 9223372036854775808]:
                for tza in ['+00:00', '+05:30', '-08:00']:
                    out.append(('dt', render(pat, (0, 0, 0), (0, 0, 0), 0, '', ep), tza, '-', None, ('epoch', ep, tza)))
            continue
        tzspec = next((s for s in specs if s in ('%z', '%:z', '%#z', '%Z')), None)
        spell = []
        if tzspec in ('%z', '%:z', '%#z'):
            for (sg, hh, mm) in OFFS:
                for t in tz_spellings(tzspec, sg, hh, mm):
                    spell.append((t, sg * (hh * 3600 + mm * 60)))
            if tzspec == '%#z':
                spell += [('Z', 0), ('z', 0)]
            for (sg, hh, mm) in BAD_OFFS:
                spell.append(('%s%02d%02d' % ('+' if sg > 0 else '-', hh, mm), None))
        elif tzspec == '%Z':
            for k, v in named:
                if v:
                    sg = -1 if v[0] == '-' else 1
                    spell.append((k, sg * (int(v[1:3]) * 3600 + int(v[4:6]) * 60)))
                else:
                    spell.append((k, None))          # ambiguous: must not resolve
            spell += [('XYZZY', None), ('Pst', None)]
        else:
            spell = [('', 'arg')]
        k = 0
        for si, (ttext, off) in enumerate(spell):
            ndates = len(DATES) if (tzspec != '%Z' or si % 16 == ri % 16) else 1
            ndates = max(1, ndates // (1 if n_scale > 1 else 1))
            for di in range(ndates):
                ymd = DATES[(di + ri + si) % len(DATES)]
                hms = TIMES[(di + si + ri) % len(TIMES)] if has_time else (0, 0, 0)
                frac = rng.below(1000000000)
                tza = TZARGS[(k + ri) % len(TZARGS)]
                k += 1
                val = render(pat, ymd, hms, frac, ttext)
                if off is None:
                    exp = None
                    tag = ('abs-bad-zone', ri)
                else:
                    o = TZARG_SECS[tza] if off == 'arg' else off
                    exp = denote(pat, ymd, hms, frac, o)
                    tag = ('abs', ri)
                out.append(('dt', val, tza, '-', exp, tag))
        # invalid calendar values must not resolve through their own row
        for ymd in BAD_DATES:
            val = render(pat, ymd, TIMES[2] if has_time else (0, 0, 0), 123456789, spell[0][0])
            out.append(('dt', val, '+00:00', '-', None, ('abs-bad-date', ri)))
        if has_time:
            for hms in BAD_TIMES:
                val = render(pat, DATES[3], hms, 123456789, spell[0][0])
                out.append(('dt', val, '+00:00', '-', None, ('abs-bad-time', ri)))
    return out


UNITS = 'wdhms'
MULT = {'w': 604800, 'd': 86400, 'h': 3600, 'm': 60, 's': 1}


def perms(seq, k):
    if k == 0:
        yield []
        return
    for i, x in enumerate(seq):
        for p in perms(seq[:i] + seq[i + 1:], k - 1):
            yield [x] + p


def gen_rel(rng):
    out = []
    for k in range(1, 6):
        for p in perms(list(UNITS), k):
            for sign in '+-':
                for at in ('', '@'):
                    cnts = []
                    for _ in p:
                        r = rng.below(10)
                        cnts.append(0 if r == 0 else rng.below(10) if r < 4 else rng.below(100) if r < 7 else rng.below(100000))
                    body = ''.join(('%0*d' % (rng.pick([1, 1, 1, 2, 5]), c)) + u for c, u in zip(cnts, p))
                    total = sum(c * MULT[u] for c, u in zip(cnts, p)) * (1 if sign == '+' else -1)
                    out.append((at + sign + body, total, at == '@'))
    return out


EDGE_DURS = ['+9223372036854775807s', '+9223372036854775808s', '-9223372036854775808s', '+9223372036854775s', '+9223372036854776s',
             '-9223372036854775s', '-9223372036854776s', '+153722867280912930m', '+153722867280912931m', '+15250284452471w', '+15250284452472w',
             '+9223372036854775s1s', '+9223372036854775s1m', '-9223372036854775s1m', '+106751991167d', '+106751991168d', '+2562047788015h', '+2562047788016h',
             '+99999999999999999999999d', '+1d99999999999999999999s', '+١d', '+1٢s', '+１２h', '-१w', '+00000000000000000000001s',
             '@+8000000000000s', '+8000000000000s', '-8400000000000s', '@-9000000000000s', '+262142w', '+13670000w', '-13780000w', '', '+', '-', '@', '@+', '+d', '+1',
             '1d', '+1x', '+ 1d', '+1 d', '+1D', '＋1d', '−1d', '+1d ', ' +1d', '++1d', '+-1d', '-+1d', '@@+1d', '+@1d', '+1d@', '@+1d@-1d']


def mutate(rng, s):
    kind = rng.below(9)
    cs = list(s)
    if kind == 0 and cs:
        del cs[rng.below(len(cs))]
    elif kind == 1:
        cs.insert(rng.below(len(cs) + 1), rng.pick(list('0123456789TZz:+-@ .wdhms/x') + ['\t', ' ', '　', 'é', '٣', '−', '\n']))
    elif kind == 2 and cs:
        i = rng.below(len(cs))
        cs[i] = {'+': '-', '-': '+'}.get(cs[i], rng.pick(list('09:T +-')))
    elif kind == 3:
        m = list(re.finditer(r'\d+[wdhms]', s))
        if m:
            g = rng.pick(m)
            cs = list(s[:g.end()] + rng.pick([g.group(0), '2' + g.group(0)[-1], '+11h', '+' + g.group(0)]) + s[g.end():])
        else:
            cs = cs + list(rng.pick(['+1d', '-2h', '@+1d', '+1d2d']))
    elif kind == 4:
        cs = list(rng.pick(['foo', ' ', 'x', '0', '+', '@', 'T', ' ', '2000-01-01 ', 'é'])) + cs
    elif kind == 5:
        cs = cs + list(rng.pick(['foo', ' ', 'x', '0', 'Z', 'z', '+1d', 'PST', ' PST', ' ', '\t', 'é', 'éPST', '+00', ':00']))
    elif kind == 6 and len(cs) > 1:
        i = rng.below(len(cs) - 1)
        cs[i], cs[i + 1] = cs[i + 1], cs[i]
    elif kind == 7 and cs:
        i = rng.below(len(cs))
        cs.insert(i, cs[i])
    elif kind == 8 and cs:
        i = rng.below(len(cs))
        if cs[i] in '-/:. T':
            cs[i] = rng.pick(['', ' ', '  ', '\t', '-', '/', ':', 'T', 't', ' '])
        else:
            cs[i] = rng.pick(list('0123456789'))
    return ''.join(cs)


# ------------------------------------------------------------------ the two sides

def h2_eval(lines):
    """run requests through the H2 evaluation mode; a request that makes the process exit gets `exit`"""
    replies = []
    todo = list(lines)
    env = dict(os.environ)
    env['S4_VERIF_EVAL'] = '1'
    env['TZ'] = 'UTC'
    guard = 0
    while todo:
        guard += 1
        p = subprocess.run([core.S4], input=('\n'.join(todo) + '\n').encode('utf-8'), env=env,
                           stdout=subprocess.PIPE, stderr=subprocess.DEVNULL, timeout=900)
        got = p.stdout.decode('utf-8', errors='replace').splitlines()
        if len(got) >= len(todo):
            replies += got[:len(todo)]
            break
        replies += got
        replies.append('exit' if p.returncode == 1 else 'died rc=%d' % p.returncode)
        todo = todo[len(got) + 1:]
        if guard > 5000:
            replies += ['<gave up>'] * len(todo)
            break
    return replies


def drv_eval(lines):
    rc, out, err, w = core.run([core.DRV], input=('\n'.join('cli ' + l for l in lines) + '\n').encode('utf-8'), timeout=900)
    return rc, out.decode('utf-8', errors='replace').splitlines()


def req_line(op, val, tza=None, other=None, now=NOW_NS):
    if op == 'dt':
        return 'dt %s %s %s %d' % (hx(val), tza, other, now)
    return '%s %s' % (op, hx(val))


def compare(ctx, name, reqs, meta=None):
    res = {'component': name, 'cases': len(reqs), 'disagreements': [], 'distinct': len(set(reqs))}
    if not reqs:
        return res, []
    impl = h2_eval(reqs)
    rc, model = drv_eval(reqs)
    if rc != 0 or len(model) != len(reqs) or len(impl) != len(reqs):
        ctx.broken.append({'kind': 'correspondence', 'name': name,
                           'detail': f'driver rc={rc} model replies={len(model)} impl replies={len(impl)} of {len(reqs)}'})
        return res, impl
    dist = {}
    nd = 0
    for r, i, m in zip(reqs, impl, model):
        key = core.classify_reply(i)
        dist[key] = dist.get(key, 0) + 1
        if i != m:
            nd += 1
            if len(res['disagreements']) < 20:
                w = r.split(' ')
                try:
                    txt = bytes.fromhex(w[1]).decode('utf-8') if w[1] != '-' else ''
                except Exception:
                    txt = '?'
                res['disagreements'].append({'request': 'cli ' + r, 'value': txt, 'impl': i, 'model': m})
    res['n_disagreements'] = nd
    res['distribution'] = dict(sorted(dist.items(), key=lambda kv: -kv[1]))
    k = max(1, len(reqs) // 4)
    res['samples'] = [{'request': 'cli ' + reqs[j][:300], 'reply': impl[j][:200]} for j in range(0, len(reqs), k)][:4]
    if nd:
        d = res['disagreements'][0]
        ctx.broken.append({'kind': 'correspondence', 'name': name,
                           'detail': f"{nd} disagreement(s); first: value {d['value']!r} {d['request'][:300]} impl={d['impl']} model={d['model']}",
                           'disagreements': res['disagreements'][:10]})
        ctx.log(f'correspondence {name}: {nd} DISAGREEMENTS; first', d)
    else:
        ctx.log(f'correspondence {name}: {len(reqs)} cases agree; outcomes {res["distribution"]}')
    ctx.steps.setdefault('correspond', []).append({k: v for k, v in res.items() if k != 'disagreements'})
    return res, impl


# ------------------------------------------------------------------ end to end

SUMMARY_RE = re.compile(rb'^Datetime filter -([ab])\s*:(?: (\d{4,6})-(\d\d)-(\d\d) (\d\d):(\d\d):(\d\d) ([+-])(\d\d):(\d\d))?', re.M)


def run_ab(ctx, a, b, tza, probe):
    args = ['--color', 'never', '--tz-offset=' + tza, '-s']
    if a is not None:
        args += ['-a', a] if not a.startswith('-') else ['--dt-after=' + a]
    if b is not None:
        args += ['-b', b] if not b.startswith('-') else ['--dt-before=' + b]
    rc, out, err, _ = e2e.s4(args + [probe], env={'S4_VERIF_NOW': str(NOW_NS)})
    got = {}
    for m in SUMMARY_RE.finditer(err):
        if m.group(2) is None:
            got[m.group(1).decode()] = None
        else:
            y, mo, d, hh, mi, ss = (int(m.group(i)) for i in range(2, 8))
            off = (1 if m.group(8) == b'+' else -1) * (int(m.group(9)) * 3600 + int(m.group(10)) * 60)
            leap = ss == 60
            got[m.group(1).decode()] = (calendar.timegm((y, mo, d, hh, mi, 59 if leap else ss, 0, 0, 0)) - off + (1 if leap else 0), off)
    return rc, out, err, got


def model_ab(cases):
    lines = ['ab %s %s %s %d' % ('~' if a is None else hx(a), '~' if b is None else hx(b), tza, NOW_NS) for a, b, tza in cases]
    rc, out = drv_eval(lines)
    return rc, out, ['cli ' + l for l in lines]


def canon_ab(rc, out, got):
    """what a real run shows, in the driver's vocabulary (whole seconds)"""
    if rc != 0:
        return 'reject'

    def f(x):
        return '-' if x is None else '%d.%d' % x
    return 'ok %s %s' % (f(got.get('a')), f(got.get('b')))


def canon_model_ab(reply):
    w = reply.split(' ')
    if w[0] == 'reject':
        return 'reject'
    if w[0] != 'ok':
        return reply

    def f(x):
        if x == '-':
            return '-'
        sec, frac, off = x.rsplit('.', 2)
        sec = int(sec) + (1 if int(frac) >= 1000000000 else 0)
        return '%d.%s' % (sec, off)
    return 'ok %s %s' % (f(w[1]), f(w[2]))


def e2e_part(ctx, rows, tz):
    rng = e2e.Rng(ctx.seed * 977 + 14)
    probe = os.path.join(ctx.work, 'probe.log')
    with open(probe, 'wb') as f:
        f.write(b'2000-01-01 00:00:00 alpha\n2023-11-14 22:00:00 beta\n2030-06-01 12:00:00 gamma\n')
    failures, samples = [], []
    cases = []          # (a, b, tza, expectation)
    amb = [k for k, v in tz if not v and k.isupper()]
    una = [(k, v) for k, v in tz if v and k.isupper()]
    # --- documented behaviour, with an independent expectation
    X = [('20220102', (2022, 1, 2), (0, 0, 0)), ('2022-01-02', (2022, 1, 2), (0, 0, 0)), ('2022/01/02', (2022, 1, 2), (0, 0, 0)),
         ('20220102T030405', (2022, 1, 2), (3, 4, 5)), ('2022-01-02 03:04:05', (2022, 1, 2), (3, 4, 5)),
         ('2022-01-02T03:04:05', (2022, 1, 2), (3, 4, 5)), ('2022/01/02 03:04:05', (2022, 1, 2), (3, 4, 5)),
         ('2020-02-29T23:59:59.123', (2020, 2, 29), (23, 59, 59)), ('2022-01-02 03:04:05.123456', (2022, 1, 2), (3, 4, 5))]
    for tza in ['+00:00', '+05:30', '-08:00']:
        o = TZARG_SECS[tza]
        for txt, ymd, hms in X:
            t = calendar.timegm(ymd + hms + (0, 0, 0)) - o
            cases.append((txt, None, tza, ('ok', (t, o), None)))
            cases.append((None, txt, tza, ('ok', None, (t, o))))
            # '-a X -b @+D' equals '-a X -b X+D'
            D = rng.pick([('1d', 86400), ('1w2d', 9 * 86400), ('36h', 36 * 3600), ('90m', 5400), ('45s', 45), ('1d1h1m1s', 90061)])
            cases.append((txt, '@+' + D[0], tza, ('ok', (t, o), (t + D[1], o))))
            cases.append(('@-' + D[0], txt, tza, ('ok', (t - D[1], o), (t, o))))
            cases.append((txt, '@-' + D[0], tza, ('reject', 'after-gt-before')))
            cases.append(('@+' + D[0], txt, tza, ('reject', 'after-gt-before')))
        # explicit zones override -t
        for txt, off in [('2022-01-02T03:04:05+01:00', 3600), ('2022-01-02T03:04:05 -0330', -12600), ('20220102T030405+09', 32400),
                         ('2022-01-02 03:04:05 Z', 0), ('2022/01/02 03:04:05.123 +0530', 19800)]:
            t = calendar.timegm((2022, 1, 2, 3, 4, 5, 0, 0, 0)) - off
            cases.append((txt, None, tza, ('ok', (t, off), None)))
        for k, v in [rng.pick(una) for _ in range(4)]:
            off = (-1 if v[0] == '-' else 1) * (int(v[1:3]) * 3600 + int(v[4:6]) * 60)
            t = calendar.timegm((2022, 1, 2, 3, 4, 5, 0, 0, 0)) - off
            cases.append(('2022-01-02T03:04:05 ' + k, None, tza, ('ok', (t, off), None)))
        for k in [rng.pick(amb) for _ in range(3)]:
            cases.append(('2022-01-02T03:04:05 ' + k, None, tza, ('reject', 'ambiguous-zone')))
            cases.append((None, '20220102T030405' + k, tza, ('reject', 'ambiguous-zone')))
        # relative to program start
        nows = NOW_NS // 1000000000
        for txt, d in [('+1d', 86400), ('-1w22h', -(7 * 86400 + 22 * 3600)), ('+30s', 30), ('-4m2s', -242), ('+0s', 0)]:
            cases.append((txt, None, tza, ('ok', (nows + d, o), None)))
            cases.append((None, txt, tza, ('ok', None, (nows + d, o))))
        cases.append(('-1d', '+1d', tza, ('ok', (nows - 86400, o), (nows + 86400, o))))
        # one bound relative to program start, the other relative to IT ('@'), in both positions
        for nowrel, dn in [('-1d', -86400), ('+0s', 0), ('+2h30m', 9000), ('-1w', -604800)]:
            for D, dd in [('1h', 3600), ('2d3s', 172803)]:
                cases.append(('@-' + D, nowrel, tza, ('ok', (nows + dn - dd, o), (nows + dn, o))))
                cases.append((nowrel, '@+' + D, tza, ('ok', (nows + dn, o), (nows + dn + dd, o))))
            cases.append(('@+1h', nowrel, tza, ('reject', 'after-gt-before')))
            cases.append((nowrel, '@-1h', tza, ('reject', 'after-gt-before')))
        cases.append(('+1d', '-1d', tza, ('reject', 'after-gt-before')))
        cases.append(('20220103', '20220102', tza, ('reject', 'after-gt-before')))
        # after later than before by less than a second / a millisecond / one microsecond, also across zones: still rejected
        t0 = calendar.timegm((2000, 1, 2, 3, 4, 5, 0, 0, 0)) - o
        for a_, b_ in [('2000-01-02T03:04:05.678901', '2000-01-02T03:04:05.678001'), ('2000-01-02T03:04:05.678002', '2000-01-02T03:04:05.678001'),
                       ('2000-01-02T03:04:05.900', '2000-01-02T03:04:05.100'), ('2000-01-02T03:04:05.678002 PST', '2000-01-02T11:04:05.678001Z')]:
            cases.append((a_, b_, tza, ('reject', 'after-gt-before')))
        cases.append(('2000-01-02T03:04:05.678001', '2000-01-02T03:04:05.678901', tza, ('ok', (t0, o), (t0, o))))
        cases.append(('20220102', '20220102', tza, ('ok', (calendar.timegm((2022, 1, 2, 0, 0, 0)) - o, o), (calendar.timegm((2022, 1, 2, 0, 0, 0)) - o, o))))
        cases.append(('@+1d', '@-1d', tza, ('reject', 'both-relative')))
        cases.append(('@-1d', '@+1d', tza, ('reject', 'both-relative')))
        cases.append(('@+1d', None, tza, ('reject', 'other-unset')))
        cases.append((None, '@+1d', tza, ('reject', 'other-unset')))
        # '+epoch' is documented as Unix epoch seconds
        for ep in [0, 946684800, 1700000000]:
            cases.append(('+%d' % ep, None, tza, ('epoch', ep)))
        # unparseable values
        for g in ['foo', '2022-13-01', '20220230', '2022-01-02T25:00:00', '1d', '+1x', 'yesterday', '2022-01-02T03:04:05 XYZ', '+', '@']:
            cases.append((g, None, tza, ('reject', 'garbage')))
            cases.append((None, g, tza, ('reject', 'garbage')))
        # F5 witnesses: strings outside the grammar that contain a relative offset
        for a, b in [('foo+1d', None), ('20220102', '@+1d+11h'), ('bar-2h', None), ('+1dx', None),
                     ('20220102', 'x@+1d'), ('2022-01-02T03:04:05 SST+1d', None)]:
            cases.append((a, b, tza, ('reject', 'garbage-with-offset')))
        # a repeated unit is outside the documented `DwDdDhDmDs` form but inside the regex `(N u)+`: last one wins
        for a, b in [('20220102', '@+1d2d'), (None, '+1d1d')]:
            cases.append((a, b, tza, ('reject', 'repeated-unit')))
    rc_m, model, model_reqs = model_ab([(a, b, t) for a, b, t, _ in cases])
    if rc_m != 0 or len(model) != len(cases):
        ctx.broken.append({'kind': 'correspondence', 'name': 'cli-ab', 'detail': f'driver rc={rc_m} replies={len(model)} of {len(cases)}'})
        model = ['?'] * len(cases)
    corr = {'component': 'cli-ab', 'cases': len(cases), 'disagreements': [], 'distinct': len(set(model_reqs)), 'n_disagreements': 0}
    dist = {}
    n_eval = 0
    for (a, b, tza, exp), mrep, mreq in zip(cases, model, model_reqs):
        rc, out, err, got = run_ab(ctx, a, b, tza, probe)
        n_eval += 1
        desc = {'a': a, 'b': b, 'tz': tza, 'rc': rc, 'summary': {k: v for k, v in got.items()}, 'expect': exp}
        shown = canon_ab(rc, out, got)
        dist[shown.split(' ')[0]] = dist.get(shown.split(' ')[0], 0) + 1
        # correspondence: model of cli_process_args vs the run
        if canon_model_ab(mrep) != shown:
            corr['n_disagreements'] += 1
            if len(corr['disagreements']) < 10:
                corr['disagreements'].append({'request': mreq, 'impl': shown, 'model': mrep, 'args': desc})
        # oracle: documented denotation vs the run
        if b'panicked' in err or rc not in (0, 1):
            failures.append({'signature': 'cli:crash', 'detail': f'rc={rc} {err[-300:]!r}', 'case': desc})
            continue
        if rc != 0 and out:
            failures.append({'signature': 'cli:rejected-after-printing', 'detail': repr(out[:200]), 'case': desc})
        if exp[0] == 'ok':
            want = 'ok %s %s' % tuple('-' if x is None else '%d.%d' % x for x in exp[1:3])
            if shown != want:
                failures.append({'signature': 'cli:resolved-instant-differs-from-documented', 'detail': f'shown {shown} want {want}', 'case': desc})
        elif exp[0] == 'epoch':
            want = 'ok %d.%d -' % (exp[1], TZARG_SECS[tza])
            if shown != want:
                sig = EPOCH_SIG if (rc == 0 and got.get('a') and got['a'][0] == exp[1] - TZARG_SECS[tza]) else 'cli:resolved-instant-differs-from-documented'
                failures.append({'signature': sig, 'detail': f'shown {shown} want {want}', 'case': desc})
        elif exp[0] == 'reject':
            if rc == 0:
                sig = F5_SIG if exp[1] == 'garbage-with-offset' else ('cli:repeated-unit-last-wins' if exp[1] == 'repeated-unit' else 'cli:%s-accepted' % exp[1])
                failures.append({'signature': sig, 'detail': f'exit 0, shown {shown}', 'case': desc})
        if len(samples) < 4 and exp[0] == 'ok' and b is not None and a is not None:
            samples.append({'oracle': 'C14 summary', 'args': [a, b, tza], 'shown': shown})
    corr['distribution'] = dist
    corr['samples'] = [{'request': model_reqs[0], 'reply': model[0]}]
    if corr['n_disagreements']:
        d = corr['disagreements'][0]
        ctx.broken.append({'kind': 'correspondence', 'name': 'cli-ab',
                           'detail': f"{corr['n_disagreements']} disagreement(s); first: {d['request']} impl={d['impl']} model={d['model']}",
                           'disagreements': corr['disagreements'][:10]})
        ctx.log('correspondence cli-ab: DISAGREEMENTS; first', d)
    else:
        ctx.log(f'correspondence cli-ab: {len(cases)} real runs agree with resolveAB; outcomes {dist}')
    ctx.steps.setdefault('correspond', []).append({k: v for k, v in corr.items() if k != 'disagreements'})
    orc = {'evaluations': n_eval, 'distinct_nontrivial': len(set(model_reqs)), 'failures': failures, 'samples': samples,
           'rule': f'{n_eval} real runs of s4 -s with -a/-b (S4_VERIF_NOW pinned, 3 --tz-offset values): every documented absolute form, explicit / named / ambiguous '
                   "zones, '@' forms against their expansion, both-relative, after>before, '+epoch', unparseable values and strings that merely contain a relative offset; "
                   "the 'Datetime filter' summary lines and exit status must equal the documented denotation and a rejected run must print nothing; distinct = distinct (-a,-b,-t)"}
    return orc, corr


# ------------------------------------------------------------------ check

def h2_part(ctx, rows, tz):
    rng = e2e.Rng(ctx.seed * 131 + 7)
    failures = []
    corr = []
    # hook present?
    probe = h2_eval(['tz ' + hx('+00:00')])
    if probe != ['ok 0']:
        ctx.broken.append({'kind': 'correspondence', 'name': 'cli-h2', 'detail': f'hook H2 (S4_VERIF_EVAL) not present in {core.S4}: {probe[:2]}'})
        return [], failures, 0
    # --- absolute grammar
    ab = gen_abs(rng, rows, tz, ctx.q(1, 4))
    reqs = [req_line('dt', v, tza, other) for (_, v, tza, other, _, _) in ab]
    res, impl = compare(ctx, 'cli-dt-absolute', reqs)
    corr.append(res)
    n_or = 0
    for (op, v, tza, other, exp, tag), rep in zip(ab, impl):
        if tag[0] == 'epoch':
            n_or += 1
            ep = tag[1]
            if ep <= 253402300799 and rep != 'some %d 0 %d' % (ep, TZARG_SECS[tza]):
                sig = EPOCH_SIG if rep == 'some %d 0 %d' % (ep - TZARG_SECS[tza], TZARG_SECS[tza]) else 'cli:resolved-instant-differs-from-documented'
                failures.append({'signature': sig, 'detail': f'process_dt({v!r}, {tza}) = {rep}; documented: epoch second {ep}', 'case': {'value': v, 'tz': tza}})
            continue
        n_or += 1
        if exp is not None:
            want = 'some %d %d %d' % exp
            if rep != want:
                failures.append({'signature': 'cli:resolved-instant-differs-from-documented',
                                 'detail': f'process_dt({v!r}, {tza}) = {rep}; documented {want} (row {tag[1]} {rows[tag[1]][0]})', 'case': {'value': v, 'tz': tza}})
        elif rep.startswith('some'):
            failures.append({'signature': 'cli:%s-accepted' % tag[0], 'detail': f'process_dt({v!r}, {tza}) = {rep}', 'case': {'value': v, 'tz': tza}})
    # --- relative grammar
    rel = gen_rel(rng)
    reqs = [req_line('dur', s) for s, _, _ in rel]
    others = []
    for i, (s, total, at) in enumerate(rel):
        tza = TZARGS[i % len(TZARGS)]
        other = rng.pick(['-', str(946684800 * 10**9 + 5), '%d/%d' % (1650000000 * 10**9 + 999999999, rng.pick([0, 3600, -12600]))])
        others.append((tza, other))
        reqs.append(req_line('dt', s, tza, other))
    res, impl = compare(ctx, 'cli-relative', reqs)
    corr.append(res)
    for (s, total, at), rep in zip(rel, impl[:len(rel)]):
        n_or += 1
        want = 'some %d %s' % (total, 'other' if at else 'now')
        if rep != want:
            failures.append({'signature': 'cli:relative-duration-differs-from-documented', 'detail': f'{s!r}: {rep}, documented {want}', 'case': {'value': s}})
    for (s, total, at), (tza, other), rep in zip(rel, others, impl[len(rel):]):
        n_or += 1
        if at:
            if other == '-':
                want = 'exit'
            else:
                ns = int(other.split('/')[0])
                off = int(other.split('/')[1]) if '/' in other else TZARG_SECS[tza]
                want = 'some %d %d %d' % (ns // 10**9 + total, ns % 10**9, off)
        else:
            want = 'some %d 0 %d' % (NOW_NS // 10**9 + total, TZARG_SECS[tza])
        if rep != want:
            failures.append({'signature': 'cli:relative-instant-differs-from-documented', 'detail': f'{s!r} tz {tza} other {other}: {rep}, documented {want}',
                             'case': {'value': s, 'tz': tza, 'other': other}})
    # --- edges and mutants
    reqs = []
    for s in EDGE_DURS:
        reqs.append(req_line('dur', s))
        reqs.append(req_line('dt', s, '+00:00', '-'))
        reqs.append(req_line('dt', s, '-08:00', str(946684800 * 10**9)))
    base = [v for (_, v, _, _, exp, tag) in ab if tag[0] == 'abs'] + [s for s, _, _ in rel]
    nm = ctx.q(6000, 60000)
    muts = []
    for _ in range(nm):
        s = mutate(rng, rng.pick(base))
        if rng.chance(1, 6):
            s = mutate(rng, s)
        muts.append(s)
        other = rng.pick(['-', str(946684800 * 10**9)])
        reqs.append(req_line('dt', s, rng.pick(TZARGS), other))
        if rng.chance(1, 3):
            reqs.append(req_line('dur', s))
    res, impl = compare(ctx, 'cli-mutants', reqs)
    corr.append(res)
    # oracle on mutants: a string outside both grammars must not resolve
    abs_re = re.compile(r'(\d{4})(?:(\d\d)(\d\d)|-(\d\d)-(\d\d)|/(\d\d)/(\d\d))')
    rel_re = re.compile(r'@?[+-](\d+[wdhms])+')
    k = 0
    for r, rep in zip(reqs, impl):
        w = r.split(' ')
        if w[0] != 'dt':
            continue
        try:
            s = bytes.fromhex(w[1]).decode('utf-8') if w[1] != '-' else ''
        except ValueError:
            continue
        if rep.startswith('some') and not rel_re.fullmatch(s) and not abs_re.match(s) and not re.fullmatch(r'\+\d+', s) and rel_re.search(s):
            n_or += 1
            k += 1
            if k <= 40:
                failures.append({'signature': F5_SIG, 'detail': f'process_dt({s!r}) = {rep}: not of the documented grammar, accepted through an unanchored match',
                                 'case': {'value': s}})
    # --- --tz-offset values
    reqs = [req_line('tz', k) for k, _ in tz]
    for sg in '+-':
        for hh in (0, 1, 5, 9, 12, 14, 23, 24, 99):
            for mm in (0, 30, 45, 59, 60):
                reqs += [req_line('tz', '%s%02d:%02d' % (sg, hh, mm)), req_line('tz', '%s%02d%02d' % (sg, hh, mm))]
            reqs.append(req_line('tz', '%s%02d' % (sg, hh)))
    for s in ['', 'Z', 'z', 'UTC', 'utc', 'Utc', '+5', '0500', '+05:3', '+05:30:00', ' +05:30', '+05:30 ', '−05:30', '+05 30', '+05::30', 'PST8PDT', 'Europe/Paris']:
        reqs.append(req_line('tz', s))
    res, impl = compare(ctx, 'cli-tz-offset', reqs)
    corr.append(res)
    for (k_, v), rep in zip(tz, impl):
        n_or += 1
        if not v and rep != 'err':
            failures.append({'signature': 'cli:ambiguous-zone-accepted', 'detail': f'--tz-offset {k_}: {rep}', 'case': {'value': k_}})
        if v:
            want = 'ok %d' % ((-1 if v[0] == '-' else 1) * (int(v[1:3]) * 3600 + int(v[4:6]) * 60))
            if rep != want:
                failures.append({'signature': 'cli:tz-offset-differs-from-table', 'detail': f'--tz-offset {k_}: {rep} want {want}', 'case': {'value': k_}})
    return corr, failures, n_or


def check(ctx):
    ok_gen = core.step_gen(ctx, GEN)
    prove = core.step_prove(ctx, MODS) if ok_gen else {'module': ' '.join(MODS), 'obligations': 0, 'discharged': 0}
    ok_drv = core.step_drv(ctx) if (ok_gen or ctx.search_mode) else False
    ok_impl = core.step_build_impl(ctx, need_s4=True, need_harness=False)
    corr, orc = [], None
    if ok_impl and ok_drv:
        rows, tz = load_tables()
        if len(rows) < 1 or len(tz) < 1:
            ctx.broken.append({'kind': 'translator', 'name': 'Gen.CliTables', 'detail': 'could not read rows / tz table back from the generated file'})
        else:
            c1, f1, n1 = h2_part(ctx, rows, tz)
            o2, c2 = e2e_part(ctx, rows, tz)
            # first-match agreement (CliNoStealSpec): for every ordered pair (earlier row, later row) where the earlier row accepts values of the
            # later one, such values x zone spellings x --tz-offset through the real process_dt (H2), the model, and an independent oracle
            from vlib import cli_nosteal
            nrecs = cli_nosteal.records()
            if not ctx.thorough:
                nrecs = nrecs[::4]
            nreqs = sorted(set(r['line'] for r in nrecs))
            c3, impl3 = compare(ctx, 'cli-dt-nosteal', nreqs)
            rep = dict(zip(nreqs, impl3))
            for r in nrecs:
                exp = cli_nosteal.expected_reply(r)
                if r['line'] in rep and rep[r['line']] != exp:
                    f1.append({'signature': 'cli:first-matching-row-gives-another-instant', 'detail': f"value {r.get('value')!r} tz {r.get('tz')}: process_dt -> {rep[r['line']]}, documented {exp}",
                               'case': {'value': r.get('value'), 'tz': r.get('tz')}})
            n1 += len(nreqs)
            corr = c1 + [c2, c3]
            o1 = {'evaluations': n1, 'distinct_nontrivial': n1, 'failures': f1, 'samples': [],
                  'rule': 'H2 evaluation mode: every grammar value must resolve to its documented denotation (computed here from the calendar), every value with an '
                          'invalid date/time/zone and every mutant outside the grammars must not resolve; distinct = request lines'}
            orc = core.merge_oracles([o1, o2])
    return core.decide(ctx, prove, corr, orc, LEVEL_NOTE, ASSUME)


def replay(ctx, data):
    core.step_build_impl(ctx, need_s4=True, need_harness=False)
    core.step_drv(ctx)
    f = data.get('failure')
    if f:
        print('recorded failing input:', str(f)[:2000])
        case = f.get('case') or {}
        if 'a' in case or 'b' in case:
            probe = os.path.join(ctx.work, 'probe.log')
            open(probe, 'wb').write(b'2000-01-01 00:00:00 alpha\n')
            rc, out, err, got = run_ab(ctx, case.get('a'), case.get('b'), case.get('tz', '+00:00'), probe)
            print('re-run: rc', rc, 'summary', got)
        elif 'value' in case:
            r = req_line('dt', case['value'], case.get('tz', '+00:00'), case.get('other', '-'))
            print('re-run: impl', h2_eval([r]), 'model', drv_eval([r])[1])
    for b in data.get('broken_obligations', []) or []:
        print('broken obligation:', b.get('kind'), b.get('name'), '-', (b.get('detail') or '')[:600])
        for d in b.get('disagreements', []) or []:
            req = d['request']
            if req.startswith('cli ab'):
                print('request', req, '\n  impl :', d.get('impl'), '\n  model:', drv_eval([req[4:]])[1])
            else:
                print('request', req[:300], '\n  impl :', h2_eval([req[4:]]), '\n  model:', drv_eval([req[4:]])[1])
    return 0
