"""C10 — event-log files: every record once, ordered by creation time."""
import os
import re
import struct
import time

from vlib import core, e2e
from vlib.props.C08 import model_compare

MODS = ['S4V.Props.SortSpec', 'S4V.Props.FilterSpec']
SAMPLE = os.path.join(core.REPO, 'logs/programs/evtx/Microsoft-Windows-Kernel-PnP%4Configuration.evtx')
LEVEL_NOTE = ("Proved over the model of `insert into BTreeMap keyed (timestamp, enumeration index), pop_first until empty` with the key shape and the "
              "window function ts_pass_filters regenerated from evtxreader.rs on every run: every in-window record exactly once, ordered by creation time, equal "
              "times in enumeration (file) order, both bounds inclusive. Tied to the code by running the real binary on the shipped .evtx sample and on copies whose "
              "record-header timestamps are patched to create ties and disorder, against an independent (record id, timestamp) dump made with the evtx crate.")
ASSUME = ["the evtx crate parses records and their header timestamps correctly (used both by s4 and by the independent dump)",
          "XML rendering of a record is not modelled"]


def records(d):
    recs = []
    off = 4096
    while off + 512 <= len(d) and d[off:off + 8] == b'ElfChnk\0':
        p = off + 512
        free = struct.unpack_from('<I', d, off + 48)[0]
        while p < off + free and d[p:p + 4] == b'\x2a\x2a\x00\x00':
            size, rid, ft = struct.unpack_from('<IQQ', d, p + 4)
            if size < 24:
                break
            recs.append((p, size, rid, ft))
            p += size
        off += 65536
    return recs


def patched(rng, d):
    """copy of the sample with record-header timestamps rewritten: ties and disorder"""
    d = bytearray(d)
    recs = records(d)
    n = len(recs)
    for _ in range(rng.range(3, 25)):
        k = rng.below(n)
        j = rng.below(n)
        struct.pack_into('<Q', d, recs[k][0] + 16, recs[j][3] if rng.chance(2, 3) else recs[j][3] + rng.pick([-10, 10, 10_000_000]))
    # record ids in the record HEADERS (the XML keeps the original EventRecordID, which is what the oracle reads back):
    # among records of equal time make the header ids descend, repeat, or jump, so that nothing but the position in the
    # file can be the tie-break ("dirty" files with stale chunk copies really carry repeated ids)
    recs = records(d)
    by_ts = {}
    for i, r in enumerate(recs):
        by_ts.setdefault(r[3], []).append(i)
    for ts, idx in by_ts.items():
        if len(idx) < 2 or rng.chance(1, 3):
            continue
        mode = rng.below(3)
        ids = [recs[i][2] for i in idx]
        new = list(reversed(ids)) if mode == 0 else ([ids[0]] * len(ids) if mode == 1 else [rng.below(1 << 40) for _ in ids])
        for i, v in zip(idx, new):
            struct.pack_into('<Q', d, recs[i][0] + 8, v)
    return bytes(d)


def dump(path):
    rc, out, err, _ = core.run([core.S4H, 'evtx-dump', path], timeout=120)
    recs = []
    for l in out.decode().splitlines():
        w = l.split()
        if len(w) == 2 and w[0] != 'err':
            recs.append((int(w[0]), int(w[1])))
    return recs


def fmt_ns(ns):
    s, frac = divmod(ns, 1_000_000_000)
    return time.strftime('%Y-%m-%dT%H:%M:%S', time.gmtime(s)) + '.%06d' % (frac // 1000)


def oracle_and_corr(ctx):
    rng = e2e.Rng(ctx.seed * 59 + 31)
    base = open(SAMPLE, 'rb').read()
    nfiles = ctx.q(4, 16)
    failures, samples, reqs, impl = [], [], [], []
    ev = 0
    kinds = ['plain', 'gz', 'xz', 'bz2', 'lz4', 'tar']
    base_path = os.path.join(ctx.work, 'c10_base.evtx')
    open(base_path, 'wb').write(base)
    # printed <EventRecordID> (from the XML, never patched) -> position in the file
    xml_rid_to_idx = {}
    for i, (rid, ts) in enumerate(dump(base_path)):
        xml_rid_to_idx.setdefault(rid, i)
    os.unlink(base_path)
    for k in range(nfiles):
        data = base if k == 0 else patched(rng, base)
        kind = kinds[k % len(kinds)]
        plain = os.path.join(ctx.work, 'c10_%d.evtx' % k)
        open(plain, 'wb').write(data)
        recs = dump(plain)
        path = plain
        if kind != 'plain':
            path = plain + e2e.SUFFIX[kind]
            e2e.pack(data, kind, path, inner_name='c10_%d.evtx' % k)
        rid_to_idx = xml_rid_to_idx
        tss = [ts for _, ts in recs]
        for w in range(ctx.q(3, 6)):
            a = b = None
            mode = (w + k) % 4
            us_exact = [t for t in tss if t % 1000 == 0]
            pick = lambda: (rng.pick(us_exact) if us_exact and rng.chance(2, 3) else (rng.pick(tss) // 1000) * 1000 + rng.pick([0, 1000]))
            if mode == 1:
                a = pick()
            elif mode == 2:
                b = pick()
            elif mode == 3:
                a, b = sorted([pick(), pick()])
            args = []
            if a is not None:
                args += ['-a', fmt_ns(a)]
            if b is not None:
                args += ['-b', fmt_ns(b)]
            rc, out, err, _ = e2e.s4(e2e.BASE_ARGS + args + [path], timeout=300)
            ev += 1
            desc = {'file': os.path.basename(path), 'args': args, 'records': len(recs), 'ties': len(tss) - len(set(tss))}
            if b'panicked' in err or rc not in (0, 1):
                failures.append({'signature': 'evtx:crash', 'detail': f'rc={rc} {err[-300:]!r}', 'case': desc})
                continue
            rids = [int(x) for x in re.findall(rb'<EventRecordID>(\d+)</EventRecordID>', out)]
            idxs = [rid_to_idx.get(r, -1) for r in rids]
            keep = [(ts, i) for i, (rid, ts) in enumerate(recs) if (a is None or ts >= a) and (b is None or ts <= b)]
            exp = [i for ts, i in sorted(keep, key=lambda x: x[0])]
            if idxs != exp:
                failures.append({'signature': 'evtx:order-or-multiplicity', 'case': desc,
                                 'detail': f'printed {len(idxs)} records, expected {len(exp)}; first difference at position '
                                           f'{next((j for j, (x, y) in enumerate(zip(idxs, exp)) if x != y), min(len(idxs), len(exp)))}',
                                 'patched_timestamps': 'copy of the shipped sample; see check source for the patch PRNG (seed in replay)'})
            reqs.append('sort evtx %s %s %s' % ('n' if a is None else a, 'n' if b is None else b, ','.join(str(t) for t in tss)))
            impl.append(','.join(str(i) for i in idxs))
            if len(samples) < 3:
                samples.append({'oracle': 'C10 evtx', **desc, 'printed': len(idxs)})
        for p in {plain, path}:
            if os.path.exists(p):
                os.unlink(p)
    orc = {'evaluations': ev, 'distinct_nontrivial': len(set(reqs)), 'failures': failures, 'samples': samples,
           'rule': f'{nfiles} event-log files (the shipped sample, out of order at record 204, and copies with patched header timestamps giving ties and more disorder, and header record ids descending / repeated / random among tied records; '
                   'plain and each container) x windows on/next to record times; printed EventRecordIDs must be the stable sort by creation time of the in-window records '
                   'of an independent evtx-crate dump; distinct = distinct (window, timestamps) inputs'}
    corr = model_compare(ctx, 'sort-evtx', reqs, impl)
    return orc, [corr]


def check(ctx):
    ok_gen = core.step_gen(ctx, ['Keys', 'Filter'])
    prove = core.step_prove(ctx, MODS) if ok_gen else {'module': ' '.join(MODS), 'obligations': 0, 'discharged': 0}
    core.step_drv(ctx) if (ok_gen or ctx.search_mode) else False
    ok_impl = core.step_build_impl(ctx)
    orc, corr = (None, [])
    if ok_impl:
        orc, corr = oracle_and_corr(ctx)
    return core.decide(ctx, prove, corr, orc, LEVEL_NOTE, ASSUME)


def replay(ctx, data):
    return core.generic_replay(ctx, data)
