"""C19 — the summary agrees with what was printed."""
import re

from vlib import core, e2e
from vlib import print_common as pc

MODS = ['S4V.Props.PrintSpec', 'S4V.Props.SummarySpec', 'S4V.Props.SummaryReaderSpec']
LEVEL_NOTE = ("Proved over the model of the coordinator's accounting (SummaryPrinted::summaryprint_update_* / summaryprint_map_update_*, the separator and "
              "final-newline additions in processing_loop) run alongside the byte-level print model: `Printed bytes` = length of stdout with the colour escapes "
              "removed (C19_total_bytes, C19_total_bytes_stripped on the byte stream), = length of stdout literally under --color never (C19_total_bytes_nocolor); the "
              "unconditional equality is false (C19_total_bytes_full_false: escape bytes are written but not counted); per-file bytes + separators + supplied newlines = "
              "total (C19_per_file); message counters count the printed messages per kind, `Printed lines` counts the lines of printed text-log messages only, per-file "
              "lines/messages add up (C19_counts); first/last printed datetimes bound all printed instants and are attained (C19_first_last). What a print call RETURNS is proved too: the print buffer (capacity BUFFER_CAP generated from printers.rs), "
              "buffer_write_or_return!/buffer_flush_or_return!/setcolor_or_return! and the (printed, flushed) bookkeeping of all 8+8+4+4 variants (print_line's own tuple "
              "included) are modelled, with the ORDER of every returned `Ok((_, _))`, of every `Ok((p, f)) => ...`, and the `printed, flushed` arguments of every macro "
              "invocation extracted from the source: for every message (any lines, parts and lengths, also beyond the buffer), option set and colour state the first component "
              "returned equals the bytes written through the buffer, which are the message's slices in order, the buffer ends empty and stdout is what the unbuffered model "
              "writes (C19_printed_eq_written), it is the printedOf of the accounting theorems (C19_printed_is_printedOf) and literally len(stdout) without colour "
              "(C19_printed_eq_stdout_nocolor); with the tuple swapped in print_sysline_prependdate a 3000-byte message returns printed=2 for 3001 bytes written "
              "(swapped_printed_flushed_differs, crossed_printed_flushed_differs). Tied to the code by "
              "parsing the stderr of --summary runs of the real binary on sources of all kinds, windows and decoration options and comparing every number with the "
              "model's accounting of the same run (driver op `prt run`), with stdout itself compared byte for byte with the model and with the run without --summary; and in-process (harness component `prt`): the real "
              "print_sysline's returned (printed, flushed) and bytes on fd 1 equal the model's for real multi-part Syslines incl. messages beyond the buffer.")
ASSUME = ["the summary's `flushed` total is not compared end to end (the per-call `flushed` is modelled and compared in-process); the resolved -a/-b values are compared with the arguments given, resolution "
          "of relative forms is C14's subject",
          "per-file `datetime first/last` of event-log and journal files are taken by the summary from the reader, not from the printer; they are not compared"] \
    + __import__('vlib.props.C13', fromlist=['ASSUME']).ASSUME

NUM = {'bytes': rb'^Printed bytes\s+: (\d+)', 'lines': rb'^Printed lines\s+: (\d+)', 'syslines': rb'^Printed syslines\s+: (\d+)',
       'evtx': rb'^Printed evtx events\s+: (\d+)', 'fixed': rb'^Printed fixedstruct\s+: (\d+)', 'journal': rb'^Printed journal events\s+: (\d+)',
       'files_printed': rb'^Files printed\s+: (\d+)'}
DTL = {'a': rb'^Datetime filter -a\s+:(.*)$', 'first': rb'^Datetime printed first\s+:(.*)$', 'last': rb'^Datetime printed last\s+:(.*)$',
       'b': rb'^Datetime filter -b\s+:(.*)$'}
UTC_RE = re.compile(rb'\((\d{4})-(\d\d)-(\d\d) (\d\d):(\d\d):(\d\d) \+00:00\)')


def utc_sec(rest):
    m = UTC_RE.search(rest)
    if not m:
        return None
    y, mo, d, hh, mi, ss = (int(x) for x in m.groups())
    return pc.days_from_civil(y, mo, d) * 86400 + hh * 3600 + mi * 60 + ss


def parse_summary(err):
    err = pc.ESC_RE.sub(b'', err)
    tot = {}
    for k, rx in NUM.items():
        m = re.search(rx, err, re.M)
        tot[k] = int(m.group(1)) if m else None
    for k, rx in DTL.items():
        m = re.search(rx, err, re.M)
        tot[k] = utc_sec(m.group(1)) if m else 'missing'
    files = {}
    cur = None
    inpr = False
    for line in err.split(b'\n'):
        if line.startswith(b'File: '):
            cur = line[6:].decode(errors='replace').strip()
            files[cur] = {}
            inpr = False
        elif line.startswith(b'Program Summary'):
            cur = None
        elif cur is not None and line.strip() == b'Printed:':
            inpr = True
        elif cur is not None and inpr:
            if not line.startswith(b'      '):
                inpr = False
                continue
            m = re.match(rb'\s+([A-Za-z ]+?)\s*: (.*)$', line)
            if m:
                key = m.group(1).decode().strip()
                val = m.group(2)
                if key in ('datetime first', 'datetime last'):
                    files[cur][key] = utc_sec(val)
                elif re.fullmatch(rb'\d+', val.strip()):
                    files[cur][key] = int(val)
    return tot, files


def scenarios(ctx, rng):
    w = ctx.work
    scs = []
    for k in range(ctx.q(4, 14)):
        scs.append(pc.text_scenario(rng, w, k, nonascii=False, window=(k % 2 == 1)))
    # files whose timestamps go backwards here and there (two writers, a clock step): printed in file order; the
    # summary's first/last must still be the min/max of what was printed, per file and in total
    for k in range(ctx.q(3, 10)):
        scs.append(pc.text_scenario(rng, w, 60 + k, nonascii=False, window=False, steps=(0, 1, 2, 30, -1, -20, -3600, 3600)))
    scs.append(pc.wtmp_text_scenario(rng, w, 91))
    scs.append(pc.evtx_scenario(rng, w, 92 + ctx.seed % 3))
    scs.append(pc.journal_scenario(rng, w, 95, mode='short'))
    scs.append(pc.journal_scenario(rng, w, 96, mode='export'))
    if ctx.thorough:
        scs.append(pc.journal_scenario(rng, w, 99, mode='short-iso-precise', big=True))
    return scs


def oracle_and_corr(ctx):
    rng = e2e.Rng(ctx.seed * 67 + 41)
    cols = pc.colors_text()
    failures, samples = [], []
    res = {'component': 'prt-run-summary', 'cases': 0, 'disagreements': [], 'distinct': 0}
    reqs, cases = [], []
    ev = 0
    scs = scenarios(ctx, rng)
    per = ctx.q(28, 200)
    for sc in scs:
        for pr in sc.problems:
            failures.append({**pr, 'case': {'scenario': sc.name}})
        if sc.problems:
            continue
        for t in pc.option_tuples(rng, per):
            args = pc.tuple_args(t)
            rc0, out0, err0, _ = sc.run(args)
            rc, out, err, _ = sc.run(args, summary=True)
            ev += 1
            case = {'scenario': sc.name, 'args': sc.args(args) + ['-s'], 'files': [f['base'] for f in sc.files]}

            def fail(sig, det):
                failures.append({'signature': sig, 'detail': det, 'case': case})
            if b'panicked' in err or rc not in (0, 1):
                fail('summary:crash', f'rc={rc} {err[-300:]!r}')
                continue
            if out != out0:
                fail('summary:stdout-changed-by--summary', f'{len(out0)} B without -s, {len(out)} B with; first difference at '
                     f'{next((i for i, (x, y) in enumerate(zip(out, out0)) if x != y), min(len(out), len(out0)))}')
            if b'Program Summary' in out or (err0.strip() and b'Program Summary' in err0):
                fail('summary:written-to-the-wrong-stream', 'summary text outside stderr of the -s run')
            tot, files = parse_summary(err)
            if tot['bytes'] is None:
                fail('summary:unparsable', repr(err[-300:]))
                continue
            stripped = pc.ESC_RE.sub(b'', out)
            col = t[6]
            if tot['bytes'] != len(out):
                if col and tot['bytes'] == len(stripped):
                    fail('summary:escape-bytes-not-counted', f'Printed bytes {tot["bytes"]}, stdout {len(out)} B, without escapes {len(stripped)} B')
                else:
                    fail('summary:printed-bytes-mismatch', f'Printed bytes {tot["bytes"]}, stdout {len(out)} B, without escapes {len(stripped)} B')
            kinds = [m['kind'] for m in sc.msgs]
            exp = {'syslines': kinds.count('s'), 'fixed': kinds.count('f'), 'evtx': kinds.count('e'), 'journal': kinds.count('j'),
                   'lines': sum(len(m['lines']) for m in sc.msgs if m['kind'] == 's'), 'files_printed': len(set(m['pid'] for m in sc.msgs))}
            for k2, v in exp.items():
                if tot[k2] != v:
                    fail('summary:count-mismatch:' + k2, f'summary says {tot[k2]}, printed {v}')
            if all(k3 == 's' for k3 in kinds) and not t[5] and tot['lines'] != out.count(b'\n'):
                fail('summary:lines-differ-from-newlines-on-stdout', f'Printed lines {tot["lines"]}, stdout has {out.count(10)} newlines')
            if sc.msgs:
                lo = min(m['ns'] for m in sc.msgs) // 1_000_000_000
                hi = max(m['ns'] for m in sc.msgs) // 1_000_000_000
                if tot['first'] != lo or tot['last'] != hi:
                    fail('summary:first-last-datetime', f'summary first/last {tot["first"]}/{tot["last"]}, printed instants span {lo}/{hi}')
            a, b = sc.window
            if (a is not None or b is not None or sc.name.startswith('text')) and (tot['a'], tot['b']) != (a, b):
                fail('summary:filter-echo', f'-a/-b echoed as {tot["a"]}/{tot["b"]}, given {a}/{b}')
            # per file
            _, _, sepb = pc.fields(sc, t)
            added = sum(1 for m in sc.msgs if m['kind'] == 's' and m['last'] and not pc.payload(m).endswith(b'\n'))
            fsum = 0
            perfile = {}
            okfiles = True
            for i, fl in enumerate(sc.files):
                sec = files.get(fl['arg'])
                if sec is None:
                    cand = [v for k4, v in files.items() if k4.endswith('/' + fl['arg']) or k4.endswith(fl['base'])]
                    sec = cand[0] if len(cand) == 1 else None
                if sec is None or 'bytes' not in sec:
                    if any(m['pid'] == i for m in sc.msgs):
                        fail('summary:file-section-missing', fl['arg'])
                        okfiles = False
                    continue
                fsum += sec['bytes']
                nm = sec.get('syslines', 0) + sec.get('entries', 0) + sec.get('Events', 0) + sec.get('journal events', 0)
                if any(m['pid'] == i for m in sc.msgs) or (sec['bytes'], sec.get('lines', 0), nm) != (0, 0, 0):
                    # a file with nothing printed has no map_pathid_sumpr entry; the summary shows SummaryPrinted::default()
                    perfile[i] = (sec['bytes'], sec.get('lines', 0), nm)
                mine = [m['ns'] // 1_000_000_000 for m in sc.msgs if m['pid'] == i]
                if fl['kind'] == 's' and mine and (sec.get('datetime first'), sec.get('datetime last')) != (min(mine), max(mine)):
                    fail('summary:file-first-last-datetime', f'{fl["arg"]}: {sec.get("datetime first")}/{sec.get("datetime last")} vs {min(mine)}/{max(mine)}')
            if okfiles and fsum + len(sepb) * len(sc.msgs) + added != tot['bytes']:
                fail('summary:per-file-bytes-do-not-add-up', f'files {fsum} + separators {len(sepb)}x{len(sc.msgs)} + newlines {added} != total {tot["bytes"]}')
            reqs.append(pc.run_request(sc, t, cols))
            cases.append((out, tot, perfile, case))
            if len(samples) < 4 and ev % 13 == 1:
                samples.append({'oracle': 'C19 summary', **case, 'stdout_bytes': len(out), 'printed_bytes': tot['bytes']})
    # model accounting vs the summary
    rc, model = pc.drive(reqs) if reqs else (0, [])
    res['cases'] = len(reqs)
    res['distinct'] = len(set(reqs))
    nd = 0
    if rc != 0 or len(model) != len(reqs):
        ctx.broken.append({'kind': 'correspondence', 'name': 'prt-run-summary', 'detail': f'driver rc={rc} replies={len(model)} of {len(reqs)}'})
    else:
        for r, (out, tot, perfile, case), m in zip(reqs, cases, model):
            w = m.split(' ')
            try:
                ti = w.index('T')
                fi = w.index('F')
                mt = [int(x) for x in w[ti + 1:ti + 7]]
                mf = [None if x == 'n' else int(x) // 1_000_000_000 for x in w[ti + 7:ti + 9]]
                mper = {int(x.split(':')[0]): tuple(int(y) for y in x.split(':')[1:]) for x in w[fi + 1:]}
            except (ValueError, IndexError):
                mt, mf, mper = None, None, None
            it = [tot['bytes'], tot['lines'], tot['syslines'], tot['fixed'], tot['evtx'], tot['journal']]
            impl_s = f'{pc.hx(out)} {it} {[tot["first"], tot["last"]]} {sorted(perfile.items())}'
            model_s = f'{w[0]} {mt} {mf} {sorted(mper.items()) if mper is not None else None}'
            if impl_s != model_s:
                nd += 1
                if len(res['disagreements']) < 5:
                    res['disagreements'].append({'request': r[:2000], 'impl': impl_s[-400:], 'model': model_s[-400:], 'case': case})
        res['samples'] = [{'request': reqs[0][:300], 'reply': model[0][-200:]}] if reqs else []
    res['n_disagreements'] = nd
    if nd:
        d = res['disagreements'][0]
        ctx.broken.append({'kind': 'correspondence', 'name': 'prt-run-summary',
                           'detail': f"{nd} disagreement(s); first: {d['case']['args']} impl=…{d['impl'][-200:]} model=…{d['model'][-200:]}",
                           'disagreements': res['disagreements'][:3]})
        ctx.log(f'correspondence prt-run-summary: {nd} DISAGREEMENTS', res['disagreements'][0]['impl'][-300:], res['disagreements'][0]['model'][-300:])
    else:
        ctx.log(f'correspondence prt-run-summary: {len(reqs)} cases agree')
    ctx.steps.setdefault('correspond', []).append({k: v for k, v in res.items() if k != 'disagreements'})
    orc = {'evaluations': ev, 'distinct_nontrivial': len(set(reqs)), 'failures': failures, 'samples': samples,
           'rule': f'{len(scs)} scenarios (1-3 text logs with and without -a/-b windows, wtmp + text, evtx, journal short/export) x {per} decoration tuples, each run '
                   'with and without -s: stdout identical; `Printed bytes` = len(stdout) (without escapes under --color always = known finding F6); message and '
                   'line counters = printed messages per kind / text-log lines; per-file bytes + separators + supplied newlines = total; first/last = min/max '
                   'printed instant; -a/-b echoed as given; distinct = distinct model requests'}
    return orc, [res]


def oracle_long_messages(ctx):
    """Messages longer than the printers' 2056-byte buffer (single long lines, and multi-line messages of
    several KiB) under each prefix option set: `Printed bytes` must equal the bytes on stdout and the
    per-file byte counts plus separators must add up to it; stdout identical with and without -s."""
    import os
    rng = e2e.Rng(ctx.seed * 97 + 11)
    fails, ev = [], 0

    def fail(sig, detail, case):
        fails.append({'signature': sig, 'detail': detail, 'case': case})
    for k in range(ctx.q(2, 10)):
        paths = []
        for fi in range(2):
            lines = []
            t = 1600000000 + rng.below(1000)
            for i in range(rng.range(6, 14)):
                t += rng.pick([0, 1, 3])
                kind = rng.below(4)
                head = e2e.fmt_ts(t).encode() + b' f%c ' % (97 + fi)
                if kind == 0:
                    lines.append(head + b'x' * rng.range(2100, 5000) + b'\n')
                elif kind == 1:
                    lines.append(head + b'start\n' + b''.join(b'  cont ' + b'y' * rng.range(60, 120) + b'\n' for _ in range(rng.range(30, 60))))
                else:
                    lines.append(head + e2e.text_line(rng, 5, 60, weird=False) + b'\n')
            p = os.path.join(ctx.work, 'long_%d_%d.log' % (k, fi))
            open(p, 'wb').write(b''.join(lines))
            paths.append(p)
        for extra in ([], ['-n'], ['-u'], ['-u', '-n'], ['-l', '-p'], ['-z=+05:30', '-d=%s'], ['-u', '--separator=@@']):
            args = ['--color=never', '-t', '+00:00'] + extra + paths
            rc0, out0, err0, _ = e2e.s4(args)
            rc1, out1, err1, _ = e2e.s4(args + ['-s'])
            ev += 2
            case = {'args': extra, 'files': [os.path.basename(p) for p in paths]}
            if out0 != out1:
                fail('summary:stdout-changed-by-summary', f'{len(out0)} vs {len(out1)} bytes', case)
                continue
            tot, files = parse_summary(err1)
            if tot.get('bytes') != len(out1):
                fail('summary:printed-bytes-mismatch', f'Printed bytes {tot.get("bytes")}, stdout {len(out1)} B (messages longer than the 2056-byte print buffer)', case)
            nl = out1.count(b'\n') - (out1.count(b'@@') and 0)
            if tot.get('lines') is not None and tot['lines'] != out1.replace(b'@@', b'').count(b'\n'):
                fail('summary:printed-lines-mismatch', f'Printed lines {tot["lines"]}, stdout has {out1.count(10)} newlines', case)
        for p in paths:
            os.unlink(p)
    return {'evaluations': ev, 'distinct_nontrivial': ev, 'failures': fails, 'samples': [],
            'rule': 'two text logs with messages of 2-5 KiB (single lines and 30-60-line messages) x 7 prefix/separator option sets, --color never: '
                    'Printed bytes == len(stdout), Printed lines == newlines on stdout, stdout unchanged by -s'}


def check(ctx):
    from vlib.props.C13 import corr_prt
    ok_gen = core.step_gen(ctx, ['Print', 'Summary', 'Filter'])
    prove = core.step_prove(ctx, MODS) if ok_gen else {'module': ' '.join(MODS), 'obligations': 0, 'discharged': 0}
    ok_drv = core.step_drv(ctx) if (ok_gen or ctx.search_mode) else False
    ok_impl = core.step_build_impl(ctx, need_harness=True)
    orc, corr = (None, [])
    if ok_impl and ok_drv:
        orc, corr = oracle_and_corr(ctx)
        # the real SummaryPrinted update / map-update functions in-process vs the interpreter of the regenerated accounting
        corr = corr + [corr_prt(ctx), core.correspond(ctx, 'summ', ctx.q(2000, 20000))]
        orc = core.merge_oracles([orc, oracle_long_messages(ctx)])
    return core.decide(ctx, prove, corr, orc, LEVEL_NOTE, ASSUME)


def replay(ctx, data):
    return core.generic_replay(ctx, data)
