"""C02 — every message of a text log is printed exactly once, byte for byte."""
from vlib import core, text_oracles

# PrintSpec: the printer writes exactly the message's slices, in order, through its 2056-byte buffer (C19_printed_eq_written, C13_parts_bytes)
MODS = ['S4V.Props.SyslSpec', 'S4V.Props.LinesSpec', 'S4V.Props.CacheSpec', 'S4V.Props.SyslCacheSpec', 'S4V.Props.SearchSkelSpec', 'S4V.Props.PrintSpec', 'S4V.Props.LineSkelSpec', 'S4V.Props.GateSkelSpec', 'S4V.Props.LineSkel2Spec']
LEVEL_NOTE = ("Proved for every parser P, every byte string and every block size: lines tile the file (lines_partition, findLine_spec), messages "
              "(a timestamped line + following lines) are contiguous, start at the first timestamped line and end at the last byte (messages_partition), "
              "find_sysline returns the message containing the offset (findSysline_spec) and the streaming loop emits every message exactly once in file order "
              "(streamAll_unfiltered); the two line walks of find_sysline_year and the streaming loop are also regenerated from the source as skeletons whose interpreters are proved equal "
              "to these models (SearchSkelSpec: C02_findSysline_skeleton_is_model, C02_stream_generated_unfiltered). Models tied to the code by in-process differential runs of LineReader / SyslineReader (random access, warm caches, drops, gz) "
              "and of the block-zero gate. The SyslineReader's own stored state (syslines, syslines_by_range, the find_sysline LRU; lookup order and invalidation "
              "regenerated from syslinereader.rs as Gen.SyslCache) is modelled and proved sound for every history of finds, in-block finds, drops, clears and removes "
              "(SyslCacheSpec: findSyslineCached_sound - never a wrong message; runOps_transparent_nodrop; streaming_discipline: the find-then-drop pattern of "
              "exec_syslogprocessor is answered exactly), tied by component `syslc` (one real SyslineReader per history, LRU on and off). Two latent library defects outside the binary's "
              "access pattern are proved as counter-models and reproduced on the real reader (find after drop of the same message panics; an in-block find at a continuation "
              "offset poisons the LRU). The printer writes exactly the message's parts in order through its buffer (PrintSpec: C13_parts_bytes, C19_printed_eq_written; component prt); the binary's stdout is compared with the file suffix. The gate is bs-dependent: known findings F1/F2.")
ASSUME = ["which lines carry a timestamp (regex + chrono) is a parameter P of the theorems; generated inputs make the real patterns agree with the driver's P",
          "SyslineReader cache transparency is proved for the histories the binary produces (forward finds with drops behind them) and for drop-free histories; for arbitrary histories "
          "only soundness-or-panic holds (transparent_full_false); completion of the in-block walk is an observed input bit of the cached model",
          "printing: the model of print_sysline_* (parts, 2056-byte buffer) is shared with C13/C19; its macro bodies are regenerated from printers.rs (Gen.Print) and it is tied by component `prt` (real PrinterLogMessage on real Syslines)"]


def oracle_yearless_rollover(ctx):
    """text logs whose timestamps carry NO year and cross a New Year: the year pass walks the file backwards, removes and re-reads messages; whatever it does,
    stdout must still be the file's bytes (seeded change C02-e left a stale entry behind remove_sysline: the thread panicked, nothing was printed)"""
    import calendar
    import os
    import time as _t
    from vlib import e2e
    rng = e2e.Rng(ctx.seed * 389 + 3)
    fails, ev = [], 0
    for k in range(ctx.q(3, 12)):
        t = calendar.timegm((2020, 12, 31, 23, 59, 40)) - rng.below(3) * 86400
        lines = []
        for i in range(rng.range(6, 40)):
            t += rng.pick([0, 1, 7, 3600, 40000])
            lines.append((_t.strftime('%b %e %H:%M:%S', _t.gmtime(t)) + ' host prog[%d]: r%03d ' % (100 + i, i)).encode() + e2e.text_line(rng, 3, 40, weird=False) + b'\n')
            if rng.chance(1, 4):
                lines.append(b'    continuation of r%03d\n' % i)
        data = b''.join(lines)
        path = os.path.join(ctx.work, 'c02_rollover_%d.log' % k)
        open(path, 'wb').write(data)
        os.utime(path, (t + 3600, t + 3600))
        for extra in ([], ['--blocksz', '64'], ['--blocksz', str(rng.pick([100, 256, 1000]))]):
            rc, out, err, _ = text_oracles.run_plain(path, extra)
            ev += 1
            if rc != 0 or out != data:
                fails.append({'signature': 'bytes:stdout-differs-from-file', 'detail': f'year-less log crossing New Year, args {extra}: rc={rc}, {len(out)} bytes printed, file has {len(data)}; stderr {err[-160:]!r}',
                              'args': e2e.BASE_ARGS + extra + ['FILE'], 'file_hex': data.hex() if len(data) < 6000 else 'large'})
        os.unlink(path)
    return {'evaluations': ev, 'distinct_nontrivial': ev, 'failures': fails, 'samples': [],
            'rule': 'year-less (RFC 3164) logs crossing 31 December -> 1 January with the modification time in January, at three block sizes: stdout == the file\'s bytes'}


def oracle(ctx):
    a = text_oracles.oracle_bytes(ctx, ctx.q(40, 400))
    b = text_oracles.known_gate_witnesses(ctx)
    c = text_oracles.search_from_disagreements(ctx, getattr(ctx, 'corr_results', []))
    d = oracle_yearless_rollover(ctx)
    return core.merge_oracles([a, b, c, d])


def check(ctx):
    return core.standard_check(ctx, ['Blocks', 'Filter', 'Consts', 'Print', 'SyslCache', 'Search', 'Lines', 'LinesMutants', 'Lines2', 'Lines2Mutants', 'Gate', 'GateMutants'], MODS,
                               [('sysl', 1500, 20000), ('syslc', 6000, 60000), ('srch', 600, 4000), ('line', 800, 8000), ('lskel', 1500, 10000), ('gskel', 150, 2000), ('gate', 150, 2000), ('proc', 400, 6000), ('prt', 600, 8000)], oracle, LEVEL_NOTE, ASSUME)


def replay(ctx, data):
    return core.generic_replay(ctx, data)
