"""C16 — the reader for a file is chosen from its name alone, for every name."""
from vlib import core

LEVEL_NOTE = ("Theorems are about the Lean model `Path.classify` over tables regenerated from "
              "src/readers/filepreprocessor.rs; the control flow of the model is tied to the code by "
              "in-process differential runs of `path_to_filetype`. Rust std `Path::{file_name,extension,"
              "with_extension,with_file_name}` and `str::{trim_*,to_ascii_lowercase}` are modelled by hand on byte names.")
ASSUME = ["Rust std Path/OsStr semantics as modelled in S4V/Model/Path.lean (validated differentially, exhaustively for names up to length 4-5 over a 5-symbol alphabet)"]


def check(ctx):
    ok_gen = core.step_gen(ctx, ['PathTables'])
    prove = core.step_prove(ctx, 'S4V.Props.C16') if ok_gen else {'module': 'S4V.Props.C16', 'obligations': 0, 'discharged': 0}
    ok_drv = core.step_drv(ctx) if (ok_gen or ctx.search_mode) else False
    ok_impl = core.step_build_impl(ctx, need_s4=False)
    corr = []
    if ok_drv and ok_impl:
        corr.append(core.correspond(ctx, 'path', ctx.q(30000, 600000)))
    orc = None
    if ok_impl:
        # the search starts from the names on which model and implementation disagreed
        names = []
        for c in corr:
            for d in c.get('disagreements', [])[:40]:
                w = d['request'].split()
                if len(w) == 4 and w[2] not in names and w[2] != '-':
                    names.append(w[2])
        orc = core.harness_oracle(ctx, 'path-oracle', ctx.q(3000, 60000), extra=names,
                                  rule=
                                  'metamorphic relations on the real path_to_filetype: rotation/case/junk/compress/'
                                  'type-word/default-text/dir-independence/explicit-always over generated names; '
                                  'distinct = distinct case descriptions')
    return core.decide(ctx, prove, corr, orc, LEVEL_NOTE, ASSUME)


def replay(ctx, data):
    core.step_build_impl(ctx, need_s4=False)
    core.step_drv(ctx)
    f = data.get('failure') or {}
    print('replay: failure recorded:', f)
    for b in data.get('broken_obligations', []):
        for d in b.get('disagreements', []) or []:
            rc, out, _, _ = core.run([core.S4H, 'path', '--replay', '-'], input=(d['request'] + '\n').encode())
            rc2, out2, _, _ = core.run([core.DRV], input=(d['request'] + '\n').encode())
            print('request', d['request'], '\n  impl :', out.decode().strip(), '\n  model:', out2.decode().strip())
    return 0
