"""C08 — accounting-record files: every record once, in time order."""
import os
import re
import struct

from vlib import core, e2e
from vlib.coord_common import first_diff

MODS = ['S4V.Props.SortSpec', 'S4V.Props.FilterSpec', 'S4V.Props.FixedSpec', 'S4V.Props.FixedRenderSpec', 'S4V.Props.LayoutDetectSpec', 'S4V.Props.FixedWalkSpec', 'S4V.Props.FixedWalkManySpec']
LEVEL_NOTE = ("Proved over the model of `insert into BTreeMap, walk in key order` with the key shape, the window comparisons and the null-record test "
              "regenerated from fixedstructreader.rs on every run: every non-null in-window record exactly once, ordered by time value, equal times in file order "
              "(C08_order = stable sort), both window bounds inclusive. WHICH value is the record's time is proved too (FixedSpec), over a table regenerated from "
              "fixedstruct.rs for all 16 FixedStructType layouts (record size, offset_tv, size_tv, the primitive type tv_pair_from_buffer reads, the declared type and "
              "computed offset of the struct's time field): the ordering/filtering value is the time field read with its DECLARED type at its DECLARED offset "
              "(C08_tv_types_agree by decide over the table, C08_tv_denotes, C08_tv_monotone_unsigned for u32 fields across 2^31, C08_file_order over record bytes). "
              "Tied to the code by (1) the real tv_pair_from_buffer and FixedStruct::new on random/boundary records of every layout against the model (component `fixed`), "
              "(2) the real binary on synthesised Linux wtmp (utmpx), pacct (acct_v3) and lastlog files with times across 2^31, comparing the printed record order with the "
              "model's (`sort fixed` on times, `fixed sort` on the record bytes). The text of a record is proved too (FixedRenderSpec over Gen.FixedRender: every arm of FixedStruct::as_bytes translated into a render program, "
              "fields resolved to offset/size/type from the struct definitions, the 14 set_buffer_at_or_err_* macro bodies pinned): for all 16 layouts every read lies inside the one "
              "struct field the op names and inside the record (C08_render_fields_in_bounds, C08_render_locality: the line of record k depends only on record k's bytes); the line is "
              "label/value pieces with pairwise distinct non-empty labels, each value the canonical text of the decoded field (C08_render_shape); shown + omitted = all fields "
              "(C08_render_covers_fields, omitted list per layout); every number is read with the field's declared type (C08_render_types_agree); the datetime shown is the field the "
              "sort key comes from (C08_render_time_is_key_field); different values of a shown number render differently (C08_render_injective_on_shown_num). Tied by component `frender`: "
              "the real FixedStruct::new + as_bytes on random/structured records of every layout, byte for byte.")
ASSUME = ["the Linux x86_64 utmpx, acct_v3 (pacct) and lastlog layouts are synthesised end to end; the other 13 layouts are covered by the in-process correspondences "
          "`fixed` (time value) and `frender` (text) and the shipped samples",
          "as_bytes: text fields with bytes >= 0x80 print NUL bytes (c_char is i8), a newline inside a text field splits the line, the trailing NUL (F12) - modelled as coded, "
          "proved as counter-models (C08_render_injective_on_shown_full_false, C08_render_single_line_full_false)",
          "layout detection is modelled as coded (LayoutDetectSpec over Gen.LayoutDetect: candidate rows of filesz_to_types, the 16 score programs translated from score_fixedstruct with the 8 "
          "scoring macros pinned, the sampling limit and the comparison operators of score_file, the ordered candidate set): every layout is a candidate of every file of n records of it "
          "(C08_candidates_by_size_full_holds; the missing NetBSD amd64 lastlogx row was repaired by 4785b3f3), the chosen layout is the first maximum in declaration order and a function of the bytes "
          "(C08_choice_deterministic; the run-to-run dependence on the HashMap seed was repaired by dcd20bd2), only the first 5 non-null records are scored (C08_choice_depends_on_sampled_prefix); "
          "tie: component `layout` (real FixedStructReader::new / score_fixedstruct vs the model). Detection is a heuristic: a well-formed acct_v3 record can score higher as acct "
          "(C08_kind_bonus_decides_full_false, known finding F32); the scorer's CStr::from_ptr can read past a record without NUL (C08_score_reads_in_bounds_full_false, excluded from the comparison)",
          "byte order: both readers are native pointer reads; the model decodes little-endian (x86_64 / aarch64 builds)",
          "struct layout computation in the translator assumes x86_64 C layout (primitive alignment = size); all 167 assertcp_eq! layout assertions of "
          "fixedstruct.rs are re-checked against it on every run",
          "chrono's accepted range of epoch seconds in FixedStruct::new is a measured constant of the model (cross-checked by `fixed`)"]


def user_of(i):
    """every fourth record's ut_user fills all 32 bytes of the field (glibc does not NUL-terminate a name of maximal length): the printed value
    must stop at the field's end (seeded change C08-e read on into ut_host)"""
    u = b'user%d' % i
    return u.ljust(32, b'u') if i % 4 == 3 else u


def line_of(i):
    ln = b'pts/%d' % i
    return ln.ljust(32, b'l') if i % 8 == 7 else ln


def rec(i, sec, usec, typ=7):
    b = bytearray(384)
    struct.pack_into('<h', b, 0, typ)
    struct.pack_into('<i', b, 4, 1000 + i)
    line = line_of(i)
    b[8:8 + len(line)] = line
    b[40:44] = b'%04d' % (i % 10000)
    user = user_of(i)
    b[44:44 + len(user)] = user
    host = b'host%d.example' % i
    b[76:76 + len(host)] = host
    struct.pack_into('<ii', b, 340, sec, usec)
    return bytes(b)


LINE_RE = re.compile(rb"ut_type (\w+) ut_pid (\d+) ut_line '([^']*)' ut_id '([^']*)' ut_user '([^']*)' ut_host '([^']*)' "
                     rb"e_termination (-?\d+) e_exit (-?\d+) ut_session '(-?\d+)' ut_xtime (\d+)\.(\d+) ut_addr ([\d.]+)")


def gen_times(rng, n):
    base = 1700000000 + rng.below(1000)
    pool = [(base + rng.below(6), rng.pick([0, 0, 1, 500000])) for _ in range(max(2, n // 2))]
    out = []
    for _ in range(n):
        r = rng.below(10)
        if r <= 1:
            out.append((0, 0))                        # null record
        elif r < 6:
            out.append(rng.pick(pool))                # ties likely
        else:
            out.append((base + rng.below(20), rng.below(1000000)))
    return out


def run_case(ctx, rng, k, kind='plain'):
    # mostly small files; every 12th file spans more than one 64 KiB block (171+ records)
    n = rng.range(171, 230) if k % 12 == 5 else rng.range(1, 14)
    times = gen_times(rng, n)
    if all(t == (0, 0) for t in times):
        times[0] = (1700000001, 1)
    # a null record is either an all-zero slot (as wtmp files really contain) or a filled record whose time is (0, 0)
    # ... or (every 5th file) an all-0xFF slot, which the reader documents as a null record too: its time reads as -1, it enters the
    # time-ordered map, FixedStruct::new rejects it, and the walk must go on to the next record (seeded change C08-d: the resume offset was lost)
    def null_slot():
        if k % 5 == 3 and rng.chance(1, 2):
            return b'\xff' * 384
        return bytes(384)
    data = b''.join((null_slot() if (s, u) == (0, 0) and rng.chance(2, 3) else rec(i, s, u)) for i, (s, u) in enumerate(times))
    path = os.path.join(ctx.work, 'c08_%d.wtmp%s' % (k, e2e.SUFFIX[kind]))
    e2e.pack(data, kind, path, inner_name='c08.wtmp')
    secs = sorted(set(s for s, _ in times if s))
    mode = rng.below(4)
    a = b = None
    if mode == 1:
        a = rng.pick(secs)
    elif mode == 2:
        b = rng.pick(secs)
    elif mode == 3:
        a, b = sorted([rng.pick(secs), rng.pick(secs)])
    args = []
    if a is not None:
        args += ['-a', '+%d' % a]
    if b is not None:
        args += ['-b', '+%d' % b]
    rc, out, err, _ = e2e.s4(e2e.BASE_ARGS + args + [path])
    os.unlink(path)
    return times, a, b, args, rc, out, err, data


def analyse(times, a, b, args, rc, out, err, data, kind):
    """returns (printed idx list or None, failures)"""
    fails = []
    desc = {'times': times, 'args': args, 'kind': kind}
    if b'panicked' in err or rc not in (0, 1):
        fails.append({'signature': 'fixedstruct:crash', 'detail': f'rc={rc} {err[-300:]!r}', 'case': desc})
        return None, fails
    nul = out.count(b'\0')
    lines = [l for l in out.replace(b'\0', b'').split(b'\n') if l]
    idxs = []
    for l in lines:
        m = LINE_RE.fullmatch(l)
        if not m:
            fails.append({'signature': 'fixedstruct:unparsable-output-line', 'detail': repr(l[:200]), 'case': desc})
            return None, fails
        i = int(m.group(2)) - 1000
        idxs.append(i)
        s, u = times[i] if 0 <= i < len(times) else (None, None)
        own = (m.group(3) == line_of(i) and m.group(5) == user_of(i) and m.group(6) == b'host%d.example' % i
               and int(m.group(10)) == s and int(m.group(11)) == u and m.group(1) == b'USER_PROCESS')
        if not own:
            fails.append({'signature': 'fixedstruct:line-shows-foreign-field-values', 'detail': repr(l[:300]), 'case': desc})
    # reference: the property itself
    keep = [(t, i) for i, t in enumerate(times) if t != (0, 0)
            and (a is None or t >= (a, 0)) and (b is None or t <= (b, 0))]
    exp = [i for t, i in sorted(keep, key=lambda x: x[0])]     # python sort is stable
    if idxs != exp:
        fails.append({'signature': 'fixedstruct:order-or-multiplicity', 'detail': f'printed {idxs} expected {exp}', 'case': desc,
                      'file_hex': data.hex() if len(data) < 6000 else 'large'})
    if nul:
        fails.append({'signature': 'fixedstruct:nul-after-each-record', 'detail': f'{nul} NUL bytes in stdout after {len(lines)} records', 'case': desc})
    return idxs, fails


def oracle_and_corr(ctx):
    rng = e2e.Rng(ctx.seed * 53 + 29)
    n = ctx.q(60, 600)
    failures, samples, reqs, impl = [], [], [], []
    kinds = ['plain', 'plain', 'plain', 'gz', 'xz', 'bz2', 'lz4', 'tar']
    for k in range(n):
        kind = kinds[k % len(kinds)]
        times, a, b, args, rc, out, err, data = run_case(ctx, rng, k, kind)
        idxs, fails = analyse(times, a, b, args, rc, out, err, data, kind)
        failures += fails
        if idxs is not None:
            fa = 'n' if a is None else '%d:0' % a
            fb = 'n' if b is None else '%d:0' % b
            reqs.append('sort fixed %s %s %s' % (fa, fb, ','.join('%d:%d' % t for t in times)))
            impl.append(','.join(str(i) for i in idxs))
        if len(samples) < 3:
            samples.append({'oracle': 'C08 wtmp', 'times': times, 'args': args, 'kind': kind, 'printed': idxs})
    orc = {'evaluations': n, 'distinct_nontrivial': len(set(reqs)), 'failures': failures, 'samples': samples,
           'rule': f'{n} synthesised Linux x86_64 wtmp files (1-14 records; tied, null and out-of-order time values; plain and every container) x windows on record seconds; '
                   'printed order must be the stable sort by time of the non-null in-window records, each line must show its own field values; distinct = distinct (window, times) inputs'}
    corr = model_compare(ctx, 'sort-fixed', reqs, impl)
    return orc, [corr]


# ---------------------------------------------------------------- pacct (Linux acct_v3) and lastlog, times across 2^31

def rec_acct_v3(i, stored):
    """64-byte Linux acct_v3 record; `ac_version` 3, `ac_btime` (u32 @24) = stored, `ac_pid` identifies the record"""
    b = bytearray(64)
    struct.pack_into('<BBHIIIIII', b, 0, [1, 2, 0, 3, 8][i % 5], 3, 0, 0, 1000, 1000, 1000 + i, 1, stored & 0xFFFFFFFF)
    struct.pack_into('<f', b, 28, 0.0)
    c = b'cmd%d' % i
    b[48:48 + len(c)] = c
    return bytes(b)


def rec_lastlog(i, stored):
    """292-byte Linux lastlog record; `ll_time` (@0, 4 bytes) = stored"""
    b = bytearray(292)
    struct.pack_into('<I', b, 0, stored & 0xFFFFFFFF)
    x = b'pts/%d' % i
    b[4:4 + len(x)] = x
    h = b'host%d.example' % i
    b[36:36 + len(h)] = h
    return bytes(b)


ACCT_RE = re.compile(rb"ac_flag 0b[01]{4}(?: \([A-Z|]+\))? ac_version (\d+) ac_tty (\d+) ac_exitcode (\d+) ac_uid (\d+) ac_gid (\d+) ac_pid (\d+) "
                     rb"ac_ppid (\d+) ac_btime (-?\d+) ac_etime \S+ ac_utime \d+ ac_stime \d+ ac_mem \d+ ac_io \d+ ac_rw \d+ ac_minflt \d+ "
                     rb"ac_majflt \d+ ac_swaps \d+ ac_comm '([^']*)'")
LASTLOG_RE = re.compile(rb"ll_time (-?\d+) ll_line '([^']*)' ll_host '([^']*)'")


def parse_acct(l, stored_of):
    m = ACCT_RE.fullmatch(l)
    if not m:
        return None
    i = int(m.group(6)) - 1000
    own = m.group(1) == b'3' and m.group(9) == b'cmd%d' % i
    return i, int(m.group(8)), own


def parse_lastlog(l, stored_of):
    m = LASTLOG_RE.fullmatch(l)
    if not m or not m.group(2).startswith(b'pts/'):
        return None
    try:
        i = int(m.group(2)[4:])
    except ValueError:
        return None
    own = m.group(3) == b'host%d.example' % i
    return i, int(m.group(1)), own


# declared type of the time field as the property reads it (glibc: acct_v3.ac_btime is u32, lastlog.ll_time is int32_t on
# x86_64); the type the TRANSLATOR finds in the struct definition replaces it when the Fixed table was generated
FAMILIES = {
    'acct_v3': {'variant': 'Fs_Linux_x86_Acct_v3', 'size': 64, 'suffix': '.pacct', 'rec': rec_acct_v3, 'parse': parse_acct, 'decl': 'u32'},
    'lastlog': {'variant': 'Fs_Linux_x86_Lastlog', 'size': 292, 'suffix': '.lastlog', 'rec': rec_lastlog, 'parse': parse_lastlog, 'decl': 'i32'},
}


def declared(ctx, fam):
    f = FAMILIES[fam]
    try:
        row = ctx.steps['gen']['modules']['Fixed']['table'][f['variant']]
        if row[7] in ('u32', 'i32') and row[0] == f['size']:
            return row[7]
    except Exception:
        pass
    return f['decl']


def decode(stored, prim):
    stored &= 0xFFFFFFFF
    return stored - (1 << 32) if prim == 'i32' and stored >= 1 << 31 else stored


def gen_stored(rng, n):
    """stored 32-bit time values: around 2^31 (19 Jan 2038), far beyond, ordinary, ties, nulls; out of order"""
    H = 1 << 31
    anchors = [H - 2, H - 1, H, H + 1, H + 2, 1700000000, 1700000001, 946684800, (1 << 32) - 1, (1 << 32) - 2, H + 86400, 1]
    pool = [rng.pick(anchors) for _ in range(max(2, n // 2))]
    out = []
    for _ in range(n):
        r = rng.below(10)
        if r == 0:
            out.append(0)                                # null time
        elif r < 5:
            out.append(rng.pick(pool))                   # ties likely
        elif r < 8:
            out.append(rng.pick(anchors) + rng.below(3))
        else:
            out.append(rng.range(1, (1 << 32) - 4))
    return [x & 0xFFFFFFFF for x in out]


def run_case2(ctx, rng, k, fam, kind):
    f = FAMILIES[fam]
    n = rng.range(171, 215) if (fam == 'acct_v3' and k % 16 == 7) else rng.range(1, 14)
    stored = gen_stored(rng, n)
    if all(t == 0 for t in stored):
        stored[0] = 1700000001
    # a null record is an all-zero slot (lastlog files are mostly that) or a filled record whose time is 0
    recs = [(bytes(f['size']) if t == 0 and rng.chance(2, 3) else f['rec'](i, t)) for i, t in enumerate(stored)]
    data = b''.join(recs)
    path = os.path.join(ctx.work, 'c08_%s_%d%s%s' % (fam, k, f['suffix'], e2e.SUFFIX[kind]))
    e2e.pack(data, kind, path, inner_name='c08' + f['suffix'])
    prim = declared(ctx, fam)
    vals = sorted(set(v for v in (decode(t, prim) for t in stored) if v > 0))
    cand = vals + [1 << 31, (1 << 31) - 1, 1700000000]
    mode = rng.below(4)
    a = b = None
    if mode == 1:
        a = rng.pick(cand)
    elif mode == 2:
        b = rng.pick(cand)
    elif mode == 3:
        a, b = sorted([rng.pick(cand), rng.pick(cand)])
    args = []
    if a is not None:
        args += ['-a', '+%d' % a]
    if b is not None:
        args += ['-b', '+%d' % b]
    rc, out, err, _ = e2e.s4(e2e.BASE_ARGS + args + [path])
    os.unlink(path)
    return stored, recs, prim, a, b, args, rc, out, err


def analyse2(fam, stored, recs, prim, a, b, args, rc, out, err, kind):
    f = FAMILIES[fam]
    fails = []
    desc = {'family': fam, 'layout': f['variant'], 'stored_times': stored, 'declared_type': prim, 'args': args, 'kind': kind,
            'file_hex': b''.join(recs).hex() if len(recs) <= 20 else 'large'}
    if b'panicked' in err or rc not in (0, 1):
        fails.append({'signature': 'fixedstruct:crash', 'detail': f'rc={rc} {err[-300:]!r}', 'case': desc})
        return None, fails
    nul = out.count(b'\0')
    lines = [l for l in out.replace(b'\0', b'').split(b'\n') if l]
    idxs = []
    for l in lines:
        p = f['parse'](l, stored)
        if p is None:
            fails.append({'signature': 'fixedstruct:unparsable-output-line', 'detail': repr(l[:200]), 'case': desc})
            return None, fails
        i, shown, own = p
        idxs.append(i)
        if not (0 <= i < len(stored)) or not own or shown != decode(stored[i], prim):
            fails.append({'signature': 'fixedstruct:%s-line-shows-foreign-field-values' % fam,
                          'detail': f'record {i}: stored {stored[i] if 0 <= i < len(stored) else None} as {prim} = '
                                    f'{decode(stored[i], prim) if 0 <= i < len(stored) else None}, printed {shown}: ' + repr(l[:200]), 'case': desc})
    # reference: the property itself, on the record's time = the time field read with its declared type
    vals = [decode(t, prim) for t in stored]
    keep = [(v, i) for i, v in enumerate(vals) if v != 0 and (a is None or v >= a) and (b is None or v <= b)]
    exp = [i for v, i in sorted(keep, key=lambda x: x[0])]
    if idxs != exp:
        fails.append({'signature': 'fixedstruct:%s-order-or-window-by-declared-time' % fam,
                      'detail': f'printed {idxs} expected {exp} (times as {prim}: {vals})', 'case': desc})
    if nul:
        fails.append({'signature': 'fixedstruct:nul-after-each-record', 'detail': f'{nul} NUL bytes in stdout after {len(lines)} records', 'case': desc})
    return idxs, fails


def oracle_and_corr2(ctx):
    rng = e2e.Rng(ctx.seed * 131 + 7)
    n = ctx.q(96, 800)
    failures, samples, reqs, impl = [], [], [], []
    kinds = ['plain', 'plain', 'gz', 'plain', 'xz', 'bz2', 'lz4', 'tar']
    per = {}
    for k in range(n):
        fam = 'acct_v3' if k % 2 == 0 else 'lastlog'
        kind = kinds[(k // 2) % len(kinds)]
        stored, recs, prim, a, b, args, rc, out, err = run_case2(ctx, rng, k, fam, kind)
        idxs, fails = analyse2(fam, stored, recs, prim, a, b, args, rc, out, err, kind)
        failures += fails
        st = per.setdefault(fam, {'files': 0, 'records': 0, 'stored_ge_2^31': 0, 'printed': 0, 'windowed': 0})
        st['files'] += 1
        st['records'] += len(stored)
        st['stored_ge_2^31'] += sum(1 for t in stored if t >= 1 << 31)
        st['printed'] += len(idxs or [])
        st['windowed'] += 1 if args else 0
        if idxs is not None and len(recs) <= 40:
            fa = 'n' if a is None else '%d:0' % a
            fb = 'n' if b is None else '%d:0' % b
            reqs.append('fixed sort %s %s %s %s' % (FAMILIES[fam]['variant'], fa, fb, ','.join(r.hex() for r in recs)))
            impl.append(','.join(str(i) for i in idxs))
        if len(samples) < 4 and k % 2 == len(samples) % 2:
            samples.append({'oracle': 'C08 ' + fam, 'stored_times': stored, 'declared_type': prim, 'args': args, 'kind': kind, 'printed': idxs})
    orc = {'evaluations': n, 'distinct_nontrivial': len(set(reqs)), 'failures': failures, 'samples': samples, 'per_family': per,
           'rule': f'{n} synthesised Linux pacct (acct_v3, 64-byte records, ac_version 3) and lastlog (292-byte records) files, alternating (1-14 records, every 16th pacct 171+; '
                   'stored 32-bit times around and beyond 2^31 = 19 Jan 2038, ties, nulls, out of order; plain and every container) x windows on record times / 2^31; '
                   'printed order must be the stable sort of the non-null in-window records by the time field read with its DECLARED type (ac_btime u32, ll_time i32: taken from the '
                   'generated table), each line must show its own field values incl. that time; distinct = distinct (layout, window, record bytes) inputs'}
    corr = model_compare(ctx, 'fixed-sort', reqs, impl)
    return orc, [corr]


def model_compare(ctx, name, reqs, impl):
    res = {'component': name, 'cases': len(reqs), 'disagreements': [], 'distinct': len(set(reqs))}
    if not reqs:
        return res
    rc, out, err, w = core.run([core.DRV], input=('\n'.join(reqs) + '\n').encode(), timeout=600)
    model = out.decode(errors='replace').splitlines()
    if rc != 0 or len(model) != len(reqs):
        ctx.broken.append({'kind': 'correspondence', 'name': name, 'detail': f'driver rc={rc} replies={len(model)} of {len(reqs)}'})
        return res
    nd = 0
    for r, i, m in zip(reqs, impl, model):
        if i != m:
            nd += 1
            if len(res['disagreements']) < 10:
                res['disagreements'].append({'request': r, 'impl': i, 'model': m})
    res['n_disagreements'] = nd
    res['samples'] = [{'request': reqs[0][:300], 'reply': model[0][:200]}]
    if nd:
        d = res['disagreements'][0]
        ctx.broken.append({'kind': 'correspondence', 'name': name,
                           'detail': f"{nd} disagreement(s); first: {d['request'][:300]} impl={d['impl']} model={d['model']}",
                           'disagreements': res['disagreements'][:5]})
        ctx.log(f'correspondence {name}: {nd} DISAGREEMENTS', d)
    else:
        ctx.log(f'correspondence {name}: {len(reqs)} cases agree')
    ctx.steps.setdefault('correspond', []).append({k: v for k, v in res.items() if k != 'disagreements'})
    return res


AMBIGUOUS_V3 = bytes([0, 3, 0, 0, 0, 0, 0, 0, 0, 47, 104, 89, 0, 47, 104, 89, 210, 4, 0, 0, 1, 0, 0, 0, 0, 241, 83, 101, 0, 0, 192, 63] + [32] * 16
                     + [107, 119, 111, 114, 107, 101, 114] + [0] * 9)


def known_acct_v3_witness(ctx):
    """known finding F32: a well-formed acct_v3 record (LayoutDetectSpec.ambiguousV3) in a file named pacct is read as acct"""
    d = os.path.join(ctx.work, 'f32')
    os.makedirs(d, exist_ok=True)
    p = os.path.join(d, 'pacct')
    open(p, 'wb').write(AMBIGUOUS_V3)
    rc, out, err, _ = e2e.s4(e2e.BASE_ARGS + [p])
    fails = []
    if out and b' ac_pid ' not in out and b'ac_btime 1500000000' in out:
        fails.append({'signature': 'fixedstruct:acct-v3-read-as-acct', 'detail': 'the acct_v3 record (ac_btime 1700000000, ac_uid = ac_gid = 1500000000, ac_comm kworker) is printed with the '
                      'acct layout: ' + out[:160].decode('latin1'), 'file_hex': AMBIGUOUS_V3.hex(), 'name': 'pacct'})
    elif not out or b'ac_btime 1700000000' not in out:
        fails.append({'signature': 'fixedstruct:acct-v3-witness-unexpected', 'detail': f'rc={rc} stdout {out[:200]!r} stderr {err[-200:]!r}'})
    return {'evaluations': 1, 'distinct_nontrivial': 1, 'failures': fails, 'samples': [], 'rule': 'the acct_v3 / acct ambiguity witness of LayoutDetectSpec through the binary'}


def check(ctx):
    ok_gen = core.step_gen(ctx, ['Keys', 'Filter', 'Fixed', 'FixedRender', 'LayoutDetect', 'Blocks', 'Stream', 'FixedWalk'])
    prove = core.step_prove(ctx, MODS) if ok_gen else {'module': ' '.join(MODS), 'obligations': 0, 'discharged': 0}
    ok_drv = core.step_drv(ctx) if (ok_gen or ctx.search_mode) else False
    ok_impl = core.step_build_impl(ctx)
    orc, corr = (None, [])
    if ok_impl:
        if ok_drv:
            # the real tv_pair_from_buffer / FixedStruct::new on records of every layout vs the model over the generated table
            corr.append(core.correspond(ctx, 'fixed', ctx.q(3600, 16000)))
            # the real FixedStruct::as_bytes on records of every layout vs the render programs translated from it
            corr.append(core.correspond(ctx, 'frender', ctx.q(8000, 64000)))
            # which layout a file is read with: the real FixedStructReader::new / score_fixedstruct vs Model.LayoutDetect
            os.environ.setdefault('S4H_TMP', os.path.join(core.BUILD, 'tmp'))
            corr.append(core.correspond(ctx, 'layout', ctx.q(6000, 50000)))
            # the record walk: the real FixedStructReader (new / fileoffset_first / process_entry_at / summary) on files of every layout x
            # block sizes from 1 x windows x plain|gz, and direct BlockReader::read_data_to_buffer call sequences, vs Model.FixedWalk
            corr.append(core.correspond(ctx, 'fwalk', ctx.q(3000, 30000)))
        orc1, corr1 = oracle_and_corr(ctx)
        orc2, corr2 = oracle_and_corr2(ctx)
        # every layout, in-process: files through the real FixedStructReader driven as exec_fixedstructprocessor drives it;
        # order must be the stable sort by the time field read with its declared width/signedness (times across 2^31 / 2^32 / year 2100)
        orc3 = core.harness_oracle(ctx, 'fixedfile', ctx.q(480, 6400),
                                   'fixedfile: per layout (16) files of 2-13 plausible records (ties, null records, times across 2^31, 2^32 and 2100 where the field allows) '
                                   'through the real FixedStructReader (new / fileoffset_first / process_entry_at): each non-null record once, stable order by (sec, usec); files detected as another layout are skipped')
        orc = core.merge_oracles([orc1, orc2, orc3, known_acct_v3_witness(ctx)])
        corr += corr1 + corr2
    return core.decide(ctx, prove, corr, orc, LEVEL_NOTE, ASSUME)


def replay(ctx, data):
    return core.generic_replay(ctx, data)
