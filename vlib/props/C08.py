"""C08 — accounting-record files: every record once, in time order."""
import os
import re
import struct

from vlib import core, e2e
from vlib.coord_common import first_diff

MODS = ['S4V.Props.SortSpec', 'S4V.Props.FilterSpec']
LEVEL_NOTE = ("Proved over the model of `insert into BTreeMap, walk in key order` with the key shape, the window comparisons and the null-record test "
              "regenerated from fixedstructreader.rs on every run: every non-null in-window record exactly once, ordered by time value, equal times in file order "
              "(C08_order = stable sort), both window bounds inclusive. Tied to the code by running the real binary on synthesised wtmp files and comparing the printed "
              "record order with the model's. Field rendering (as_bytes) is compared with the generator's own values (testing).")
ASSUME = ["record -> text (FixedStruct::as_bytes, 16 layouts) is not modelled; only the Linux x86_64 utmp layout is synthesised, other layouts use the shipped samples",
          "layout detection (filesz_to_types / score_file) is not modelled"]


def rec(i, sec, usec, typ=7):
    b = bytearray(384)
    struct.pack_into('<h', b, 0, typ)
    struct.pack_into('<i', b, 4, 1000 + i)
    line = b'pts/%d' % i
    b[8:8 + len(line)] = line
    b[40:44] = b'%04d' % (i % 10000)
    user = b'user%d' % i
    b[44:44 + len(user)] = user
    host = b'host%d.example' % i
    b[76:76 + len(host)] = host
    struct.pack_into('<ii', b, 340, sec, usec)
    return bytes(b)


LINE_RE = re.compile(rb"ut_type (\w+) ut_pid (\d+) ut_line '([^']*)' ut_id '([^']*)' ut_user '([^']*)' ut_host '([^']*)' "
                     rb"e_termination (-?\d+) e_exit (-?\d+) ut_session '(-?\d+)' ut_xtime (\d+)\.(\d+) ut_addr ([\d.]+)")


def gen_times(rng, n):
    base = 1700000000 + rng.below(1000)
    pool = [(base + rng.below(6), rng.pick([0, 0, 1, 500000])) for _ in range(max(2, n // 2))]
    out = []
    for _ in range(n):
        r = rng.below(10)
        if r <= 1:
            out.append((0, 0))                        # null record
        elif r < 6:
            out.append(rng.pick(pool))                # ties likely
        else:
            out.append((base + rng.below(20), rng.below(1000000)))
    return out


def run_case(ctx, rng, k, kind='plain'):
    # mostly small files; every 12th file spans more than one 64 KiB block (171+ records)
    n = rng.range(171, 230) if k % 12 == 5 else rng.range(1, 14)
    times = gen_times(rng, n)
    if all(t == (0, 0) for t in times):
        times[0] = (1700000001, 1)
    # a null record is either an all-zero slot (as wtmp files really contain) or a filled record whose time is (0, 0)
    data = b''.join((bytes(384) if (s, u) == (0, 0) and rng.chance(2, 3) else rec(i, s, u)) for i, (s, u) in enumerate(times))
    path = os.path.join(ctx.work, 'c08_%d.wtmp%s' % (k, e2e.SUFFIX[kind]))
    e2e.pack(data, kind, path, inner_name='c08.wtmp')
    secs = sorted(set(s for s, _ in times if s))
    mode = rng.below(4)
    a = b = None
    if mode == 1:
        a = rng.pick(secs)
    elif mode == 2:
        b = rng.pick(secs)
    elif mode == 3:
        a, b = sorted([rng.pick(secs), rng.pick(secs)])
    args = []
    if a is not None:
        args += ['-a', '+%d' % a]
    if b is not None:
        args += ['-b', '+%d' % b]
    rc, out, err, _ = e2e.s4(e2e.BASE_ARGS + args + [path])
    os.unlink(path)
    return times, a, b, args, rc, out, err, data


def analyse(times, a, b, args, rc, out, err, data, kind):
    """returns (printed idx list or None, failures)"""
    fails = []
    desc = {'times': times, 'args': args, 'kind': kind}
    if b'panicked' in err or rc not in (0, 1):
        fails.append({'signature': 'fixedstruct:crash', 'detail': f'rc={rc} {err[-300:]!r}', 'case': desc})
        return None, fails
    nul = out.count(b'\0')
    lines = [l for l in out.replace(b'\0', b'').split(b'\n') if l]
    idxs = []
    for l in lines:
        m = LINE_RE.fullmatch(l)
        if not m:
            fails.append({'signature': 'fixedstruct:unparsable-output-line', 'detail': repr(l[:200]), 'case': desc})
            return None, fails
        i = int(m.group(2)) - 1000
        idxs.append(i)
        s, u = times[i] if 0 <= i < len(times) else (None, None)
        own = (m.group(3) == b'pts/%d' % i and m.group(5) == b'user%d' % i and m.group(6) == b'host%d.example' % i
               and int(m.group(10)) == s and int(m.group(11)) == u and m.group(1) == b'USER_PROCESS')
        if not own:
            fails.append({'signature': 'fixedstruct:line-shows-foreign-field-values', 'detail': repr(l[:300]), 'case': desc})
    # reference: the property itself
    keep = [(t, i) for i, t in enumerate(times) if t != (0, 0)
            and (a is None or t >= (a, 0)) and (b is None or t <= (b, 0))]
    exp = [i for t, i in sorted(keep, key=lambda x: x[0])]     # python sort is stable
    if idxs != exp:
        fails.append({'signature': 'fixedstruct:order-or-multiplicity', 'detail': f'printed {idxs} expected {exp}', 'case': desc,
                      'file_hex': data.hex() if len(data) < 6000 else 'large'})
    if nul:
        fails.append({'signature': 'fixedstruct:nul-after-each-record', 'detail': f'{nul} NUL bytes in stdout after {len(lines)} records', 'case': desc})
    return idxs, fails


def oracle_and_corr(ctx):
    rng = e2e.Rng(ctx.seed * 53 + 29)
    n = ctx.q(60, 600)
    failures, samples, reqs, impl = [], [], [], []
    kinds = ['plain', 'plain', 'plain', 'gz', 'xz', 'bz2', 'lz4', 'tar']
    for k in range(n):
        kind = kinds[k % len(kinds)]
        times, a, b, args, rc, out, err, data = run_case(ctx, rng, k, kind)
        idxs, fails = analyse(times, a, b, args, rc, out, err, data, kind)
        failures += fails
        if idxs is not None:
            fa = 'n' if a is None else '%d:0' % a
            fb = 'n' if b is None else '%d:0' % b
            reqs.append('sort fixed %s %s %s' % (fa, fb, ','.join('%d:%d' % t for t in times)))
            impl.append(','.join(str(i) for i in idxs))
        if len(samples) < 3:
            samples.append({'oracle': 'C08 wtmp', 'times': times, 'args': args, 'kind': kind, 'printed': idxs})
    orc = {'evaluations': n, 'distinct_nontrivial': len(set(reqs)), 'failures': failures, 'samples': samples,
           'rule': f'{n} synthesised Linux x86_64 wtmp files (1-14 records; tied, null and out-of-order time values; plain and every container) x windows on record seconds; '
                   'printed order must be the stable sort by time of the non-null in-window records, each line must show its own field values; distinct = distinct (window, times) inputs'}
    corr = model_compare(ctx, 'sort-fixed', reqs, impl)
    return orc, [corr]


def model_compare(ctx, name, reqs, impl):
    res = {'component': name, 'cases': len(reqs), 'disagreements': [], 'distinct': len(set(reqs))}
    if not reqs:
        return res
    rc, out, err, w = core.run([core.DRV], input=('\n'.join(reqs) + '\n').encode(), timeout=600)
    model = out.decode(errors='replace').splitlines()
    if rc != 0 or len(model) != len(reqs):
        ctx.broken.append({'kind': 'correspondence', 'name': name, 'detail': f'driver rc={rc} replies={len(model)} of {len(reqs)}'})
        return res
    nd = 0
    for r, i, m in zip(reqs, impl, model):
        if i != m:
            nd += 1
            if len(res['disagreements']) < 10:
                res['disagreements'].append({'request': r, 'impl': i, 'model': m})
    res['n_disagreements'] = nd
    res['samples'] = [{'request': reqs[0][:300], 'reply': model[0][:200]}]
    if nd:
        d = res['disagreements'][0]
        ctx.broken.append({'kind': 'correspondence', 'name': name,
                           'detail': f"{nd} disagreement(s); first: {d['request'][:300]} impl={d['impl']} model={d['model']}",
                           'disagreements': res['disagreements'][:5]})
        ctx.log(f'correspondence {name}: {nd} DISAGREEMENTS', d)
    else:
        ctx.log(f'correspondence {name}: {len(reqs)} cases agree')
    ctx.steps.setdefault('correspond', []).append({k: v for k, v in res.items() if k != 'disagreements'})
    return res


def check(ctx):
    ok_gen = core.step_gen(ctx, ['Keys', 'Filter'])
    prove = core.step_prove(ctx, MODS) if ok_gen else {'module': ' '.join(MODS), 'obligations': 0, 'discharged': 0}
    ok_drv = core.step_drv(ctx) if (ok_gen or ctx.search_mode) else False
    ok_impl = core.step_build_impl(ctx)
    orc, corr = (None, [])
    if ok_impl:
        if ok_drv:
            orc, corr = oracle_and_corr(ctx)
        else:
            core_drv = core.DRV
            orc, corr = oracle_and_corr(ctx)
    return core.decide(ctx, prove, corr, orc, LEVEL_NOTE, ASSUME)


def replay(ctx, data):
    return core.generic_replay(ctx, data)
