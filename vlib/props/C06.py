"""C06 — output is independent of thread scheduling and the run always ends."""
from vlib import core, coord_common, worker_traces
from vlib.props import C08 as _c08

MODS = ['S4V.Props.C06', 'S4V.Props.CoordSpec', 'S4V.Props.WorkerProtoSpec', 'S4V.Props.PoolSpec', 'S4V.Props.CoordSkelSpec', 'S4V.Props.CoordSkelMutants']
LEVEL_NOTE = ("Proved on the coordinator model of processing_loop (per-source FIFO channels of the capacity found in the source, wait condition, "
              "blocking select over un-filled channels, first-minimum print, channel removal): for EVERY schedule a finished run has printed merge(scripts) "
              "(confluence), the loop never leaves through the early-break path when every worker sends FileInfo first, some step is always enabled "
              "(no deadlock, capacity >= 1), iterations are bounded. That every worker sends FileInfo first is itself proved, over the control-flow skeleton of the four exec_*processor "
              "functions and their dispatcher regenerated from s4.rs on every run (Gen.Worker: every chan_send with its datum kind, every return/break/continue, in their branch and loop nesting; "
              "the spawn site's filter and sender ownership): every send-trace the thread skeleton can produce is FileInfo, then messages, then at most one FileSummary and nothing after it "
              "(WorkerProtoSpec: W_thread_tidy, by a protocol-automaton analysis proved sound once), so the C06 theorems hold without the WF hypothesis (C06_no_deadlock_skeletons, "
              "C06_never_stops_early_skeletons); skeletons that send a message first / return early without FileInfo / send after the summary are rejected (counter-models, incl. seeded change C07-a). "
              "Tied to the code by replaying cfg(s4_verif) event traces of the real binary, taken under "
              "seeded send/poll delay plans, through the model's transition function (every observed event must be enabled, final output = merge).")
ASSUME = ["crossbeam_channel: FIFO per channel; select returns some ready channel; a closed channel still delivers buffered data",
          "OS scheduling fairness (every runnable thread eventually runs) is not modelled",
          "the worker skeleton is an over-approximation (loops any number of times, data-dependent branches both ways); the observed receive sequence of every worker of the real binary "
          "(all source kinds, error paths) must be a trace the skeleton can produce (component wproto); a panic in a worker aborts the process in the shipped profile"]


def check(ctx):
    state = {}

    def oracle(c):
        res, cases = coord_common.multi_source_oracle(c, c.q(8, 60), c.q(4, 20), kinds=('plain', 'plain', 'gz', 'xz', 'bz2'),
                                                      sigprefix='schedule')
        res2, cases2 = coord_common.stall_oracle(c, c.q(2, 12), sigprefix='schedule')
        state['cases'] = cases + cases2
        # "nor stops before every source has been drained" for the worker loops of the other kinds too: accounting files
        # whose records are out of order (the worker hands them out in time order, not file order) must print every record
        # (generator and expectation shared with C08; its known finding F12 is not a C06 matter)
        res3, corr3 = _c08.oracle_and_corr(c)
        res3['failures'] = [f for f in res3['failures'] if f.get('signature') != 'fixedstruct:nul-after-each-record']
        state['corr3'] = corr3
        res4 = coord_common.many_sources_oracle(c)
        return core.merge_oracles([res, res2, res3, res4])

    def extra(c):
        return [coord_common.trace_correspondence(c, state.get('cases', [])), worker_traces.correspondence(c, c.q(40, 400))] + list(state.get('corr3', []))

    return core.standard_check(ctx, ['Consts', 'Coord', 'Worker'], MODS, [], oracle, LEVEL_NOTE, ASSUME, extra_corr_fn=extra)


def replay(ctx, data):
    return core.generic_replay(ctx, data)
