"""C06 — output is independent of thread scheduling and the run always ends."""
from vlib import core, coord_common
from vlib.props import C08 as _c08

MODS = ['S4V.Props.C06', 'S4V.Props.CoordSpec']
LEVEL_NOTE = ("Proved on the coordinator model of processing_loop (per-source FIFO channels of the capacity found in the source, wait condition, "
              "blocking select over un-filled channels, first-minimum print, channel removal): for EVERY schedule a finished run has printed merge(scripts) "
              "(confluence), the loop never leaves through the early-break path when every worker sends FileInfo first, some step is always enabled "
              "(no deadlock, capacity >= 1), iterations are bounded. Tied to the code by replaying cfg(s4_verif) event traces of the real binary, taken under "
              "seeded send/poll delay plans, through the model's transition function (every observed event must be enabled, final output = merge).")
ASSUME = ["crossbeam_channel: FIFO per channel; select returns some ready channel; a closed channel still delivers buffered data",
          "OS scheduling fairness (every runnable thread eventually runs) is not modelled",
          "every exec_*processor sends FileInfo first (hypothesis WF of no_break; observed on every trace, counter-model wf_needed shows it is needed)"]


def check(ctx):
    state = {}

    def oracle(c):
        res, cases = coord_common.multi_source_oracle(c, c.q(8, 60), c.q(4, 20), kinds=('plain', 'plain', 'gz', 'xz', 'bz2'),
                                                      sigprefix='schedule')
        res2, cases2 = coord_common.stall_oracle(c, c.q(2, 12), sigprefix='schedule')
        state['cases'] = cases + cases2
        # "nor stops before every source has been drained" for the worker loops of the other kinds too: accounting files
        # whose records are out of order (the worker hands them out in time order, not file order) must print every record
        # (generator and expectation shared with C08; its known finding F12 is not a C06 matter)
        res3, corr3 = _c08.oracle_and_corr(c)
        res3['failures'] = [f for f in res3['failures'] if f.get('signature') != 'fixedstruct:nul-after-each-record']
        state['corr3'] = corr3
        return core.merge_oracles([res, res2, res3])

    def extra(c):
        return [coord_common.trace_correspondence(c, state.get('cases', []))] + list(state.get('corr3', []))

    return core.standard_check(ctx, ['Consts', 'Coord'], MODS, [], oracle, LEVEL_NOTE, ASSUME, extra_corr_fn=extra)


def replay(ctx, data):
    return core.generic_replay(ctx, data)
