"""C17 — memory held for a streamed text log does not grow with its size."""
import bz2
import os
import re
import subprocess

from vlib import core, e2e

MODS = ['S4V.Props.MemSpec', 'S4V.Props.MemGeneralSpec', 'S4V.Props.LineSkel2Spec']
LEVEL_NOTE = ("Proved in general: a gz/bz2/lz4 reader asked in non-decreasing order holds exactly one block between calls and blocks_highest <= 2, for "
              "every content, block size, chunking and file size (READ_BLOCK_LOOKBACK_DROP; model S4V.Model.Stream, tied to the code by the C05 `asm` "
              "correspondence which compares blocks_highest). The stage-3 loop + drop path (drop_data_try target bo_first-2 with guard bo_first>1, syslines "
              "selected by their LAST block, sysline removed from the map before Arc::try_unwrap, drop_sysline handing ALL lines to drop_lines and drop_lines "
              "calling drop_line on EVERY line (DROP_SYSLINE_PASSES_ALL_LINES, DROP_LINES_VISITS_ALL: shape-checked in linereader.rs / syslinereader.rs; a "
              "short-circuit form regenerates `false`, an unknown form fails generation), drop_line keeping the last part's block, consumer holding up to "
              "CHANNEL_CAPACITY+2 messages; constants extracted from the source) is a counting model (S4V.Model.Mem). Proved for ALL sizes by an invariant over "
              "the loop (S4V.Lemmas.Mem.Inv, preserved by findMsg and by the drop): C17_bound_partial_general - for every message list in which message j starts "
              "in block j, ends in block j+1 and has at most M lines (decidable hypothesis `Straddling M`: each message ends one block after it starts, every block "
              "boundary crossed by a line) and a consumer that is not lagging: blocks high <= 7, lines high <= 5M+1, syslines high <= 5 on a plain file and "
              "2 / 5M+1 / 5 on a streamed reader, whatever the number of messages (C17_bound_partial_straddle: 7/6/5 for the one-line family at every n; the "
              "kernel-evaluated instances at 10-80 messages show the bounds are attained); C17_blocks_streamed_loop - blocks high <= 2 on a streamed reader for "
              "every input and every consumer lag. The unrestricted claim is false (C17_full_false: lagging consumer => lines/blocks grow linearly, F8; line ends "
              "on block ends in a plain file => every such block is retained even with a prompt consumer, F15). Counter-model for the drop_lines loop "
              "(drop_lines_short_circuit_grows): with `lines.into_iter().any(..)` 3-line messages whose inner line crosses a block boundary retain >= n lines for "
              "every n (proved), 20/30/50 at 10/20/40 messages against 16 for the code as extracted. End to end: --summary high-water marks on generated files "
              "growing x10, including 61-line messages at the default block size. GENERAL GEOMETRY (S4V.Props.MemGeneralSpec, invariant S4V.Lemmas.MemGeneral.Inv): "
              "C17_bound_general - for every message list with `Geometry M B P` (decidable: 1..M lines per message, a message inside at most B consecutive blocks, "
              "messages in file order, at most P messages starting in one block) and a consumer that is not lagging: syslines high <= P(B+1)+2, lines high <= "
              "M(P(B+1)+2)+1 plain or streamed, blocks high <= 2 streamed, blocks high <= 5B-3 on a plain file with `Crossed` (no line ends on a block end), for every "
              "number of messages; Straddling M is the instance B=2, P=1 (7 / 5M+1 / 5). Each side condition is refuted for EVERY bound: prompt_is_needed (F8), "
              "crossed_is_needed (F25: every block retained, all n), visit_all_is_needed (seeded C17-a), dense_is_needed (P is real); C17_unbounded_false closes "
              "MemSpec.C17_unbounded_stmt. MODEL REPAIR found by the tie: SyslogProcessor.drop_block_last starts at 0 (DROP_BLOCK_LAST_INIT regenerated), so the first "
              "drop target (0) is always skipped and blocks 0-2 are all stored when the first drop runs; S4V.Model.MemSkip.runS models it and C17_bound_general_skip "
              "proves the same bounds with max(B,2) for B. Exact tie: the geometry of each generated file (line offsets / --blocksz) is evaluated by the compiled Lean "
              "model (driver op `memgeo`, runS) and its three marks are compared with --summary: each mark must be at least the model's and at most a consumer lag's worth (8 messages) above it.")
ASSUME = ["the general bound (C17_bound_general / _skip) takes a consumer that is not lagging; with a lagging consumer only messages at least CHANNEL_CAPACITY+2 "
          "behind the drop target are safe (true when a block holds >= 8 messages, checked end to end by the exact tie, not proved in general)",
          "`P` (messages starting per block) is a parameter of the geometry; for a real file it is at most blocksz / (shortest message)",
          "in the short-circuit variant of the model drop_block is taken to return true (Arc::try_unwrap of a block succeeds once the earlier lines sharing it "
          "were dropped); the variant is a counter-model, the code as extracted does not use it",
          "which messages the printing thread still holds is scheduling dependent; the model takes any lag up to CHANNEL_CAPACITY+2",
          "allocator behaviour and real RSS are not modelled; the marks are the ones --summary reports",
          "binary search under -a on a plain file (logarithmic allowance) is not covered"]

HIGH_RE = {k: re.compile(rb'%s high\s*:\s*(\d+)' % k) for k in (b'blocks', b'lines', b'syslines')}


def varied_log(rng, nbytes):
    """one-line messages of 20-90 bytes (line ends rarely meet block ends)"""
    out, sz, i = [], 0, 0
    while sz < nbytes:
        line = b'2024-01-%02d %02d:%02d:%02d m%07d %s\n' % (1 + (i // 86400) % 28, (i // 3600) % 24, (i // 60) % 60, i % 60, i, b'v' * rng.below(60))
        out.append(line)
        sz += len(line)
        i += 1
    return b''.join(out)


def fixed_log(nbytes, lines_per_msg, bytes_per_line):
    out, sz, i = [], 0, 0
    while sz < nbytes:
        head = b'2024-01-%02d %02d:%02d:%02d m%07d' % (1 + (i // 86400) % 28, (i // 3600) % 24, (i // 60) % 60, i % 60, i)
        head = head + b'x' * (bytes_per_line - 1 - len(head))
        msg = head + b'\n'
        for j in range(lines_per_msg - 1):
            c = b' cont %d ' % j
            msg += c + b'y' * (bytes_per_line - 1 - len(c)) + b'\n'
        out.append(msg)
        sz += len(msg)
        i += 1
    return b''.join(out)


def varied_ml_log(rng, nbytes, nl, vmax):
    """messages of `nl` lines (one dated line + continuation lines) of varying length"""
    out, sz, i = [], 0, 0
    while sz < nbytes:
        msg = b'2024-01-%02d %02d:%02d:%02d m%07d %s\n' % (1 + (i // 86400) % 28, (i // 3600) % 24, (i // 60) % 60, i % 60, i, b'v' * rng.below(vmax))
        for j in range(nl - 1):
            msg += b' cont %d %s\n' % (j, b'y' * rng.below(vmax))
        out.append(msg)
        sz += len(msg)
        i += 1
    return b''.join(out)


def geometry(data, bs):
    """the model's view of a file: per message, per line, (first block, last block)"""
    msgs, pos = [], 0
    for line in data.split(b'\n')[:-1]:
        n = len(line) + 1
        ln = (pos // bs, (pos + n - 1) // bs)
        if line[:2] == b'20' or not msgs:
            msgs.append([ln])
        else:
            msgs[-1].append(ln)
        pos += n
    return msgs


def model_marks(ctx, msgs, streamed):
    """marks of S4V.Model.MemSkip.runS (prompt consumer) from the compiled Lean model"""
    req = 'memgeo %s skip prompt %s\n' % ('streamed' if streamed else 'plain', ' '.join(','.join('%d:%d' % ln for ln in m) for m in msgs))
    p = subprocess.run([core.DRV], input=req.encode(), stdout=subprocess.PIPE, timeout=300)
    w = p.stdout.decode().split()
    return tuple(int(x) for x in w) if len(w) == 3 and all(x.isdigit() for x in w) else None


def coincidences(data, bs):
    """line ends that are block ends (each retains one block of a plain file: F15)"""
    n = 0
    p = bs
    while p < len(data):
        if data[p - 1] == 10:
            n += 1
        p += bs
    return n


def marks(path, bs=None):
    args = e2e.BASE_ARGS + ['-s'] + (['--blocksz', str(bs)] if bs else []) + [path]
    rc, out, err, _ = e2e.s4(args, timeout=600)
    m = {}
    for k, r in HIGH_RE.items():
        g = r.search(err)
        m[k.decode()] = int(g.group(1)) if g else -1
    return rc, len(out), m


def pack(ctx, data, kind, name):
    p = os.path.join(ctx.work, name + e2e.SUFFIX[kind])
    if kind == 'bz2':
        open(p, 'wb').write(bz2.compress(data, 9))
    else:
        e2e.pack(data, kind, p, inner_name=name)
    return p


def grew(a, b, tight=False):
    return b > (1.5 * a + 64 if tight else 2 * a + 16)


def oracle(ctx):
    rng = e2e.Rng(ctx.seed * 131 + 9)
    fails, samples, ev = [], [], 0
    factor = 10
    table = []

    def series(label, gen, sizes, kinds, bs, expect, tight=False):
        """expect: dict mark -> 'flat' | known-finding signature | None (not judged)"""
        nonlocal ev
        for kind in kinds:
            rows = []
            for sz in sizes:
                data = gen(sz)
                p = pack(ctx, data, kind, '%s_%d.log' % (label, sz))
                rc, outlen, m = marks(p, bs)
                ev += 1
                os.unlink(p)
                co = coincidences(data, bs or 65536) if kind == 'plain' else 0
                rows.append((sz, m, co, rc, outlen, len(data)))
                if rc != 0 or outlen != len(data) or min(m.values()) < 0:
                    fails.append({'signature': 'oracle:run-failed', 'detail': f'{label} {kind} bs={bs} size={sz}: rc={rc} out={outlen}/{len(data)} marks={m}'})
            table.append({'series': label, 'kind': kind, 'blocksz': bs or 'default',
                          'marks': [{'bytes': r[5], **r[1], 'line_end_on_block_end': r[2]} for r in rows]})
            first, last = rows[0], rows[-1]
            for mk, exp in expect.items():
                a, b = first[1][mk], last[1][mk]
                allowance = last[2] if (mk == 'blocks' and kind == 'plain') else 0
                if kind != 'plain' and mk == 'blocks' and max(r[1]['blocks'] for r in rows) > 2:
                    fails.append({'signature': 'memory:streamed-reader-holds-more-than-2-blocks',
                                  'detail': f'{label} {kind} bs={bs}: blocks high {[r[1]["blocks"] for r in rows]}'})
                if grew(a, b - allowance, tight):
                    sig = 'memory:%s-high-grows-with-file-size' % mk if exp == 'flat' else exp
                    if sig:
                        fails.append({'signature': sig,
                                      'detail': f'{label} {kind} bs={bs or "default"}: {mk} high {[r[1][mk] for r in rows]} for {[r[5] for r in rows]} bytes '
                                                f'(line ends on block ends: {[r[2] for r in rows]})',
                                      'args': e2e.BASE_ARGS + ['-s'] + (['--blocksz', str(bs)] if bs else []) + ['%s_%d.log%s' % (label, last[0], e2e.SUFFIX[kind])]})

    base = ctx.q(400_000, 660_000)
    sizes = [base, base * factor] + ([base * factor * factor // 4] if ctx.thorough else [])
    # 1. the oracle proper: short messages, default block size — every mark must stay flat
    series('short', lambda n: varied_log(rng, n), sizes, ('plain', 'gz', 'bz2', 'lz4'), None,
           {'blocks': 'flat', 'lines': 'flat', 'syslines': 'flat'})
    # 2. --blocksz 64, streamed: blocks must stay <= 2; lines are within the consumer's lag (F8)
    small = [ctx.q(33_000, 66_000), ctx.q(330_000, 660_000)] + ([6_600_000] if ctx.thorough else [])
    series('short64', lambda n: fixed_log(n, 1, 30), small, ('gz', 'bz2', 'lz4'), 64,
           {'blocks': 'flat', 'lines': 'memory:retained-grows-with-multiblock-messages', 'syslines': 'flat'})
    # 3. messages spanning several blocks (7 lines of 30 bytes at --blocksz 64): known finding F8
    series('long64', lambda n: fixed_log(n, 7, 30), small, ('plain', 'gz'), 64,
           {'blocks': 'memory:retained-grows-with-multiblock-messages', 'lines': 'memory:retained-grows-with-multiblock-messages', 'syslines': 'flat'})
    # 5. ordinary multi-line messages (one dated line + 60 continuation lines, ~3 KB, far smaller than a block) at the default
    #    block size: every line of a printed message must be released, also when one of its inner lines crosses a block boundary
    ml = [500_000, 8_000_000] + ([24_000_000] if ctx.thorough else [])
    series('multiline', lambda n: fixed_log(n, 61, 48 + (n % 7)), ml, ('plain', 'gz'), None,
           {'blocks': 'flat', 'lines': 'flat', 'syslines': 'flat'}, tight=True)
    # 6. several messages per block at small block sizes (the geometry of C17_bound_general): flat, and EXACTLY the marks of the Lean model
    for label, bs, nl, vmax in (('multi1024', 1024, 1, 60), ('multi512', 512, 1, 40), ('ml3x1024', 1024, 3, 40), ('ml5x2048', 2048, 5, 30)):
        series(label, lambda n, nl=nl, vmax=vmax: varied_ml_log(rng, n, nl, vmax), [60_000, 600_000] + ([6_000_000] if ctx.thorough else []),
               ('plain', 'gz'), bs, {'blocks': 'flat', 'lines': 'flat', 'syslines': 'flat'}, tight=True)
        for kind in ('plain', 'gz'):
            data = varied_ml_log(rng, ctx.q(40_000, 120_000), nl, vmax)
            p = pack(ctx, data, kind, 'geo_%s.log' % label)
            rc, outlen, m = marks(p, bs)
            ev += 1
            os.unlink(p)
            mm = model_marks(ctx, geometry(data, bs), kind != 'plain')
            got = (m['blocks'], m['lines'], m['syslines'])
            table.append({'series': 'geo_' + label, 'kind': kind, 'blocksz': bs, 'marks': [{'bytes': len(data), **m}], 'model': mm})
            dense = bs // (max(len(x) for x in data.split(b'\n')) + 1) >= 8
            if mm is None:
                fails.append({'signature': 'oracle:model-driver-failed', 'detail': f'geo_{label} {kind} bs={bs}: memgeo gave no marks'})
            # the model's consumer is prompt; the real one may hold up to CHANNEL_CAPACITY + 2 messages a little longer (more on a loaded machine),
            # which can only RETAIN more: never fewer than the model, and at most that lag's worth more
            elif not all(mm[i] <= got[i] <= mm[i] + lagw for i, lagw in ((0, 8), (1, 8 * nl if not dense else 8 * nl), (2, 8))):
                fails.append({'signature': 'memory:marks-differ-from-model', 'detail': f'geo_{label} {kind} bs={bs} {len(data)} bytes: --summary {got}, model runS {mm}'})
    # 4. line ends on block ends, plain file, default block size: known finding F15
    nonlocal_allow = None
    for kind, exp in (('plain', 'memory:block-ending-on-line-end-never-dropped'),):
        rows = []
        for sz in sizes[:2]:
            data = fixed_log(sz, 1, 32)
            p = pack(ctx, data, kind, 'al32_%d.log' % sz)
            rc, outlen, m = marks(p, None)
            ev += 1
            os.unlink(p)
            rows.append((len(data), m))
        table.append({'series': 'aligned32', 'kind': kind, 'blocksz': 'default', 'marks': [{'bytes': r[0], **r[1]} for r in rows]})
        if grew(rows[0][1]['blocks'], rows[-1][1]['blocks']):
            fails.append({'signature': exp, 'detail': f'aligned32 plain default block size: blocks high {[r[1]["blocks"] for r in rows]} for {[r[0] for r in rows]} bytes'})
    samples.append({'oracle': 'C17 high-water marks', 'table': table})
    ctx.log('C17 marks: ' + '; '.join('%s/%s/%s: %s' % (t['series'], t['kind'], t['blocksz'],
                                                       ' -> '.join('%d/%d/%d' % (m['blocks'], m['lines'], m['syslines']) for m in t['marks'])) for t in table))
    return {'evaluations': ev, 'distinct_nontrivial': ev, 'failures': fails, 'samples': samples,
            'rule': 'generated text logs growing x10 (x25 more in the thorough tier); blocks/lines/syslines high from --summary. Short messages at the default block '
                    'size on plain/gz/bz2/lz4 must not grow (flat = last <= 2*first+16; plain blocks allowed one per line end that meets a block end); streamed '
                    'readers must report blocks high <= 2 always; 61-line messages of ~3 KB at the default block size (plain, gz; 0.5 -> 8 MB) must not grow either (tighter: last <= 1.5*first+64); long messages at --blocksz 64 and block-aligned lines are the known growth cases; distinct = runs'}


def check(ctx):
    return core.standard_check(ctx, ['Consts', 'Blocks', 'Stream', 'Lines', 'Lines2', 'Lines2Mutants'], MODS, [], oracle, LEVEL_NOTE, ASSUME, need_harness=True)


def replay(ctx, data):
    return core.generic_replay(ctx, data)
