"""C12 — the read block size never changes what is printed."""
from vlib import core, text_oracles

# PrintSpec: a line reaches the printer as parts no longer than a block; what is written is the parts' concatenation whatever the partition (C13_parts_bytes)
# and whatever the part sizes relative to the 2056-byte buffer (C19_printed_eq_written)
MODS = ['S4V.Props.C12', 'S4V.Props.LinesSpec', 'S4V.Props.CacheSpec', 'S4V.Props.GateSpec', 'S4V.Props.BoxptrsSpec', 'S4V.Props.PrintSpec', 'S4V.Props.PatSelSpec', 'S4V.Props.FixedWalkManySpec', 'S4V.Props.LineSkelSpec', 'S4V.Props.GateSkelSpec', 'S4V.Props.LineSkel2Spec']
LEVEL_NOTE = ("Proved for every block size >= 1, every byte string and offset: block arithmetic (translated from blockreader.rs), "
              "find_line's block walk = the line containing the offset (bounds, bytes, in-bounds contiguous parts), lines tile the file; "
              "the message layer of the model does not see blocks. The hand model of find_line/find_line_in_block is tied to the code by "
              "in-process differential runs (exhaustive for all files over {NL,'a'} up to length 7-9 at every block size and offset, plus random "
              "call histories on warm caches). The acceptance gate depends on the block size: known findings F1/F2. Which datetime pattern the file is read with is modelled (PatSelSpec, constants regenerated "
              "from syslinereader.rs/syslogprocessor.rs): for a one-notation file the chosen row and every date are independent of how many lines block zero holds "
              "(C04_single_notation_blocksize_independent); for mixed notations they are not (C04_mixed_notation_full_false = known finding F30); tied by component `patsel`. LineReader::find_line itself is regenerated from linereader.rs as a program (gen_lines.py -> Gen/Lines) whose interpreter is proved EQUAL to the hand models "
              "(LineSkelSpec: C12_findLine_skeleton_is_model, C12_findLineCached_skeleton_is_model for every store), so findLine_spec / block-size independence hold of the regenerated form; ten one-edit mutants regenerated from edited source text each falsify a named statement; "
              "component `lskel` compares real = hand = interpreter.")
ASSUME = ["LineReader caches (lines, foend_to_fobeg, LRU) are transparent: validated by random call histories with drops against the cache-free model, not proved",
          "block-zero acceptance gate is outside the theorems of this file (bs-dependent; see known findings F1, F2)"]


def oracle_blocksz_fixed(ctx):
    """accounting-record files at block sizes that are NOT multiples of the record alignment: records (and their time values) then straddle
    block boundaries at many different positions (seeded change C12-e: the time-value pre-pass read with oneblock=true stopped at the first
    time value crossing a boundary). stdout at --blocksz b must equal stdout at the default."""
    import os
    from vlib import e2e
    from vlib.props import C08
    rng = e2e.Rng(ctx.seed * 977 + 5)
    fails, ev = [], 0
    n = 120 + rng.below(60)
    data = b''.join(C08.rec(i, 1700000000 + i * 7 + rng.below(5), rng.below(1000000)) for i in range(n))
    p = os.path.join(ctx.work, 'c12_fixed.wtmp')
    open(p, 'wb').write(data)
    rc0, out0, err0, _ = text_oracles.run_plain(p)
    ev += 1
    sizes = [385, 390, 401, 500, 777, 1000, 1023, 1537, 4097] + [384 + rng.below(3000) for _ in range(ctx.q(3, 12))]
    for bs in sizes:
        rc, out, err, _ = text_oracles.run_plain(p, ['--blocksz', str(bs)])
        ev += 1
        if (rc, out) != (rc0, out0):
            fails.append({'signature': 'blocksz:stdout-differs-from-default', 'detail': f'{n}-record wtmp at --blocksz {bs}: rc={rc} vs {rc0}; {out.count(10)} lines vs {out0.count(10)}',
                          'args': e2e.BASE_ARGS + ['--blocksz', str(bs), 'c12_fixed.wtmp'], 'records': n})
    os.unlink(p)
    return {'evaluations': ev, 'distinct_nontrivial': ev, 'failures': fails, 'samples': [],
            'rule': f'a {n}-record Linux utmpx file at {len(sizes)} block sizes that are not multiples of 16 (records and time values straddle block boundaries): stdout == stdout at the default'}


def oracle(ctx):
    a = text_oracles.oracle_blocksz(ctx, ctx.q(10, 60))
    b = text_oracles.known_gate_witnesses(ctx)
    c = text_oracles.search_from_disagreements(ctx, getattr(ctx, 'corr_results', []))
    d = text_oracles.known_mixed_notation_witness(ctx)
    e = oracle_blocksz_fixed(ctx)
    return core.merge_oracles([a, b, c, d, e])


def check(ctx):
    return core.standard_check(ctx, ['Blocks', 'Consts', 'Filter', 'DtStart', 'Print', 'PatSel', 'Keys', 'Stream', 'Fixed', 'LayoutDetect', 'FixedWalk', 'Lines', 'LinesMutants', 'Lines2', 'Lines2Mutants', 'Gate', 'GateMutants'], MODS, [('patsel', 500, 6000), ('line', 2500, 40000), ('lskel', 3000, 20000), ('gskel', 150, 2000), ('gate', 150, 2000), ('proc', 400, 6000), ('boxp', 300, 4000), ('prt', 600, 8000), ('fwalk', 1500, 15000)], oracle, LEVEL_NOTE, ASSUME)


def replay(ctx, data):
    return core.generic_replay(ctx, data)
