"""C18 — no temporary files are left behind, even on Ctrl-C."""
import gzip
import os
import signal
import subprocess
import time

from vlib import core, e2e
from vlib.props.C08 import model_compare

MODS = ['S4V.Props.C18']
LEVEL_NOTE = ("Proved on the protocol model of temporary files, with the order of operations regenerated from the source on every run (creation+listing "
              "under the NAMED_TEMP_FILES lock; reader dropped before the final summary; creation refused once the handler has run - the NAMED_TEMP_FILES_CLOSED flag, "
              "set and tested under that lock): a normal run leaves no file although main does not join the workers (C18_normal); after a SIGINT at ANY moment, "
              "with the process exiting at any moment after it, no file remains (C18_full_holds / C18_sigint, no proviso); the three repaired defects are kept as "
              "counter-models (gap_without_lock, summary_before_drop, late_create_without_flag: without the flag the statement needs the proviso NoLateCreate). Tied to the code by H3 sleeps that widen exactly those windows in the real binary: leftovers in a private TMPDIR must equal "
              "the model's prediction. Promptness of the interrupt is measured, not proved: known finding F15.")
ASSUME = ["OS signal delivery, process exit killing threads, tempfile::NamedTempFile deleting on drop, ctrlc running the handler on its own thread",
          "which step of a worker coincides with the signal is arranged by sleeps (H3), not observed"]

J = 'logs/programs/journal/Ubuntu22-user-1000x3.journal'
EVX = 'logs/programs/evtx/Microsoft-Windows-Kernel-PnP%4Configuration.evtx.xz'


def tar_sources(ctx):
    """the journal and the evtx sample as members of .tar archives (tar members are unpacked to temporary files too)"""
    import io
    import lzma
    import tarfile
    out = []
    d = os.path.join(ctx.work, 'tarsrc')
    os.makedirs(d, exist_ok=True)
    for name, data in (('j.journal', gzip.open(os.path.join(core.REPO, J) + '.gz', 'rb').read()),
                       ('e.evtx', lzma.open(os.path.join(core.REPO, EVX), 'rb').read())):
        p = os.path.join(d, name + '.tar')
        if not os.path.exists(p):
            with tarfile.open(p, 'w', format=tarfile.USTAR_FORMAT) as tf:
                ti = tarfile.TarInfo(name)
                ti.size = len(data)
                ti.mtime = 1700000000
                tf.addfile(ti, io.BytesIO(data))
        out.append(p)
    return out


def sources(ctx, rng, k, tar_only=False):
    base = os.path.join(core.REPO, J)
    tars = tar_sources(ctx)
    cands = tars if tar_only else [base + s for s in ('.gz', '.xz', '.bz2', '.lz4')] + [os.path.join(core.REPO, EVX)] + tars
    return [rng.pick(cands) for _ in range(k)]


def run_s4(args, env, sig_at=None, timeout=60):
    e = dict(os.environ)
    e.update(env)
    t0 = time.time()
    # SIGINT at its default disposition in the child, whatever this process inherited (a shell that started the check in the background
    # leaves SIGINT ignored, which would hide a missing handler)
    p = subprocess.Popen([core.S4] + e2e.BASE_ARGS + args, env=e, stdout=subprocess.DEVNULL, stderr=subprocess.PIPE,
                         preexec_fn=lambda: signal.signal(signal.SIGINT, signal.SIG_DFL))
    lat = None
    if sig_at is not None:
        time.sleep(sig_at)
        ts = time.time()
        if p.poll() is None:
            p.send_signal(signal.SIGINT)
            try:
                p.wait(timeout=timeout)
            except subprocess.TimeoutExpired:
                p.kill()
                p.wait()
                return -9, None, b'TIMEOUT'
            lat = time.time() - ts
        else:
            lat = 0.0
    try:
        _, err = p.communicate(timeout=timeout)
    except subprocess.TimeoutExpired:
        p.kill()
        _, err = p.communicate()
        return -9, lat, b'TIMEOUT'
    return p.returncode, lat, err


def leftovers(tmpdir):
    fs = sorted(os.listdir(tmpdir))
    for f in fs:
        os.unlink(os.path.join(tmpdir, f))
    return fs


def oracle_and_corr(ctx):
    rng = e2e.Rng(ctx.seed * 71 + 43)
    tmpdir = os.path.join(ctx.work, 'tmp')
    os.makedirs(tmpdir, exist_ok=True)
    textlog = os.path.join(ctx.work, 'a.log')
    open(textlog, 'wb').write(e2e.gen_log(rng, 30, weird=False).data)
    textlog2 = os.path.join(ctx.work, 'b.log')
    open(textlog2, 'wb').write(e2e.gen_log(rng, 30, weird=False).data)
    failures, samples, reqs, impl = [], [], [], []
    ev = 0
    base_env = {'TMPDIR': tmpdir, 'TZ': 'UTC'}
    # --- normal runs, with the worker stalled after its final summary (widens the F7 window)
    for k in range(ctx.q(6, 30)):
        n = rng.range(1, 4)
        srcs = sources(ctx, rng, n)
        env = dict(base_env)
        if k % 2 == 0:
            env['S4_VERIF_SLEEP_AFTER_SUMMARY_MS'] = '250'
        rc, _, err = run_s4(srcs + ([textlog] if k % 3 == 0 else []), env)
        ev += 1
        left = leftovers(tmpdir)
        desc = {'scenario': 'normal', 'sources': [os.path.basename(s) for s in srcs], 'env': {k_: v for k_, v in env.items() if k_.startswith('S4_')}}
        if left:
            failures.append({'signature': 'tmp:leftover-after-normal-run', 'detail': f'{len(left)} file(s) left: {left[:3]}', 'case': desc})
        if rc not in (0, 1):
            failures.append({'signature': 'tmp:bad-exit', 'detail': f'rc={rc} {err[-200:]!r}', 'case': desc})
        reqs.append('tmp normal %d' % n)
        impl.append(str(len(left)))
        if len(samples) < 2:
            samples.append({'oracle': 'C18', **desc, 'leftovers': len(left)})
    # --- SIGINT while a worker sits between creating and listing its file (widened by H3),
    #     two text sources with staggered sends make the coordinator's select return so the handler can run
    for k in range(ctx.q(4, 20)):
        env = dict(base_env)
        env['S4_VERIF_SLEEP_NTF_CREATED_MS'] = '2500'
        env['S4_VERIF_DELAYS'] = '%d:1500000' % (ctx.seed * 100 + k)
        # every second run: the only unpacked source is a TAR member (no compressed journal / evtx in the run; seeded change C18-c)
        srcs = [textlog, textlog2] + sources(ctx, rng, 1, tar_only=(k % 2 == 1))
        rc, lat, err = run_s4(srcs, env, sig_at=0.4)
        ev += 1
        left = leftovers(tmpdir)
        desc = {'scenario': 'sigint-in-create/list-window', 'sources': [os.path.basename(s) for s in srcs], 'signal_at_s': 0.4, 'exit_latency_s': lat}
        if left:
            failures.append({'signature': 'tmp:leftover-after-sigint', 'detail': f'{len(left)} file(s) left: {left[:3]}', 'case': desc})
        reqs.append('tmp gap 1')
        impl.append(str(len(left)))
        if len(samples) < 4:
            samples.append({'oracle': 'C18', **desc, 'leftovers': len(left)})
    # --- late creation: the handler runs BEFORE a worker reaches decompress_to_ntf (H3: the worker sleeps before taking the
    #     lock; the main thread lingers after EXIT_EARLY; a file created now is held while the process exits)
    for k in range(ctx.q(2, 8)):
        env = dict(base_env)
        env['S4_VERIF_SLEEP_BEFORE_NTF_MS'] = '1500'
        env['S4_VERIF_SLEEP_NTF_CREATED_MS'] = '3000'
        env['S4_VERIF_SLEEP_BEFORE_EARLY_EXIT_MS'] = '2500'
        env['S4_VERIF_DELAYS'] = '%d:300000' % (ctx.seed * 31 + k)
        srcs = [textlog, textlog2] + sources(ctx, rng, 1)
        rc, lat, err = run_s4(srcs, env, sig_at=0.4)
        ev += 1
        left = leftovers(tmpdir)
        desc = {'scenario': 'sigint-before-a-worker-creates-its-file', 'sources': [os.path.basename(s) for s in srcs], 'signal_at_s': 0.4, 'exit_latency_s': lat}
        if left:
            failures.append({'signature': 'tmp:leftover-after-sigint', 'detail': f'{len(left)} file(s) left: {left[:3]}', 'case': desc})
        reqs.append('tmp late 1')
        impl.append(str(len(left)))
        if len(samples) < 5:
            samples.append({'oracle': 'C18', **desc, 'leftovers': len(left)})
    # --- one source fails half-way through its decompression while other workers own listed temp files, then SIGINT:
    #     the failing worker must clean up ITS file only; the handler must still find (and remove) every other one
    import lzma
    evx_plain = lzma.open(os.path.join(core.REPO, EVX)).read()
    badgz = os.path.join(ctx.work, 'bad.evtx.gz')
    blob = gzip.compress(evx_plain + bytes(24 * 1024 * 1024), 1)
    open(badgz, 'wb').write(blob[:-65536])
    for k in range(ctx.q(3, 12)):
        env = dict(base_env)
        env['S4_VERIF_DELAYS'] = '%d:300000' % (ctx.seed * 7 + k)
        goods = [os.path.join(core.REPO, EVX)] * 1 + sources(ctx, rng, rng.range(1, 2))
        order = rng.shuffle(goods + [badgz])
        e = dict(os.environ)
        e.update(env)
        p = subprocess.Popen([core.S4] + e2e.BASE_ARGS + order, env=e, stdout=subprocess.DEVNULL, stderr=subprocess.PIPE)
        seen_max, t0, fired = 0, time.time(), None
        while time.time() - t0 < 10 and p.poll() is None:
            n = len(os.listdir(tmpdir))
            seen_max = max(seen_max, n)
            if seen_max >= 2 and 1 <= n < seen_max:
                fired = time.time() - t0
                p.send_signal(signal.SIGINT)
                break
            time.sleep(0.01)
        try:
            _, err = p.communicate(timeout=60)
        except subprocess.TimeoutExpired:
            p.kill()
            _, err = p.communicate()
        ev += 1
        left = leftovers(tmpdir)
        desc = {'scenario': 'sigint-after-a-failed-decompression', 'sources': [os.path.basename(s_) for s_ in order], 'signal_at_s': fired,
                'temp_files_seen': seen_max}
        if fired is not None and left:
            failures.append({'signature': 'tmp:leftover-after-sigint', 'detail': f'{len(left)} file(s) left: {left[:3]}', 'case': desc})
        if len(samples) < 6:
            samples.append({'oracle': 'C18', **desc, 'leftovers': len(left)})
    # --- SIGINT at assorted moments of an ordinary run
    for k in range(ctx.q(8, 60)):
        n = rng.range(1, 4)
        srcs = sources(ctx, rng, n) + [textlog]
        at = rng.pick([0.0, 0.005, 0.02, 0.05, 0.1, 0.2])
        env = dict(base_env)
        if k % 2:
            env['S4_VERIF_DELAYS'] = '%d:2000' % k
        rc, lat, err = run_s4(srcs, env, sig_at=at)
        ev += 1
        left = leftovers(tmpdir)
        desc = {'scenario': 'sigint', 'sources': [os.path.basename(s) for s in srcs], 'signal_at_s': at, 'exit_latency_s': lat}
        if left:
            failures.append({'signature': 'tmp:leftover-after-sigint', 'detail': f'{len(left)} file(s) left: {left[:3]}', 'case': desc})
        if lat is not None and lat > 5:
            failures.append({'signature': 'sigint:slow-exit', 'detail': f'{lat:.1f}s from signal to exit', 'case': desc})
    # --- promptness when every polled worker is silent (known finding F15): the handler waits for the
    #     channel-map write lock, which the coordinator holds (read) inside its blocking select
    env = dict(base_env)
    env['S4_VERIF_SLEEP_NTF_CREATED_MS'] = '2000'
    rc, lat, err = run_s4(sources(ctx, rng, 1), env, sig_at=0.3)
    ev += 1
    left = leftovers(tmpdir)
    if lat is not None and lat > 1.0:
        failures.append({'signature': 'sigint:handler-waits-for-next-datum', 'case': {'scenario': 'single silent worker (2 s before its first datum)', 'signal_at_s': 0.3},
                         'detail': f'{lat:.2f}s from SIGINT to exit: the interrupt took effect only when the worker delivered its next datum'})
    if left:
        failures.append({'signature': 'tmp:leftover-after-sigint', 'detail': f'{left[:3]}', 'case': {'scenario': 'silent worker'}})
    orc = {'evaluations': ev, 'distinct_nontrivial': ev, 'failures': failures, 'samples': samples,
           'rule': 'private TMPDIR listed after exit: normal runs over 1-4 compressed journal/evtx sources (half with the worker stalled 250 ms after its final summary), '
                   'SIGINT inside the widened create/list window, SIGINT handled before a worker reaches decompress_to_ntf (the worker must be refused), SIGINT right after one source failed half-way through its decompression while others own temp files, SIGINT at 0-200 ms of ordinary runs with and without delay plans, and one silent-worker run for '
                   'signal-to-exit latency; every run is a distinct (sources, plan, signal time) combination'}
    corr = model_compare(ctx, 'tmp-scenarios', reqs, impl)
    return orc, [corr]


def check(ctx):
    ok_gen = core.step_gen(ctx, ['Tmp'])
    prove = core.step_prove(ctx, MODS) if ok_gen else {'module': ' '.join(MODS), 'obligations': 0, 'discharged': 0}
    core.step_drv(ctx) if (ok_gen or ctx.search_mode) else False
    ok_impl = core.step_build_impl(ctx)
    orc, corr = (None, [])
    if ok_impl:
        orc, corr = oracle_and_corr(ctx)
    return core.decide(ctx, prove, corr, orc, LEVEL_NOTE, ASSUME)


def replay(ctx, data):
    return core.generic_replay(ctx, data)
