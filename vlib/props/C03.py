"""C03 — a datetime window selects exactly the messages inside it."""
from vlib import core, text_oracles
from vlib.props import C08 as _c08

MODS = ['S4V.Props.SyslSpec', 'S4V.Props.FilterSpec', 'S4V.Props.SortSpec', 'S4V.Props.SearchSkelSpec']
LEVEL_NOTE = ("Proved: the decision functions translated from the source (dt_pass_filters, dt_after_or_before, ts_pass_filters, em_pass_filters, "
              "em_after_or_before, the fixedstruct prefilter) are inclusive at both bounds with a missing bound unbounded (FilterSpec); for text logs whose "
              "messages are chronological and at least 2 bytes long, binary search (plain files) and linear search (streamed files) return the FIRST message with "
              "dt >= A from any message start (bsearch_spec_at, lsearch_spec_at; a 1-byte-message counterexample is proved), and the streaming loop with window "
              "(A,B) emits exactly filter(A<=dt<=B) of the unwindowed output in the same order, [] when empty (streamAll_window). Records/events: "
              "C08_mem_iff/C10_mem_iff. The search functions themselves are re-read from syslinereader.rs on every run (Gen.Search: the arms, cursor updates, midpoint, exit tests "
              "and window table of find_sysline_at_datetime_filter_binary_search / _linear_search / find_sysline_between_datetime_filters and both line walks of "
              "find_sysline_year, as a small skeleton language); the interpreters of the generated skeletons are proved EQUAL to the hand models (SearchSkelSpec: "
              "C03_bsearch_skeleton_is_model, C03_lsearch_skeleton_is_model, C03_between_skeleton_is_model, C02_findSysline_skeleton_is_model), so every theorem above holds of "
              "the generated form (C03_bsearch_generated_spec, C03_window_generated) and a one-token edit of a comparison, a cursor update or the order of two tests breaks an rfl "
              "fact; eleven such edits are proved wrong on concrete files (counter-models). Tied to the code by in-process SyslineReader runs (binary and gz/linear) and by the binary on windows placed on and "
              "next to message instants. Journal windows: C09.")
ASSUME = ["text logs are chronological (the binary search is only meaningful then; the property's 'keeps the order' clause is for such files)",
          "regex/chrono attribute the instants (C04)"]


def oracle(ctx):
    a = text_oracles.oracle_window(ctx, ctx.q(16, 150), kinds=('plain', 'gz', 'plain', 'xz', 'bz2'))
    # accounting records under windows (shares the generator of C08; its known finding F12 is not a C03 matter)
    b, corr = _c08.oracle_and_corr(ctx)
    b['failures'] = [f for f in b['failures'] if f.get('signature') != 'fixedstruct:nul-after-each-record']
    ctx._extra_corr = corr
    c = text_oracles.oracle_window_yearless(ctx, ctx.q(9, 60))
    # every accounting layout (16) through the real FixedStructReader under windows on / 1 microsecond beside record instants (seeded change C03-d:
    # one layout's microseconds dropped from the window key)
    d = core.harness_oracle(ctx, 'fixedfile', ctx.q(480, 6400),
                            'fixedfile: per layout (16) files of 2-13 records; two of three under a window whose bounds are record instants (seconds and microseconds) or 1 microsecond beside: '
                            'the selection must be exactly the non-null records with A <= t <= B, in stable time order')
    return core.merge_oracles([a, b, c, d])


def check(ctx):
    return core.standard_check(ctx, ['Filter', 'Keys', 'Blocks', 'Consts', 'Search'], MODS, [('sysl', 2500, 40000), ('srch', 1500, 12000), ('proc', 300, 5000)], oracle, LEVEL_NOTE, ASSUME,
                               extra_corr_fn=lambda c: getattr(c, '_extra_corr', []))


def replay(ctx, data):
    return core.generic_replay(ctx, data)
