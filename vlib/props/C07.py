"""C07 — malformed input cannot crash, hang, or disturb other sources."""
import gzip
import os
import lzma

from vlib import core, e2e, coord_common, worker_traces
from vlib.props.C08 import rec as utmp_rec

MODS = ['S4V.Props.C06', 'S4V.Props.CoordSpec', 'S4V.Props.LinesSpec', 'S4V.Props.WorkerProtoSpec', 'S4V.Props.CoordSkelSpec', 'S4V.Props.CoordSkelMutants']
LEVEL_NOTE = ("Proved (the part that is logic): in the coordinator model, for every schedule and arbitrary scripts of the other sources — "
              "messages then stop with or without a summary, error FileInfo + summary, data after a summary — the output restricted to the healthy sources is the merge "
              "of the healthy sources (C07_isolation), the run ends (terminates), errs = 0 iff every source delivered only ok data and a summary (errs_zero_iff); the "
              "modelled cores are total and in bounds (findLine parts lie inside their blocks for every input; classification terminates for every name; searches never "
              "err or run out of fuel). What a faulty source can put on its channel is proved over the worker skeletons regenerated from s4.rs (WorkerProtoSpec: every producible "
              "send-trace of every exec_*processor, error paths included, is FileInfo first, then messages, then at most one FileSummary - W_thread_tidy; a panicking worker has sent nothing or a "
              "FileInfo-headed prefix - W_thread_cut), so the faulty scripts the isolation theorem quantifies over cover the real workers. NOT provable here and covered by the malformed stream below (testing): absence of panics/aborts inside flate2, tar, evtx, lzma-rs, "
              "lz4_flex, bzip2-rs, libsystemd, the unsafe casts of fixedstruct.rs, and wall-clock promptness.")
ASSUME = ["third-party decoders and libsystemd do not panic/abort on malformed input (exercised by truncation/bit-flip/random/mismatched-name inputs, never proved)",
          "OS scheduling; wall-clock bound is a test, not a theorem"]
TIME_LIMIT = 60


def valid_sources(ctx, rng, base):
    """small valid files of each kind -> dict name -> bytes"""
    out = {}
    log = e2e.gen_log(rng, 12, weird=False)
    out['t.log'] = log.data
    out['t.log.gz'] = gzip.compress(log.data, mtime=0)
    out['t.log.xz'] = lzma.compress(log.data, format=lzma.FORMAT_XZ, check=lzma.CHECK_CRC32)
    import bz2, io, tarfile
    out['t.log.bz2'] = bz2.compress(log.data)
    bio = io.BytesIO()
    with tarfile.open(fileobj=bio, mode='w', format=tarfile.USTAR_FORMAT) as tf:
        ti = tarfile.TarInfo('t.log')
        ti.size = len(log.data)
        tf.addfile(ti, io.BytesIO(log.data))
    out['t.tar'] = bio.getvalue()
    tmp = os.path.join(base, 'raw.tmp')
    open(tmp, 'wb').write(log.data)
    rc, _, _, _ = core.run([core.S4H, 'pack', 'lz4', tmp, tmp + '.lz4'])
    if rc == 0:
        out['t.log.lz4'] = open(tmp + '.lz4', 'rb').read()
        os.unlink(tmp + '.lz4')
    os.unlink(tmp)
    out['t.wtmp'] = b''.join(utmp_rec(i, 1700000000 + i, i) for i in range(5))
    ev = os.path.join(core.REPO, 'logs/programs/evtx/Microsoft-Windows-Kernel-PnP%4Configuration.evtx')
    if os.path.exists(ev):
        out['t.evtx'] = open(ev, 'rb').read()[:4096 + 65536]       # header + first chunk
    jz = os.path.join(core.REPO, 'logs/programs/journal/Ubuntu22-user-1000x3.journal.gz')
    if os.path.exists(jz):
        out['t.journal'] = gzip.open(jz, 'rb').read()
    return out


def mutate(rng, name, data, k):
    """k-th mutant of a valid file: (new name, bytes, description)"""
    mode = k % 8
    root, ext = name.split('.', 1)
    if mode == 0:        # truncation
        cut = [0, 1, 5, 6, 7, len(data) // 3, len(data) // 2, len(data) - 1][rng.below(8)] if rng.chance(1, 2) else rng.below(len(data) + 1)
        return f'bad{k}.{ext}', data[:cut], f'truncate {name} to {cut}'
    if mode == 1:        # bit flips near the start (headers)
        b = bytearray(data)
        for _ in range(rng.range(1, 6)):
            i = rng.below(min(len(b), 600))
            b[i] ^= 1 << rng.below(8)
        return f'bad{k}.{ext}', bytes(b), f'bit-flips in header of {name}'
    if mode == 2:        # bit flips anywhere
        b = bytearray(data)
        for _ in range(rng.range(1, 10)):
            i = rng.below(len(b))
            b[i] = rng.below(256)
        return f'bad{k}.{ext}', bytes(b), f'byte smash in {name}'
    if mode == 3:        # random bytes under this name
        n = rng.pick([0, 1, 6, 7, 100, 383, 384, 385, 4096, 70000])
        return f'bad{k}.{ext}', bytes(rng.below(256) for _ in range(min(n, 5000))) * (1 if n <= 5000 else n // 5000), f'{n} random bytes named .{ext}'
    if mode == 4:        # valid content under a mismatching name
        ext2 = rng.pick(['log', 'log.gz', 'log.xz', 'log.bz2', 'log.lz4', 'tar', 'wtmp', 'utmp', 'lastlog', 'acct', 'journal', 'evtx', 'journal.gz', 'evtx.xz', 'wtmp.tar'])
        return f'bad{k}.{ext2}', data, f'{name} renamed to .{ext2}'
    if mode == 5:        # NUL / 0xFF fill
        return f'bad{k}.{ext}', bytes([rng.pick([0, 0xFF])]) * rng.pick([7, 128, 129, 5000]), f'constant fill named .{ext}'
    if mode == 7:        # a complete valid file followed by more bytes: a second copy (concatenated members) or junk whose last
        # little-endian dword is large (the gzip reader takes the uncompressed size from the file's last 4 bytes)
        import struct
        variant = (k // 8) % 4
        if variant == 2:
            return f'bad{k}.{ext}', data + data, f'{name} followed by a second copy of itself'
        dword = [len(data) * 3 + 1000, 70000, None, 0x7FFFFFFF][variant]
        junk = bytes(rng.below(256) for _ in range(rng.range(0, 200))) + struct.pack('<I', dword)
        return f'bad{k}.{ext}', data + junk, f'{name} followed by {len(junk)} bytes of junk ending in the dword {dword}'
    b = bytearray(data)   # size field games: duplicate / drop the tail
    return f'bad{k}.{ext}', bytes(b + b[len(b) // 2:]), f'{name} with duplicated tail'


def _varint(n):
    out = bytearray()
    while True:
        b = n & 0x7f
        n >>= 7
        if n:
            out.append(b | 0x80)
        else:
            out.append(b)
            return bytes(out)


def _rdvarint(buf, at):
    n = i = 0
    while True:
        b = buf[at]
        at += 1
        n |= (b & 0x7f) << (7 * i)
        i += 1
        if not b & 0x80:
            return n, at


def xz_with_size_fields(data, with_compressed=False):
    """a valid single-block .xz whose Block Header carries the optional Uncompressed Size (and Compressed Size) fields, as
    multi-threaded `xz -T<n>` writes them; returns (bytes, offset of the first size field)"""
    import struct
    import zlib
    raw = lzma.compress(data, format=lzma.FORMAT_XZ, check=lzma.CHECK_CRC64)
    hdr_sz = (raw[12] + 1) * 4
    hdr = raw[12:12 + hdr_sz]
    filt = hdr[2:5]
    bs = struct.unpack('<I', raw[-8:-4])[0]
    idx_sz = (bs + 1) * 4
    idx_at = len(raw) - 12 - idx_sz
    idx = raw[idx_at:idx_at + idx_sz]
    unpadded, at = _rdvarint(idx, 2)
    uncomp, at = _rdvarint(idx, at)
    check_sz = 8
    comp_sz = unpadded - hdr_sz - check_sz
    comp_padded = (comp_sz + 3) // 4 * 4
    blockdata = raw[12 + hdr_sz: 12 + hdr_sz + comp_padded + check_sz]
    flags = 0x80 | (0x40 if with_compressed else 0)
    body = bytes([flags]) + (_varint(comp_sz) if with_compressed else b'') + _varint(uncomp) + filt
    total = (1 + len(body) + 4 + 3) // 4 * 4
    body = body + b'\0' * (total - 1 - len(body) - 4)
    h = bytes([total // 4 - 1]) + body
    h += struct.pack('<I', zlib.crc32(h))
    i = b'\0' + _varint(1) + _varint(total + comp_sz + check_sz) + _varint(uncomp)
    i += b'\0' * (-len(i) % 4)
    i += struct.pack('<I', zlib.crc32(i))
    f = struct.pack('<I', len(i) // 4 - 1) + raw[6:8]
    f = struct.pack('<I', zlib.crc32(f)) + f + b'YZ'
    return raw[:12] + h + blockdata + i + f, 12 + 2


def tar_with_header_fields(data, size=None, mtime=None):
    """a one-member ustar/GNU archive whose size / mtime header fields are overwritten (octal, or GNU base-256 when the value
    does not fit 11 octal digits or is negative), header checksum recomputed"""
    import io
    import tarfile
    bio = io.BytesIO()
    with tarfile.open(fileobj=bio, mode='w', format=tarfile.GNU_FORMAT) as tf:
        ti = tarfile.TarInfo('t.log')
        ti.size = len(data)
        ti.mtime = 1700000000
        tf.addfile(ti, io.BytesIO(data))
    b = bytearray(bio.getvalue())

    def field(v, width):
        if 0 <= v < 8 ** (width - 1):
            return (b'%0*o' % (width - 1, v)) + b'\0'
        return bytes([0x80 if v >= 0 else 0xFF]) + (v % (1 << (8 * (width - 1)))).to_bytes(width - 1, 'big')
    if size is not None:
        b[124:136] = field(size, 12)
    if mtime is not None:
        b[136:148] = field(mtime, 12)
    b[148:156] = b' ' * 8
    b[148:156] = b'%06o\0 ' % sum(b[:512])
    return bytes(b)


def structured_mutants(valids):
    """well-formed containers whose OPTIONAL or NUMERIC header fields carry extreme values (a field a reader may trust before
    any checksum is verified): list of (name, bytes, description)"""
    import struct
    log = valids['t.log']
    out = []
    for wc in (False, True):
        good, off = xz_with_size_fields(log, wc)
        out.append(('sz%d.log.xz' % wc, good, 'valid xz with Block Header size fields' + (' (compressed + uncompressed)' if wc else ' (uncompressed)')))
        for tag, val in (('huge', b'\xff' * 8 + b'\x3f'), ('2^40', _varint(1 << 40)), ('zero', b'\x00'), ('plus1', _varint(len(log) + 1))):
            bad = bytearray(good)
            bad[off:off + len(val)] = val
            out.append(('sz%d_%s.log.xz' % (wc, tag), bytes(bad), f'xz Block Header first size field overwritten with {tag} (header CRC not recomputed)'))
    gz = valids['t.log.gz']
    for tag, v in (('ffffffff', 0xFFFFFFFF), ('7fffffff', 0x7FFFFFFF), ('zero', 0), ('plus1', len(log) + 1), ('minus1', len(log) - 1)):
        out.append(('isize_%s.log.gz' % tag, gz[:-4] + struct.pack('<I', v), f'gzip ISIZE trailer = {tag}'))
    for tag, kw in (('mtime2^62', {'mtime': 1 << 62}), ('mtime2^64-1', {'mtime': (1 << 64) - 1}), ('mtime-5', {'mtime': -5}), ('mtime_y9999', {'mtime': 253402300800}),
                    ('size2^62', {'size': 1 << 62}), ('size8g', {'size': 8 ** 11 - 1}), ('size0', {'size': 0}), ('size+1', {'size': len(log) + 1}), ('size-1', {'size': -1})):
        out.append(('hdr_%s.tar' % tag.replace('^', '').replace('+', 'p').replace('-', 'm'), tar_with_header_fields(log, **kw), f'tar member header {tag}, checksum recomputed'))
    return out


def run_case(ctx, rng, work, bad, goods, summary=False):
    paths = []
    order = rng.shuffle([('bad', None)] + [('good', g) for g in goods]) if goods else [('bad', None)]
    for kind, g in order:
        paths.append(bad if kind == 'bad' else g['path'])
    trace = os.path.join(work, 'trace')
    env = {'S4_VERIF_TRACE': trace}
    if rng.chance(1, 2):
        env['S4_VERIF_DELAYS'] = '%d:500' % rng.below(10000)
    # every third run also asks for --summary: the code that runs after the printing loop sees the failed sources' (dummy) summaries too
    rc, out, err, wall = e2e.s4(e2e.BASE_ARGS + ['-n'] + (['--summary'] if summary else []) + paths, env=env, timeout=TIME_LIMIT)
    toks = e2e.parse_trace(trace) if os.path.exists(trace) else []
    if os.path.exists(trace):
        os.unlink(trace)
    return paths, rc, out, err, wall, toks


def oracle_and_corr(ctx):
    rng = e2e.Rng(ctx.seed * 61 + 37)
    work = os.path.join(ctx.work, 'm')
    os.makedirs(work, exist_ok=True)
    valids = valid_sources(ctx, rng, work)
    names = sorted(valids)
    n = ctx.q(110, 1500)
    failures, samples, cases = [], [], []
    outcomes = {}
    ev = 0
    plan = [(names[k % len(names)], k // len(names) + (k % 7)) for k in range(n)]
    # every container kind also gets the 'complete file + trailing bytes' mutants deterministically (mode 7)
    plan += [(nm, 7 + 8 * r) for nm in names if nm != 't.log' for r in range(ctx.q(2, 8))]
    smut = structured_mutants(valids)
    plan += [('@structured', j) for j in range(len(smut))]
    for k, (name, kk) in enumerate(plan):
        if name == '@structured':
            bname, bdata, desc = smut[kk]
        else:
            bname, bdata, desc = mutate(rng, name, valids[name], kk)
        bname = 'k%d_%s' % (k, bname)
        bad = os.path.join(work, bname)
        open(bad, 'wb').write(bdata)
        ngood = rng.pick([0, 1, 1, 2, 3])
        goods = coord_common.make_sources(rng, work, ngood, kinds=('plain', 'gz'), max_msgs=15) if ngood else []
        with_summary = k % 3 == 1
        paths, rc, out, err, wall, toks = run_case(ctx, rng, work, bad, goods, summary=with_summary)
        ev += 1
        case = {'mutant': desc, 'bad_name': bname, 'bad_bytes': len(bdata), 'good_sources': [g['name'] for g in goods], 'order': [os.path.basename(p) for p in paths], 'summary': with_summary}
        oc = 'rc%d' % rc
        outcomes[oc] = outcomes.get(oc, 0) + 1
        if rc not in (0, 1) or b'panicked at' in err or b'RUST_BACKTRACE' in err:
            failures.append({'signature': 'malformed:crash-or-bad-exit-status', 'detail': f'rc={rc} wall={wall:.1f}s stderr tail={err[-400:]!r}', 'case': case,
                             'bad_file_hex': bdata.hex() if len(bdata) <= 8000 else 'large', 'args': e2e.BASE_ARGS + ['-n'] + (['--summary'] if with_summary else []) + case['order']})
        elif wall > TIME_LIMIT - 1:
            failures.append({'signature': 'malformed:hang', 'detail': f'no exit within {TIME_LIMIT}s', 'case': case})
        else:
            # healthy sources: all their messages, in merge order
            if goods:
                byname = {g['name']: g for g in goods}
                order_names = [os.path.basename(p) for p in paths if os.path.basename(p) in byname]
                exp_merged = e2e.merge_expected([byname[nm]['msgs'] for nm in order_names])
                exp_lines = []
                for si, (t, b) in exp_merged:
                    for ln in b.split(b'\n')[:-1]:
                        exp_lines.append(order_names[si].encode() + b':' + ln)
                # a stray NUL (known finding F12, C08) may follow an accounting record's newline: ignore it for attribution
                got = [l.lstrip(b'\0') for l in out.split(b'\n')]
                got = [l for l in got if any(l.startswith(nm.encode() + b':') for nm in order_names)]
                if got != exp_lines:
                    failures.append({'signature': 'malformed:healthy-source-disturbed', 'case': case,
                                     'detail': f'healthy lines printed {len(got)} expected {len(exp_lines)}; stderr tail={err[-200:]!r}',
                                     'bad_file_hex': bdata.hex() if len(bdata) <= 8000 else 'large'})
            if toks:
                nsrc = len(paths)
                nprinted = sum(1 for t in toks if t.startswith('P:'))
                cases.append((nsrc, toks, nprinted))
        if len(samples) < 4 and k % 9 == 0:
            samples.append({'oracle': 'C07 malformed', **case, 'rc': rc, 'wall_s': round(wall, 2), 'stdout_bytes': len(out)})
        for g in goods:
            if os.path.exists(g['path']):
                os.unlink(g['path'])
        os.unlink(bad)
    orc = {'evaluations': ev, 'distinct_nontrivial': ev, 'failures': failures, 'samples': samples, 'exit_status_histogram': outcomes,
           'rule': f'{n} mutants (truncation at boundary and random points, header bit flips, byte smashes, random bytes, constant fill, duplicated tail, complete file + trailing junk / second member, well-formed xz / gzip / tar files whose size and time header fields carry extreme values, valid content under '
                   f'15 mismatching names) of valid text/gz/bz2/xz/lz4/tar/wtmp/evtx/journal files, alone and beside 1-3 valid sources in shuffled order, half under delay plans, every third run with --summary; '
                   f'exit status in {{0,1}}, no panic text, exit within {TIME_LIMIT}s, healthy sources\' lines all printed in merge order; every mutant is distinct (fresh PRNG draw)'}
    corr = coord_common.trace_correspondence(ctx, [(n_, t, p) for n_, t, p in cases if t and t[-1] == 'E'])
    return orc, [corr]


def known_evtx_size0_witness(ctx):
    """F38: ONE 4-byte edit of the shipped .evtx sample (the size field of a record set to 0) makes the evtx crate's chunk iterator yield the
    same Err for ever (it advances by the record's size field after a failed record) while `records()` collects them into an unbounded Vec:
    EvtxReader::analyze never returns, memory grows, nothing is printed - also for a healthy source named beside it. Found by the EvtxTie slice."""
    import struct
    src = os.path.join(core.REPO, 'logs/programs/evtx/Microsoft-Windows-Kernel-PnP%4Configuration.evtx')
    fails, ev = [], 0
    if os.path.exists(src):
        d = bytearray(open(src, 'rb').read())
        p = 4096 + 65536 + 512
        for _ in range(2):
            p += struct.unpack_from('<I', d, p + 4)[0]
        if d[p:p + 4] == b'\x2a\x2a\x00\x00':
            struct.pack_into('<I', d, p + 4, 0)
            work = os.path.join(ctx.work, 'size0')
            os.makedirs(work, exist_ok=True)
            bad = os.path.join(work, 'size0.evtx')
            open(bad, 'wb').write(bytes(d))
            rc, out, err, wall = e2e.s4(e2e.BASE_ARGS + [bad], timeout=8)
            ev += 1
            if rc == -9:
                fails.append({'signature': 'malformed:evtx-record-size-zero-never-returns', 'detail': f'no exit within 8 s ({len(out)} bytes on stdout)',
                              'case': {'mutant': 'shipped .evtx sample, size field of the record at file offset %d set to 0' % p}})
            elif rc not in (0, 1) or b'panicked at' in err:
                fails.append({'signature': 'malformed:crash-or-bad-exit-status', 'detail': f'rc={rc} {err[-200:]!r}', 'case': {'mutant': 'evtx record size 0'}})
            os.unlink(bad)
    return {'evaluations': ev, 'distinct_nontrivial': ev, 'failures': fails, 'samples': [], 'rule': 'witness of known finding F38 (evtx record with size field 0) replayed on the binary with an 8 s limit'}


def check(ctx):
    ok_gen = core.step_gen(ctx, ['Consts', 'Blocks', 'Coord', 'Worker'])
    prove = core.step_prove(ctx, MODS) if ok_gen else {'module': ' '.join(MODS), 'obligations': 0, 'discharged': 0}
    core.step_drv(ctx) if (ok_gen or ctx.search_mode) else False
    ok_impl = core.step_build_impl(ctx)
    orc, corr = (None, [])
    if ok_impl:
        orc, corr = oracle_and_corr(ctx)
        orc = core.merge_oracles([orc, known_evtx_size0_witness(ctx)])
        # every worker's observed receive sequence (all source kinds, damaged inputs, error paths) must be a trace of the regenerated worker skeleton
        corr = list(corr) + [worker_traces.correspondence(ctx, ctx.q(60, 500))]
    return core.decide(ctx, prove, corr, orc, LEVEL_NOTE, ASSUME)


def replay(ctx, data):
    return core.generic_replay(ctx, data)
