"""C01 — merged output is chronological, with a deterministic tie rule."""
import os

from vlib import core, coord_common, e2e

MODS = ['S4V.Props.C06', 'S4V.Props.CoordSpec', 'S4V.Props.CoordSkelSpec', 'S4V.Props.CoordSkelMutants']
LEVEL_NOTE = ("Proved: the coordinator's output for every schedule is merge(scripts) (confluence), and merge keeps each source's order "
              "(merge_per_source), always emits a minimum over all current heads with lower PathIds strictly later (minHead_spec), is sorted when every source "
              "is (merge_sorted) and orders equal instants by PathId (merge_ties). Instants are Int nanoseconds, as DateTime<FixedOffset>::cmp compares; that the source picks with `iter_mut().min_by(|x, y| x.1.0.dt().cmp(y.1.0.dt()))` over a BTreeMap keyed "
              "by PathId is re-read from processing_loop on every run (gen_coord.py; C01_pick_matches_source; any other picker/comparator fails the translation). "
              "Tied to the code by trace replay under delay plans and by comparing the binary's output on tie-heavy multi-source inputs, in shuffled argument "
              "order, with the reference merge. Directory order: C15.")
ASSUME = ["Iterator::min_by returns the first of several equal minima; BTreeMap iterates in key (PathId) order",
          "PathIds follow argument order (enumerate over paths_results)"]


def naming_forms_oracle(ctx, n):
    """The tie rule is 'the source named first': the same sources named as arguments, spliced in through `-` (stdin) at
    the front / in the middle / at the end, or partly on stdin, must give the reference merge in that naming order."""
    rng = e2e.Rng(ctx.seed * 6151 + 3)
    fails, ev = [], 0
    for k in range(n):
        work = os.path.join(ctx.work, 'nf%d' % k)
        os.makedirs(work, exist_ok=True)
        srcs = rng.shuffle(coord_common.make_sources(rng, work, rng.range(3, 5), kinds=('plain', 'plain', 'gz'), tie_heavy=True))
        exp, _ = coord_common.expected_stdout(srcs)
        names = [s['name'] for s in srcs]
        i = rng.range(0, len(names) - 1)
        j = rng.range(i + 1, len(names))
        forms = [(names, None),
                 (names[:i] + ['-'] + names[j:], names[i:j]),          # stdin in the middle (or at an end)
                 (['-'] + names[1:], names[:1]),                          # first source on stdin, the others after it
                 (names[:1] + ['-'], names[1:])]                          # the tail on stdin
        for argv, stdin_names in forms:
            data = None if stdin_names is None else ('\n'.join(stdin_names) + '\n').encode()
            rc, out, err, _ = e2e.s4(e2e.BASE_ARGS + argv, cwd=work, stdin=data)
            ev += 1
            if rc != 0 or out != exp:
                fails.append({'signature': 'merge:tie-order-depends-on-naming-form', 'case': {'argv': argv, 'stdin': stdin_names, 'sources': names},
                              'detail': f'rc={rc} ' + coord_common.first_diff(out, exp),
                              'files': {s['name']: s['log'].data.hex() for s in srcs} if sum(len(s['log'].data) for s in srcs) < 20000 else 'large'})
        # the same tie rule for a WALKED directory: sources are named in sorted path order, an archive's members at the archive's
        # position. Plain, compressed and archived logs side by side, names chosen so that an archive sorts before, between and after them.
        wd = os.path.join(work, 'walk')
        os.makedirs(wd, exist_ok=True)
        wsrcs = coord_common.make_sources(rng, wd, rng.range(3, 5), kinds=('plain', 'tar', 'gz', 'tar'), tie_heavy=True)
        wsrcs.sort(key=lambda s_: s_['name'].encode())
        wexp, _ = coord_common.expected_stdout(wsrcs)
        for argv in (['walk'], [os.path.join('walk', s_['name']) for s_ in wsrcs]):
            rc, out, err, _ = e2e.s4(e2e.BASE_ARGS + argv, cwd=work)
            ev += 1
            if rc != 0 or out != wexp:
                fails.append({'signature': 'merge:tie-order-in-walked-directory', 'case': {'argv': argv, 'sources': [s_['name'] for s_ in wsrcs]},
                              'detail': f'rc={rc} ' + coord_common.first_diff(out, wexp),
                              'files': {s_['name']: s_['log'].data.hex() for s_ in wsrcs} if sum(len(s_['log'].data) for s_ in wsrcs) < 20000 else 'large'})
    return {'evaluations': ev, 'distinct_nontrivial': ev, 'failures': fails, 'samples': [],
            'rule': f'{n} tie-heavy inputs of 3-5 sources x 4 naming forms + the same kind of input (plain / gz / tar side by side) as a walked directory and as its sorted explicit list (all arguments; `-` splicing stdin names in the middle, at the front, at the end): '
                    'stdout must equal the reference merge in naming order'}


def check(ctx):
    state = {}

    def oracle(c):
        res, cases = coord_common.multi_source_oracle(c, c.q(10, 80), c.q(3, 10), kinds=('plain', 'plain', 'plain', 'gz', 'tar'),
                                                      sigprefix='merge', tie_heavy_ratio=(3, 4))
        res2, cases2 = coord_common.stall_oracle(c, c.q(2, 12), sigprefix='merge')
        state['cases'] = cases + cases2
        return core.merge_oracles([res, res2, naming_forms_oracle(c, c.q(6, 40))])

    def extra(c):
        return [coord_common.trace_correspondence(c, state.get('cases', []))]

    return core.standard_check(ctx, ['Consts', 'Coord'], MODS, [], oracle, LEVEL_NOTE, ASSUME, extra_corr_fn=extra)


def replay(ctx, data):
    return core.generic_replay(ctx, data)
