"""C01 — merged output is chronological, with a deterministic tie rule."""
from vlib import core, coord_common

MODS = ['S4V.Props.C06', 'S4V.Props.CoordSpec']
LEVEL_NOTE = ("Proved: the coordinator's output for every schedule is merge(scripts) (confluence), and merge keeps each source's order "
              "(merge_per_source), always emits a minimum over all current heads with lower PathIds strictly later (minHead_spec), is sorted when every source "
              "is (merge_sorted) and orders equal instants by PathId (merge_ties). Instants are Int nanoseconds, as DateTime<FixedOffset>::cmp compares; that the source picks with `iter_mut().min_by(|x, y| x.1.0.dt().cmp(y.1.0.dt()))` over a BTreeMap keyed "
              "by PathId is re-read from processing_loop on every run (gen_coord.py; C01_pick_matches_source; any other picker/comparator fails the translation). "
              "Tied to the code by trace replay under delay plans and by comparing the binary's output on tie-heavy multi-source inputs, in shuffled argument "
              "order, with the reference merge. Directory order: C15.")
ASSUME = ["Iterator::min_by returns the first of several equal minima; BTreeMap iterates in key (PathId) order",
          "PathIds follow argument order (enumerate over paths_results)"]


def check(ctx):
    state = {}

    def oracle(c):
        res, cases = coord_common.multi_source_oracle(c, c.q(10, 80), c.q(3, 10), kinds=('plain', 'plain', 'plain', 'gz', 'tar'),
                                                      sigprefix='merge', tie_heavy_ratio=(3, 4))
        res2, cases2 = coord_common.stall_oracle(c, c.q(2, 12), sigprefix='merge')
        state['cases'] = cases + cases2
        return core.merge_oracles([res, res2])

    def extra(c):
        return [coord_common.trace_correspondence(c, state.get('cases', []))]

    return core.standard_check(ctx, ['Consts', 'Coord'], MODS, [], oracle, LEVEL_NOTE, ASSUME, extra_corr_fn=extra)


def replay(ctx, data):
    return core.generic_replay(ctx, data)
