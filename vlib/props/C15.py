"""C15 — directories and stdin path lists expand to the same run as explicit files."""
import os
import shutil

from vlib import core, e2e

MODS = ['S4V.Props.WalkSpec', 'S4V.Props.C16']
LEVEL_NOTE = ("Proved on the model `S4V.Model.Walk` (process_path's two branches, jwalk's per-directory filter+sort+depth-first walk, "
              "the '-' loop of cli_process_args, PathId = position): the walk lists files in strict component-wise path order (C15_walk_order; "
              "not the byte order of the joined strings, C15_not_string_order), is a rearrangement of all files when hidden entries are included "
              "(C15_walk_complete) and for every tree without dot-names (C15_partial); for such trees expanding the directory equals expanding the "
              "sorted explicit list of its files whose name is not a known non-log type, with identical types (C15_dir_eq_explicit, via C16_same_type); "
              "a named file is always attempted (C15_explicit_always/_type); the first '-' is replaced in place by the stdin lines and later ones are "
              "dropped (C15_stdin, C15_stdin_equiv); PathIds follow list order (C15_pathid*). C15_full is FALSE on the unchanged source (generated flag "
              "walkIncludesHidden=false; C15_full_false, finding F10); naming a link classifies the target's name, walking classifies the link's name "
              "(C15_link_same_type_full_false). Tied to the code by in-process process_path runs on generated directory trees and by the binary.")
ASSUME = ["jwalk 0.8.1 behaviour as read from its source (entries filtered by is_hidden unless skip_hidden(false), sorted by file_name bytes, depth-first, "
          "links followed and reported under the link's name) — validated differentially on generated trees, not proved",
          "the file system gives distinct names to the entries of a directory; link loops are outside the model",
          "members of tar archives (process_path_tar) are outside this property's model",
          "merge order given PathIds is C01"]

TS0 = 1672531200


# ------------------------------------------------------------------ trees

FILE_LOG = ['a.log', 'b.log', 'sys log.log', '日本語.log', 'UPPER.LOG', 'Zed.log', 'a-b', 'a-b.log', 'a', 'a.b', 'a!', 'a0', 'A', 'noext',
            'messages.1', 'k.1', 'README', 'a.log~', 'é.txt', 'a b']
FILE_GZ = ['c.log.gz', 'core.1.gz']
FILE_NONLOG = ['x.png', 'pic.PNG', 'm.zip', 'lib.so']
DIRS = ['a', 'a-b', 'a.d', 'A', 'sub dir', '日本', 'd.log', 'z', 'a b', 'b.png', 'var']
HIDDEN_FILES = ['.b.log', '.hidden']
HIDDEN_DIRS = ['.hid', '.git']


class Tree:
    """entries: list of (kind, name, payload); kind in F (payload = tag), D (children), LF (target name, tag), LD (target name, children)"""

    def __init__(self):
        self.counter = 0

    def tag(self):
        self.counter += 1
        return 'T%03d' % self.counter


def gen_children(rng, tr, depth, budget, hidden):
    want = rng.range(1, 6) if depth == 0 else rng.below(5)
    used = set()
    out = []
    for _ in range(want):
        if budget[0] <= 0:
            break
        k = rng.below(100)
        if depth < 3 and 60 <= k < 85:
            name = rng.pick(HIDDEN_DIRS) if hidden and rng.chance(1, 3) else rng.pick(DIRS)
            kind = 'D'
        elif depth < 3 and 85 <= k < 91:
            name = rng.pick(DIRS)
            kind = 'LD'
        elif 91 <= k < 97:
            name = rng.pick(FILE_LOG)
            kind = 'LF'
        else:
            pool = FILE_LOG if k < 40 else (FILE_GZ if k < 46 else (FILE_NONLOG if k < 56 else FILE_LOG))
            name = rng.pick(HIDDEN_FILES) if hidden and rng.chance(1, 4) else rng.pick(pool)
            kind = 'F'
        if name in used:
            continue
        used.add(name)
        budget[0] -= 1
        if kind == 'D':
            out.append(('D', name, gen_children(rng, tr, depth + 1, budget, hidden)))
        elif kind == 'LD':
            out.append(('LD', name, (rng.pick(DIRS), gen_children(rng, tr, depth + 1, budget, hidden))))
        elif kind == 'LF':
            # target of the same kind of name (the link-name/target-name difference is a separate oracle)
            out.append(('LF', name, (rng.pick(FILE_LOG), tr.tag())))
        else:
            out.append(('F', name, tr.tag()))
    return out


def file_bytes(rng, name, tag):
    nm = rng.range(1, 5)
    log = e2e.gen_log(rng, nm, start=TS0, steps=(0, 0, 1, 2), cont_prob=(1, 6), maxlen=24, weird=False, tag=tag.encode() + b' ')
    return log.data


def write_file(rng, path, name, tag):
    data = file_bytes(rng, name, tag)
    if name.lower().endswith('.gz'):
        e2e.pack(data, 'gz', path)
    else:
        with open(path, 'wb') as f:
            f.write(data)


def build(rng, dirpath, children, targets, nt):
    for kind, name, payload in children:
        p = os.path.join(dirpath, name)
        if kind == 'F':
            write_file(rng, p, name, payload)
        elif kind == 'D':
            os.mkdir(p)
            build(rng, p, payload, targets, nt)
        elif kind == 'LF':
            tname, tag = payload
            td = os.path.join(targets, 't%d' % nt[0])
            nt[0] += 1
            os.makedirs(td)
            write_file(rng, os.path.join(td, tname), tname, tag)
            os.symlink(os.path.join(td, tname), p)
        else:
            tname, cs = payload
            td = os.path.join(targets, 't%d' % nt[0])
            nt[0] += 1
            os.makedirs(os.path.join(td, tname))
            build(rng, os.path.join(td, tname), cs, targets, nt)
            os.symlink(os.path.join(td, tname), p)


def all_files(children, prefix=()):
    """component paths of every file (links resolved), unsorted"""
    out = []
    for kind, name, payload in children:
        if kind in ('F', 'LF'):
            out.append(prefix + (name,))
        elif kind == 'D':
            out += all_files(payload, prefix + (name,))
        else:
            out += all_files(payload[1], prefix + (name,))
    return out


def key(p):
    return tuple(c.encode() for c in p)


def is_nonlog(name):
    return name in FILE_NONLOG


def is_hidden_path(p):
    return any(c.startswith('.') for c in p)


def hx(s):
    b = s.encode() if isinstance(s, str) else s
    return b.hex() if b else '-'


def spec_of(children):
    toks = [str(len(children))]

    def enc(cs):
        for kind, name, payload in cs:
            if kind == 'F':
                toks.append('F:' + hx(name))
            elif kind == 'D':
                toks.append('D:%s:%d' % (hx(name), len(payload)))
                enc(payload)
            elif kind == 'LF':
                toks.append('LF:%s:%s' % (hx(name), hx(payload[0])))
            else:
                toks.append('LD:%s:%s:%d' % (hx(name), hx(payload[0]), len(payload[1])))
                enc(payload[1])
    enc(children)
    return ','.join(toks)


def model_walk(spec):
    """ordered [(relative path str, outcome)] the model predicts for `process_path(dir)`"""
    rc, out, _, _ = core.run([core.DRV], input=('walk tree %s\n' % spec).encode())
    line = out.decode(errors='replace').strip()
    if rc != 0 or line in ('bad-op', '') or line.startswith('panic'):
        return None
    if line == '-':
        return []
    res = []
    for part in line.split(';'):
        h, o = part.split('=', 1)
        res.append((bytes.fromhex(h).decode(errors='replace'), o))
    return res


def run_s4(args, cwd, stdin=None):
    rc, out, err, _ = e2e.s4(e2e.BASE_ARGS + list(args), cwd=cwd, stdin=stdin)
    return rc, out, err


def first_diff(a, b):
    la, lb = a.split(b'\n'), b.split(b'\n')
    for i, (x, y) in enumerate(zip(la, lb)):
        if x != y:
            return 'line %d: %r vs %r' % (i, x[:80], y[:80])
    return 'lengths %d vs %d lines' % (len(la), len(lb))


# ------------------------------------------------------------------ oracles

def oracle_trees(ctx, n):
    """no hidden names: `s4 DIR` = `s4 <sorted explicit kept files>` = stdin forms"""
    rng = e2e.Rng(ctx.seed * 59 + 3)
    fails, samples, ev, distinct = [], [], 0, set()
    have_drv = os.path.exists(core.DRV)
    for k in range(n):
        tr = Tree()
        children = gen_children(rng, tr, 0, [12], hidden=False)
        work = os.path.join(ctx.work, 'c15_%d' % k)
        shutil.rmtree(work, ignore_errors=True)
        os.makedirs(os.path.join(work, 'd'))
        build(rng, os.path.join(work, 'd'), children, os.path.join(work, 'targets'), [0])
        files = sorted(all_files(children), key=key)
        kept = ['/'.join(('d',) + p) for p in files if not is_nonlog(p[-1])]
        spec = spec_of(children)
        distinct.add(spec)
        extra = ['-p'] if k % 2 else []
        rc_a, out_a, err_a = run_s4(extra + ['d'], work)
        ev += 1

        def fail(sig, detail):
            fails.append({'signature': sig, 'detail': detail, 'spec': spec, 'args': extra})

        if have_drv:
            pred = model_walk(spec)
            ev += 1
            if pred is None:
                fail('walk:model-no-prediction', spec)
            else:
                mk = ['d/' + p for p, o in pred if o not in ('NotSupported', 'Err')]
                if mk != kept:
                    fail('walk:model-vs-sorted-list', 'model %r vs sorted kept %r' % (mk[:6], kept[:6]))
        if not kept:
            if out_a != b'':
                fail('walk:dir-vs-explicit-differs', 'no kept file but output %r' % out_a[:80])
            continue
        rc_b, out_b, _ = run_s4(extra + kept, work)
        ev += 1
        if out_a != out_b or rc_a != rc_b:
            fail('walk:dir-vs-explicit-differs', 'rc %d/%d; ' % (rc_a, rc_b) + first_diff(out_a, out_b))
        # all on stdin
        rc_c, out_c, _ = run_s4(extra + ['-'], work, stdin=('\n'.join(kept) + '\n').encode())
        ev += 1
        if out_c != out_b or rc_c != rc_b:
            fail('walk:stdin-vs-args-differs', 'all on stdin: rc %d/%d; ' % (rc_c, rc_b) + first_diff(out_c, out_b))
        # stdin in the middle, CRLF line ends / no final newline, a second '-'
        i = rng.below(len(kept) + 1)
        j = rng.range(i, len(kept))
        mid = kept[i:j]
        eol = '\r\n' if rng.chance(1, 3) else '\n'
        data = eol.join(mid) + (eol if mid and rng.chance(2, 3) else '')
        tail_dash = ['-'] if rng.chance(1, 3) else []
        rc_d, out_d, err_d = run_s4(extra + kept[:i] + ['-'] + kept[j:] + tail_dash, work, stdin=data.encode())
        ev += 1
        if out_d != out_b or rc_d != rc_b:
            fail('walk:stdin-vs-args-differs', 'split %d:%d eol=%r second-dash=%s: rc %d/%d; ' % (i, j, eol, bool(tail_dash), rc_d, rc_b)
                 + first_diff(out_d, out_b))
        if tail_dash and b'more than once' not in err_d:
            fail('walk:second-dash-not-warned', err_d[-120:].decode(errors='replace'))
        # the directory itself on stdin
        rc_e, out_e, _ = run_s4(extra + ['-'], work, stdin=b'd\n')
        ev += 1
        if out_e != out_a or rc_e != rc_a:
            fail('walk:stdin-vs-args-differs', 'directory on stdin: ' + first_diff(out_e, out_a))
        # an explicitly named non-log file is attempted
        nl = ['/'.join(('d',) + p) for p in files if is_nonlog(p[-1])]
        if nl:
            rc_f, out_f, _ = run_s4([nl[0]], work)
            ev += 1
            if out_f == b'':
                fail('walk:named-nonlog-not-attempted', nl[0])
        if len(samples) < 3:
            samples.append({'oracle': 'C15 dir=explicit=stdin', 'spec': spec[:200], 'kept': len(kept), 'files': len(files),
                            'stdout_bytes': len(out_a)})
        shutil.rmtree(work, ignore_errors=True)
    return {'evaluations': ev, 'distinct_nontrivial': len(distinct), 'failures': fails, 'samples': samples,
            'rule': f'{n} generated directory trees (nesting<=3, <=12 entries, links to files and directories, spaces, non-ASCII, upper case, '
                    'names ordered differently as joined strings; equal instants across files so the tie order is visible; every second tree with -p): '
                    'stdout and exit status of `s4 DIR`, `s4 <sorted kept files>`, all on stdin, stdin in the middle (CRLF, second -), DIR on stdin; '
                    'model prediction of the kept list; distinct = distinct tree specs'}


def oracle_hidden(ctx, n):
    """trees WITH dot-files / dot-directories: the property wants them read"""
    rng = e2e.Rng(ctx.seed * 61 + 5)
    fails, samples, ev, distinct = [], [], 0, set()
    cases = [[('F', 'a.log', 'T001'), ('F', '.b.log', 'T002'), ('D', '.hid', [('F', 'c.log', 'T003')])]]
    for _ in range(n):
        tr = Tree()
        cases.append(gen_children(rng, tr, 0, [10], hidden=True))
    for k, children in enumerate(cases):
        files = sorted(all_files(children), key=key)
        if not any(is_hidden_path(p) and not is_nonlog(p[-1]) for p in files):
            continue
        work = os.path.join(ctx.work, 'c15h_%d' % k)
        shutil.rmtree(work, ignore_errors=True)
        os.makedirs(os.path.join(work, 'd'))
        build(rng, os.path.join(work, 'd'), children, os.path.join(work, 'targets'), [0])
        spec = spec_of(children)
        distinct.add(spec)
        kept_all = ['/'.join(('d',) + p) for p in files if not is_nonlog(p[-1])]
        kept_vis = ['/'.join(('d',) + p) for p in files if not is_nonlog(p[-1]) and not is_hidden_path(p)]
        rc_a, out_a, _ = run_s4(['d'], work)
        rc_b, out_b, _ = run_s4(kept_all, work)
        ev += 2
        if out_a != out_b:
            out_v = run_s4(kept_vis, work)[1] if kept_vis else b''
            ev += 1
            if out_a == out_v:
                fails.append({'signature': 'walk:hidden-entries-skipped', 'spec': spec,
                              'detail': '`s4 d` prints what the explicit list WITHOUT dot-names prints (%d of %d files): %s'
                                        % (len(kept_vis), len(kept_all), [p for p in kept_all if p not in kept_vis][:4])})
            else:
                fails.append({'signature': 'walk:dir-vs-explicit-differs', 'spec': spec, 'detail': 'hidden tree: ' + first_diff(out_a, out_b)})
        if len(samples) < 2:
            samples.append({'oracle': 'C15 hidden', 'spec': spec[:160], 'hidden_files': len(kept_all) - len(kept_vis)})
        shutil.rmtree(work, ignore_errors=True)
    return {'evaluations': ev, 'distinct_nontrivial': len(distinct), 'failures': fails, 'samples': samples,
            'rule': 'trees containing dot-files and dot-directories: `s4 DIR` vs the sorted explicit list of every kept file including hidden ones'}


def oracle_corners(ctx):
    """three fixed witnesses found while tying the model to process_path"""
    fails, ev = [], 0
    work = os.path.join(ctx.work, 'c15x')
    shutil.rmtree(work, ignore_errors=True)
    os.makedirs(os.path.join(work, 'd'))
    os.makedirs(os.path.join(work, 't'))
    body = b'2023-01-01 00:00:01 G1\n2023-01-01 00:00:03 G3\n'
    # link whose target name has another type
    e2e.pack(body, 'gz', os.path.join(work, 't', 't.gz'))
    os.symlink(os.path.join(work, 't', 't.gz'), os.path.join(work, 'd', 'l.log'))
    _, out_dir, _ = run_s4(['d'], work)
    _, out_named, _ = run_s4(['d/l.log'], work)
    ev += 2
    if out_dir != out_named:
        fails.append({'signature': 'walk:link-typed-by-link-name',
                      'detail': 'd/l.log -> t.gz: `s4 d` prints %d bytes, `s4 d/l.log` prints %d bytes' % (len(out_dir), len(out_named))})
    # a file name that is not UTF-8
    wb = work.encode()
    os.makedirs(os.path.join(wb, b'e'))
    with open(os.path.join(wb, b'e', b'\xff.log'), 'wb') as f:
        f.write(body)
    with open(os.path.join(wb, b'e', b'k.log'), 'wb') as f:
        f.write(body.replace(b'G', b'K'))
    rc, out, err = run_s4(['e'], work)
    ev += 1
    if b'G1' not in out:
        fails.append({'signature': 'walk:non-utf8-name-unreadable',
                      'detail': 'e/\\xFF.log is classified from its bytes but opened under its lossy name: rc=%d %s'
                                % (rc, err.decode(errors='replace').strip().splitlines()[-1:])})
    # a tar-named file below a directory whose name is not UTF-8
    os.makedirs(os.path.join(wb, b'f', b'\xffd'))
    with open(os.path.join(wb, b'f', b'\xffd', b'data.tar'), 'wb') as f:
        f.write(b'junkjunk')
    rc, out, err = run_s4(['f'], work)
    ev += 1
    if rc not in (0, 1):
        fails.append({'signature': 'walk:tar-under-non-utf8-path-panics',
                      'detail': 'rc=%d %s' % (rc, [l for l in err.decode(errors='replace').splitlines() if 'panicked' in l or 'unwrap' in l][:2])})
    shutil.rmtree(work, ignore_errors=True)
    return {'evaluations': ev, 'distinct_nontrivial': 3, 'failures': fails, 'samples': [],
            'rule': 'fixed witnesses: link named *.log to *.gz; file name not UTF-8; *.tar below a non-UTF-8 directory'}


TAR_MEMBERS = ['app.log', 'dump.bin', 'run.sh', 'index.html', 'sub/inner.log', 'sub/deep/x.txt', 'pic.png', 'messages', 'notes.md', 'data.json',
               'core.1', 'old.log.1', 'Mixed.LOG', 'lib.so', 'm.zip']


def oracle_tars(ctx, n):
    """populated .tar archives below a directory: `s4 DIR` must expand them exactly as naming the archive does
    (every regular member attempted), whatever the members' suffixes"""
    import io
    import tarfile
    rng = e2e.Rng(ctx.seed * 67 + 9)
    fails, ev, distinct = [], 0, set()
    for k in range(n):
        work = os.path.join(ctx.work, 'c15t_%d' % k)
        shutil.rmtree(work, ignore_errors=True)
        sub = rng.pick(['', 'a', 'a/b', 'sub dir'])
        base = os.path.join(work, 'd', sub) if sub else os.path.join(work, 'd')
        os.makedirs(base)
        names = []
        tr = Tree()
        for fn in rng.shuffle(['a.log', 'z.log', 'm.log'])[:rng.range(0, 2)]:
            write_file(rng, os.path.join(base, fn), fn, tr.tag())
            names.append(fn)
        desc = []
        for ti in range(rng.range(1, 2)):
            tname = rng.pick(['bundle.tar', 'logs.tar', 'b.tar', 'x.TAR'])
            if tname in names:
                continue
            members = rng.shuffle(TAR_MEMBERS)[:rng.range(1, 5)]
            with tarfile.open(os.path.join(base, tname), 'w', format=rng.pick([tarfile.USTAR_FORMAT, tarfile.GNU_FORMAT])) as tf:
                for m in members:
                    data = file_bytes(rng, m, tr.tag()) if not rng.chance(1, 10) else b''
                    ti_ = tarfile.TarInfo(m)
                    ti_.size = len(data)
                    ti_.mtime = 1700000000
                    tf.addfile(ti_, io.BytesIO(data))
            names.append(tname)
            desc.append((tname, members))
        distinct.add(str(desc))
        rel = ('d/' + sub + '/') if sub else 'd/'
        kept = sorted((rel + x for x in names), key=lambda q: tuple(c.encode() for c in q.split('/')))
        rc_a, out_a, err_a = run_s4(['d'], work)
        rc_b, out_b, err_b = run_s4(kept, work)
        rc_c, out_c, _ = run_s4(['-'], work, stdin=('\n'.join(kept) + '\n').encode())
        ev += 3
        case = {'tree': {'dir': rel, 'files': names, 'tars': desc}}
        if (rc_a, out_a) != (rc_b, out_b):
            fails.append({'signature': 'walk:dir-vs-explicit-differs', 'case': case,
                          'detail': f'tar below a directory: `s4 d` rc {rc_a} {out_a.count(10)} lines vs explicit rc {rc_b} {out_b.count(10)} lines; ' + first_diff(out_a, out_b)})
        if (rc_c, out_c) != (rc_b, out_b):
            fails.append({'signature': 'walk:stdin-vs-args-differs', 'case': case, 'detail': 'tar named on stdin: ' + first_diff(out_c, out_b)})
        shutil.rmtree(work, ignore_errors=True)
    return {'evaluations': ev, 'distinct_nontrivial': len(distinct), 'failures': fails, 'samples': [],
            'rule': f'{n} directories holding 1-2 populated .tar archives (1-5 members out of log, non-log-suffix, nested, empty; ustar/gnu) next to plain logs: '
                    'stdout and exit status of `s4 DIR` == `s4 <sorted explicit paths>` == the same paths on stdin'}


def oracle(ctx):
    return core.merge_oracles([oracle_trees(ctx, ctx.q(25, 250)), oracle_hidden(ctx, ctx.q(10, 80)), oracle_corners(ctx), oracle_tars(ctx, ctx.q(12, 100))])


def check(ctx):
    return core.standard_check(ctx, ['PathTables'], MODS, [('walk', 2000, 30000)], oracle, LEVEL_NOTE, ASSUME)


def replay(ctx, data):
    f = data.get('failure') or {}
    print('replay: failure recorded:', f)
    core.step_build_impl(ctx, need_s4=True)
    core.step_drv(ctx)
    for b in data.get('broken_obligations', []):
        for d in b.get('disagreements', []) or []:
            rc, out, _, _ = core.run([core.S4H, 'walk', '--replay', '-'], input=(d['request'] + '\n').encode())
            rc2, out2, _, _ = core.run([core.DRV], input=(d['request'] + '\n').encode())
            print('request', d['request'], '\n  impl :', out.decode().strip(), '\n  model:', out2.decode().strip())
    if f.get('spec'):
        req = 'walk tree ' + f['spec']
        rc, out, _, _ = core.run([core.S4H, 'walk', '--replay', '-'], input=(req + '\n').encode())
        print('process_path on the recorded tree:', out.decode().strip())
    return 0
