"""Shared machinery for C01 / C06 / C07(isolation) / C19: multi-source runs of
the real binary under seeded delay plans, with the H1 event trace replayed
through the Lean `Coord` model."""
import os

from vlib import core, e2e


def make_sources(rng, work, nsrc, kinds=('plain',), tie_heavy=False, max_msgs=40, min_msgs=1, frac=False):
    """returns list of dicts {path, name, msgs:[(epoch, bytes)], log}"""
    srcs = []
    base = 1672531200 + rng.below(1000)
    for i in range(nsrc):
        n = rng.range(min_msgs, max_msgs)
        steps = (0, 0, 0, 1) if tie_heavy else (0, 1, 1, 2, 5, 30)
        log = e2e.gen_log(rng, n, start=base + rng.below(4), steps=steps, final_newline=not rng.chance(1, 4),
                          tag=('s%d ' % i).replace('0', 'o').replace('1', 'i').replace('2', 'z').replace('3', 'e')
                          .replace('4', 'a').replace('5', 'f').encode(), weird=False, body_min=4,
                          frac_choices=((0, 100, 400, 900, 1000, 1500, 999999999) if frac else None))
        kind = rng.pick(kinds)
        name = 'src%c.log%s' % (chr(ord('a') + i), e2e.SUFFIX[kind])
        path = os.path.join(work, name)
        e2e.pack(log.data, kind, path, inner_name='src%c.log' % chr(ord('a') + i))
        if kind == 'tar':
            path = path  # s4 is given the tar; the member is found by the walk
        msgs = []
        for k, (off, ln, t) in enumerate(log.msgs):
            b = log.data[off:off + ln]
            if k == len(log.msgs) - 1 and not b.endswith(b'\n'):
                b += b'\n'
            msgs.append((t * 1000000000 + log.ns[k], b))
        srcs.append({'path': path, 'name': name, 'msgs': msgs, 'log': log, 'kind': kind})
    return srcs


def expected_stdout(srcs):
    merged = e2e.merge_expected([s['msgs'] for s in srcs])
    return b''.join(m[1] for _, m in merged), merged


def run_with_trace(ctx, srcs, delay, k, extra_args=()):
    trace = os.path.join(ctx.work, 'trace.%d' % k)
    env = {'S4_VERIF_TRACE': trace}
    if delay is not None:
        env['S4_VERIF_DELAYS'] = delay
    rc, out, err, wall = e2e.s4(e2e.BASE_ARGS + list(extra_args) + [s['path'] for s in srcs], env=env, timeout=120)
    toks = e2e.parse_trace(trace) if os.path.exists(trace) else []
    try:
        os.unlink(trace)
    except OSError:
        pass
    return rc, out, err, wall, toks


def trace_correspondence(ctx, cases):
    """cases: list of (nsrc, toks, expected_printed). Pipes to the Lean driver."""
    if not cases:
        return {'component': 'coord', 'cases': 0, 'disagreements': [], 'distinct': 0, 'samples': []}
    # PathIds of sources for which no worker was spawned (empty / too small / unsupported files are
    # rejected before the loop) never occur in the trace: renumber the ones that do, keeping order
    norm = []
    for n, toks, p in cases:
        ids = sorted({int(t.split(':')[1]) for t in toks if ':' in t})
        ren = {old: new for new, old in enumerate(ids)}
        toks2 = [':'.join([t.split(':')[0], str(ren[int(t.split(':')[1])])] + t.split(':')[2:]) if ':' in t else t for t in toks]
        if ids:
            norm.append((len(ids), toks2, p))
    cases = norm
    if not cases:
        return {'component': 'coord', 'cases': 0, 'disagreements': [], 'distinct': 0, 'samples': []}
    reqs = ['coord %d %s' % (n, ' '.join(toks)) for n, toks, _ in cases]
    impl = ['ok printed=%d merged=true fin=true broke=false' % p for _, _, p in cases]
    rc, out, err, w = core.run([core.DRV], input=('\n'.join(reqs) + '\n').encode(), timeout=600)
    model = out.decode(errors='replace').splitlines()
    res = {'component': 'coord', 'cases': len(reqs), 'disagreements': [], 'distinct': len(set(reqs)),
           'model_wall_s': round(w, 1)}
    if rc != 0 or len(model) != len(reqs):
        ctx.broken.append({'kind': 'correspondence', 'name': 'coord',
                           'detail': f'driver rc={rc} replies={len(model)} of {len(reqs)}'})
        return res
    nd = 0
    for r, i, m in zip(reqs, impl, model):
        if i != m:
            nd += 1
            if len(res['disagreements']) < 10:
                res['disagreements'].append({'request': r[:3000], 'impl': i, 'model': m})
    res['n_disagreements'] = nd
    ev_total = sum(len(t) for _, t, _ in cases)
    res['distribution'] = {'events_total': ev_total, 'max_sources': max(n for n, _, _ in cases),
                           'traces_with_interleaved_recv': sum(1 for _, t, _ in cases if interleaved(t))}
    res['samples'] = [{'request': reqs[0][:500], 'reply': model[0]}]
    if nd:
        d = res['disagreements'][0]
        ctx.broken.append({'kind': 'correspondence', 'name': 'coord (trace replay)',
                           'detail': f"{nd} trace(s) not accepted by the model; first: model={d['model']} expected={d['impl']} request={d['request'][:400]}",
                           'disagreements': res['disagreements'][:3]})
        ctx.log(f'coord trace replay: {nd} DISAGREEMENTS', d['model'])
    else:
        ctx.log(f'coord trace replay: {len(reqs)} traces ({ev_total} events) accepted by the model')
    ctx.steps.setdefault('correspond', []).append({k: v for k, v in res.items() if k != 'disagreements'})
    skeleton_correspondence(ctx, reqs, impl)
    return res


def skeleton_correspondence(ctx, reqs, impl):
    """slice CoordSkel: the same traces through `drv_cskel`, which replays every event through BOTH the hand model
    `Coord.step` and the interpreter of the loop skeleton regenerated from processing_loop (`Gen.Coord.SKEL`); a reply
    `models-disagree k …` means the two models part at event k, `not-enabled k` that both refuse it."""
    reqs2 = ['cskel' + r[len('coord'):] for r in reqs]
    rc, out, err, w = core.run([core.DRV], input=('\n'.join(reqs2) + '\n').encode(), timeout=600)
    model = out.decode(errors='replace').splitlines()
    res = {'component': 'cskel', 'cases': len(reqs2), 'disagreements': [], 'distinct': len(set(reqs2)), 'model_wall_s': round(w, 1)}
    if rc != 0 or len(model) != len(reqs2):
        ctx.broken.append({'kind': 'correspondence', 'name': 'cskel', 'detail': f'driver rc={rc} replies={len(model)} of {len(reqs2)}'})
        return res
    bad = [{'request': r[:3000], 'impl': i, 'model': m} for r, i, m in zip(reqs2, impl, model) if i != m]
    res['n_disagreements'] = len(bad)
    res['disagreements'] = bad[:10]
    res['distribution'] = {'models_disagree': sum(1 for b in bad if b['model'].startswith('models-disagree')),
                           'both_refuse': sum(1 for b in bad if b['model'].startswith('not-enabled'))}
    if bad:
        d = bad[0]
        ctx.broken.append({'kind': 'correspondence', 'name': 'cskel (trace replay, hand model + regenerated loop skeleton)',
                           'detail': f"{len(bad)} trace(s): model={d['model']} expected={d['impl']} request={d['request'][:400]}",
                           'disagreements': bad[:3]})
        ctx.log(f'cskel trace replay: {len(bad)} DISAGREEMENTS', d['model'])
    else:
        ctx.log(f'cskel trace replay: {len(reqs2)} traces accepted by the hand model and the regenerated skeleton alike')
    ctx.steps.setdefault('correspond', []).append({k: v for k, v in res.items() if k != 'disagreements'})
    return res


def interleaved(toks):
    """a receive from source j between two receives of source i≠j before the first print"""
    seen = []
    for t in toks:
        if t.startswith('P'):
            break
        if t.startswith('R'):
            seen.append(t.split(':')[1])
    return len(set(seen)) > 1 and any(seen[k] != seen[k + 1] for k in range(len(seen) - 1))


def multi_source_oracle(ctx, n_inputs, n_plans, kinds=('plain',), max_src=6, sigprefix='merge', permute=True,
                        extra_args=(), tie_heavy_ratio=(1, 2)):
    """Implementation-side oracle shared by C01/C06: stdout of N sources equals the reference merge of the
    generator's per-source message lists, for every delay plan. Returns (oracle_result, trace_cases)."""
    rng = e2e.Rng(ctx.seed * 7919 + 17)
    failures, samples, cases = [], [], []
    evals = 0
    distinct = set()
    for k in range(n_inputs):
        nsrc = rng.range(1, max_src)
        work = os.path.join(ctx.work, 'in%d' % k)
        os.makedirs(work, exist_ok=True)
        # every third input carries 9-digit fractions that differ only below a microsecond
        srcs = make_sources(rng, work, nsrc, kinds=kinds, tie_heavy=rng.chance(*tie_heavy_ratio), frac=(k % 3 == 2))
        if permute:
            srcs = rng.shuffle(srcs)
        exp, merged = expected_stdout(srcs)
        outs = set()
        for pl in range(n_plans):
            delay = None if pl == 0 else '%d:%d' % (ctx.seed * 1000 + k * 37 + pl, rng.pick([200, 1000, 3000]))
            rc, out, err, wall, toks = run_with_trace(ctx, srcs, delay, k, extra_args)
            evals += 1
            outs.add(out)
            desc = {'sources': [s['name'] for s in srcs], 'msgs': [len(s['msgs']) for s in srcs], 'delay': delay}
            distinct.add((k, delay))
            if rc != 0 or b'panicked' in err:
                failures.append({'signature': sigprefix + ':exit-status', 'detail': f'rc={rc} stderr={err[-300:]!r}', 'case': desc,
                                 'files': {s['name']: s['log'].data.hex() for s in srcs} if sum(len(s['log'].data) for s in srcs) < 20000 else 'large'})
            elif out != exp:
                failures.append({'signature': sigprefix + ':stdout-differs-from-reference-merge', 'case': desc,
                                 'detail': first_diff(out, exp),
                                 'files': {s['name']: s['log'].data.hex() for s in srcs} if sum(len(s['log'].data) for s in srcs) < 20000 else 'large',
                                 'args': e2e.BASE_ARGS + list(extra_args) + [s['name'] for s in srcs]})
            cases.append((nsrc, toks, len(merged)))
            if len(samples) < 3 and pl == 1:
                samples.append({'oracle': 'multi-source merge', 'case': desc, 'stdout_bytes': len(out), 'trace_events': len(toks)})
        if len(outs) > 1:
            failures.append({'signature': sigprefix + ':stdout-depends-on-schedule', 'case': {'sources': [s['name'] for s in srcs]},
                             'detail': f'{len(outs)} distinct outputs over {n_plans} delay plans'})
    res = {'evaluations': evals, 'distinct_nontrivial': len(distinct), 'failures': failures, 'samples': samples,
           'rule': f'{n_inputs} generated inputs of 1..{max_src} sources (kinds {kinds}) x {n_plans} seeded delay plans; '
                   'stdout must equal the reference merge (first minimum in argument order) and be identical across plans; '
                   'distinct = (input, plan) pairs'}
    ctx.log(f'oracle multi-source: {evals} runs, {len(failures)} failures')
    ctx.steps.setdefault('oracle', []).append({k: v for k, v in res.items() if k not in ('failures', 'samples')})
    return res, cases


def first_diff(a, b):
    n = min(len(a), len(b))
    i = 0
    while i < n and a[i] == b[i]:
        i += 1
    return f'lengths {len(a)} vs {len(b)}; first difference at byte {i}: got {a[max(0,i-40):i+60]!r} expected {b[max(0,i-40):i+60]!r}'


def stall_oracle(ctx, n, sigprefix='schedule'):
    """A few tiny inputs under LONG stalls (hundreds of milliseconds between a worker's sends, so that at times
    every polled source is silent for a long while): output must still be the reference merge."""
    rng = e2e.Rng(ctx.seed * 104729 + 7)
    failures, samples, cases = [], [], []
    evals = 0
    for k in range(n):
        nsrc = rng.range(2, 3)
        work = os.path.join(ctx.work, 'stall%d' % k)
        os.makedirs(work, exist_ok=True)
        srcs = make_sources(rng, work, nsrc, kinds=('plain',), max_msgs=3, min_msgs=1)
        exp, merged = expected_stdout(srcs)
        delay = '%d:%d' % (ctx.seed * 31 + k, rng.pick([700000, 900000]))
        rc, out, err, wall, toks = run_with_trace(ctx, srcs, delay, 1000 + k)
        evals += 1
        desc = {'sources': [s['name'] for s in srcs], 'msgs': [len(s['msgs']) for s in srcs], 'delay': delay, 'wall_s': round(wall, 1)}
        if rc != 0 or out != exp:
            failures.append({'signature': sigprefix + ':stdout-differs-under-long-stalls', 'case': desc,
                             'detail': f'rc={rc} ' + first_diff(out, exp) + f' trace tail={toks[-4:]}',
                             'files': {s['name']: s['log'].data.hex() for s in srcs}, 'env': {'S4_VERIF_DELAYS': delay}})
        cases.append((nsrc, toks, len(merged)))
        if len(samples) < 1:
            samples.append({'oracle': 'long stalls', 'case': desc, 'trace_events': len(toks)})
    # one deterministic slow source: a compressed journal whose worker sleeps (H3) 1.2 s before its first datum,
    # next to a text log; stdout must equal the run without the sleep
    jz = os.path.join(core.REPO, 'logs/programs/journal/Ubuntu22-user-1000x3.journal.gz')
    if os.path.exists(jz):
        srcs = make_sources(rng, os.path.join(ctx.work, 'stall0'), 1, kinds=('plain',), max_msgs=5, min_msgs=2)
        args = e2e.BASE_ARGS + [srcs[0]['path'], jz]
        tmpd = os.path.join(ctx.work, 'stalltmp')
        os.makedirs(tmpd, exist_ok=True)
        rc0, out0, err0, _ = e2e.s4(args, env={'TMPDIR': tmpd}, timeout=60)
        rc1, out1, err1, w1 = e2e.s4(args, env={'TMPDIR': tmpd, 'S4_VERIF_SLEEP_NTF_CREATED_MS': '1200'}, timeout=60)
        evals += 2
        if (rc0, out0) != (rc1, out1):
            failures.append({'signature': sigprefix + ':stdout-differs-when-a-source-is-slow-to-start', 'case': {'sources': [srcs[0]['name'], os.path.basename(jz)], 'env': 'S4_VERIF_SLEEP_NTF_CREATED_MS=1200'},
                             'detail': f'rc {rc1} vs {rc0}; ' + first_diff(out1, out0), 'files': {srcs[0]['name']: srcs[0]['log'].data.hex()}})
    res = {'evaluations': evals, 'distinct_nontrivial': evals, 'failures': failures, 'samples': samples,
           'rule': f'{n} tiny inputs (2-3 sources, 1-3 messages) under delay plans with stalls of up to ~1-3 s between sends; stdout must equal the reference merge'}
    ctx.log(f'oracle long-stall: {evals} runs, {len(failures)} failures')
    return res, cases


def many_sources_oracle(ctx, nfiles=None, sigprefix='schedule'):
    """Hundreds of sources in one run, each with more messages than the channel holds: every worker blocks on its full
    channel until the coordinator starts printing, and the coordinator prints nothing until EVERY source has delivered its
    first message -- so anything that lets only a bounded number of workers run at a time (a pool, a semaphore on open
    files) deadlocks here and nowhere else (seeded change C06-d). stdout must be the reference merge, within a time limit."""
    import shutil
    rng = e2e.Rng(ctx.seed * 7919 + 11)
    nfiles = nfiles or ctx.q(620, 1500)
    work = os.path.join(ctx.work, 'many')
    shutil.rmtree(work, ignore_errors=True)
    os.makedirs(work)
    base = 1672531200
    srcs = []
    for i in range(nfiles):
        n = 7 + (i % 3)
        lines = [e2e.fmt_ts(base + i + k * nfiles).encode() + b' f%04d line %d\n' % (i, k) for k in range(n)]
        path = os.path.join(work, 'f%04d.log' % i)
        open(path, 'wb').write(b''.join(lines))
        srcs.append({'path': path, 'msgs': [(base + i + k * nfiles, lines[k]) for k in range(n)]})
    exp = b''.join(m[1] for _, m in e2e.merge_expected([s['msgs'] for s in srcs]))
    failures = []
    rc, out, err, wall = e2e.s4(e2e.BASE_ARGS + [s['path'] for s in srcs], timeout=90)
    desc = {'sources': nfiles, 'messages_per_source': '7-9 (channel capacity 5)', 'wall_s': round(wall, 1)}
    if rc not in (0, 1) or rc is None:
        failures.append({'signature': sigprefix + ':run-does-not-end-with-many-sources', 'case': desc,
                         'detail': f'rc={rc} after {wall:.0f} s; {len(out)} of {len(exp)} bytes on stdout; stderr {err[-200:]!r}'})
    elif out != exp:
        failures.append({'signature': sigprefix + ':stdout-differs-with-many-sources', 'case': desc, 'detail': f'rc={rc} ' + first_diff(out, exp)})
    shutil.rmtree(work, ignore_errors=True)
    ctx.log(f'oracle many-sources: {nfiles} sources, rc={rc}, {wall:.1f} s, {len(failures)} failures')
    return {'evaluations': 1, 'distinct_nontrivial': 1, 'failures': failures, 'samples': [{'oracle': 'many sources', 'case': desc}],
            'rule': f'{nfiles} text logs of 7-9 messages (more than the channel capacity) with globally distinct instants in one run: the run must end and stdout must be the reference merge'}
