"""Shared machinery for C13 (decoration) and C19 (summary): scenarios of small sources of all
four kinds with ground truth (per message: file, payload, instant), an independent renderer of
the datetime field, the option matrix, requests for the Lean driver op `prt run`, and the
implementation-side oracles (strip == undecorated; summary == stdout)."""
import gzip
import os
import re
import shutil
import unicodedata

from vlib import core, e2e
from vlib.props.C08 import rec

EVTX_SAMPLE = os.path.join(core.REPO, 'logs/programs/evtx/Microsoft-Windows-Kernel-PnP%4Configuration.evtx')
JOURNAL_GZ = os.path.join(core.REPO, 'logs/programs/journal/Ubuntu22-user-1000x3.journal.gz')
JOURNAL2_GZ = os.path.join(core.REPO, 'logs/programs/journal/RHE_91_system.journal.gz')
SEP_TOKEN = b'\n\x00@@S4SEP@@\x00\n'
SEP_TOKEN_ARG = r'\n\0@@S4SEP@@\0\n'
ESC_RE = re.compile(rb'\x1b\[[^m]*m')
DFLT_ESC = b'\x1b[0m\x1b[37m'
FMT_DEFAULT = '%Y%m%dT%H%M%S%.3f%z'
FMT_US = '%Y-%m-%d %H:%M:%S%.6f %:z'
FMT_EPOCH = '%s'
FMT_NS = '%Y%m%dT%H%M%S%.9f'


# ------------------------------------------------------------------ independent datetime field

def civil(days):
    """days since 1970-01-01 -> (y, m, d) (proleptic Gregorian; Howard Hinnant's algorithm)"""
    z = days + 719468
    era = (z if z >= 0 else z - 146096) // 146097
    doe = z - era * 146097
    yoe = (doe - doe // 1460 + doe // 36524 - doe // 146096) // 365
    y = yoe + era * 400
    doy = doe - (365 * yoe + yoe // 4 - yoe // 100)
    mp = (5 * doy + 2) // 153
    d = doy - (153 * mp + 2) // 5 + 1
    m = mp + 3 if mp < 10 else mp - 9
    return (y + 1 if m <= 2 else y, m, d)


def fmt_dt(ns, off_s, fmt):
    """the instant `ns` (nanoseconds since the epoch, UTC) in the zone `off_s` seconds east,
    in the subset of strftime the checks use"""
    sec, frac = divmod(ns, 1_000_000_000)
    loc = sec + off_s
    days, sod = divmod(loc, 86400)
    y, mo, d = civil(days)
    hh, r = divmod(sod, 3600)
    mi, ss = divmod(r, 60)
    sign = '+' if off_s >= 0 else '-'
    oh, om = divmod(abs(off_s) // 60, 60)
    out = []
    i = 0
    while i < len(fmt):
        c = fmt[i]
        if c != '%':
            out.append(c)
            i += 1
            continue
        for spec, val in (('%.3f', '.%03d' % (frac // 1_000_000)), ('%.6f', '.%06d' % (frac // 1000)), ('%.9f', '.%09d' % frac),
                          ('%:z', '%s%02d:%02d' % (sign, oh, om)), ('%Y', '%04d' % y), ('%m', '%02d' % mo),
                          ('%d', '%02d' % d), ('%H', '%02d' % hh), ('%M', '%02d' % mi), ('%S', '%02d' % ss),
                          ('%z', '%s%02d%02d' % (sign, oh, om)), ('%s', '%d' % sec), ('%%', '%')):
            if fmt.startswith(spec, i):
                out.append(val)
                i += len(spec)
                break
        else:
            raise ValueError('unsupported strftime item at %r' % fmt[i:])
    return ''.join(out)


def disp_width(s):
    """display columns as unicode-width counts them (wide/fullwidth = 2, combining = 0)"""
    w = 0
    for ch in s:
        if unicodedata.combining(ch) or unicodedata.category(ch) in ('Mn', 'Me', 'Cf'):
            continue
        w += 2 if unicodedata.east_asian_width(ch) in ('W', 'F') else 1
    return w


def colors_text():
    """COLORS_TEXT of printers.rs; file i of a run is given COLORS_TEXT[(i + 1) % len] by color_rand()"""
    src = open(os.path.join(core.REPO, 'src/printer/printers.rs')).read()
    m = re.search(r'pub const COLORS_TEXT: \[Color; (\d+)\] = \[(.*?)\];', src, re.S)
    cols = [tuple(int(x) for x in t) for t in re.findall(r'Color::Rgb\((\d+), (\d+), (\d+)\)', re.sub(r'//.*', '', m.group(2)))]
    assert len(cols) == int(m.group(1))
    return cols


def palette(i, cols):
    r, g, b = cols[(i + 1) % len(cols)]
    fg = b'\x1b[38;2;%d;%d;%dm' % (r, g, b)
    return (DFLT_ESC, b'\x1b[0m' + fg, b'\x1b[0m\x1b[4m' + fg)


# ------------------------------------------------------------------ scenarios

class Scenario:
    """files: list of {path, arg, kind}; msgs: list of {pid, kind, lines|data, ns, last, beg, fin}
    in printed order; plain: stdout of the undecorated run"""

    def __init__(self, name, files, extra_args=()):
        self.name = name
        self.files = files
        self.extra = list(extra_args)
        self.msgs = []
        self.plain = b''
        self.problems = []
        self.window = (None, None)

    def args(self, opts):
        return ['-t', '+00:00'] + self.extra + opts + [f['arg'] for f in self.files]

    def run(self, opts, summary=False):
        return e2e.s4(self.args(opts) + (['-s'] if summary else []), cwd=self.cwd, timeout=120)


NAMES = ['a.log', 'bb.log', 'quite-long-name.log', 'x', '日本語.log', 'café.log', 'm.log']


def text_scenario(rng, work, k, nfiles=None, names=None, nonascii=True, window=False, steps=(0, 1, 1, 2, 7, 3600), silent=(), fracs=None, nmsgs=(2, 7)):
    """`fracs`: sub-second parts (ns) the timestamps carry (9 digits); consecutive messages then share a second / a millisecond
    but not the instant, so a datetime field finer than the default must differ between them (merge keys are then ns).
    `silent`: (position, name, how) of extra sources that print nothing — how = 'nolog' (no timestamp in the file) or
    'old' (every message before the window, which is then forced to start after them)"""
    d = os.path.join(work, 'sc%d' % k)
    shutil.rmtree(d, ignore_errors=True)
    os.makedirs(os.path.join(d, 'sub'))
    nfiles = nfiles or rng.range(1, 3)
    pool = [n for n in NAMES if nonascii or n.isascii()]
    names = names or rng.shuffle(pool)[:nfiles]
    files, srcs = [], []
    base = 1672531200 + rng.below(100000)
    for i, nm in enumerate(names):
        log = e2e.gen_log(rng, rng.range(*nmsgs), start=base + rng.below(5) + (40000 if min(steps) < 0 else 0), steps=steps,
                          final_newline=not rng.chance(1, 3), weird=rng.chance(1, 2), body_min=6, cont_prob=(1, 2), frac_choices=fracs)
        rel = os.path.join('sub', nm) if rng.chance(1, 2) else nm
        open(os.path.join(d, rel), 'wb').write(log.data)
        files.append({'path': os.path.join(d, rel), 'arg': rel, 'kind': 's', 'base': nm})
        ms = []
        for j, (off, ln, t) in enumerate(log.msgs):
            b = log.data[off:off + ln]
            lines = b.splitlines(keepends=True) if b'\r' not in b else re.findall(rb'[^\n]*\n|[^\n]+$', b)
            ns = t * 1_000_000_000 + (log.ns[j] if fracs else 0)
            ms.append((ns if fracs else t, {'pid': i, 'kind': 's', 'lines': lines, 'ns': ns,
                                            'last': j == len(log.msgs) - 1, 'beg': 0, 'fin': 29 if fracs else 19}))
        srcs.append(ms)
    forced_after = None
    for pos, nm, how in silent:
        if how == 'nolog':
            data = b'no timestamp here\njust words, and more words\n' * 3
        else:
            old = e2e.gen_log(rng, 3, start=base - 500000, steps=(1, 2), weird=False)
            data = old.data
            forced_after = base - 1000
        open(os.path.join(d, nm), 'wb').write(data)
        pos = min(pos, len(files))
        files.insert(pos, {'path': os.path.join(d, nm), 'arg': nm, 'kind': 's', 'base': nm})
        srcs.insert(pos, [])
        for ms in srcs[pos + 1:]:
            for _, m in ms:
                m['pid'] += 1
    sc = Scenario('text%d' % k, files)
    sc.cwd = d
    sc.window = (None, None)
    if forced_after is not None and not window:
        sc.window = (forced_after, None)
        sc.extra += ['-a', fmt_dt(forced_after * 1_000_000_000, 0, '%Y%m%dT%H%M%S')]
    if window:
        ts = sorted(t for ms in srcs for t, _ in ms)
        a, b = sorted([rng.pick(ts), rng.pick(ts)])
        mode = rng.below(3)
        a = None if mode == 1 else a
        b = None if mode == 2 else b
        sc.window = (a, b)
        if a is not None:
            sc.extra += ['-a', fmt_dt(a * 1_000_000_000, 0, '%Y%m%dT%H%M%S')]
        if b is not None:
            sc.extra += ['-b', fmt_dt(b * 1_000_000_000, 0, '%Y%m%dT%H%M%S')]
        srcs = [[(t, m) for t, m in ms if (a is None or t >= a) and (b is None or t <= b)] for ms in srcs]
    sc.msgs = [m for _, (_, m) in e2e.merge_expected(srcs)]
    rc, out, err, _ = sc.run(['--color', 'never'])
    sc.plain = out
    exp = b''
    for m in sc.msgs:
        p = b''.join(m['lines'])
        exp += p + (b'\n' if m['last'] and not p.endswith(b'\n') else b'')
    if out != exp:
        sc.problems.append({'signature': 'print:undecorated-run-differs-from-generator',
                            'detail': f'rc={rc} stdout {len(out)} B, generator expects {len(exp)} B; {err[-200:]!r}'})
    return sc


def payload(m):
    return b''.join(m['lines']) if m['kind'] == 's' else m['data']


def learn_msgs(sc, classify):
    """message boundaries from a run with a unique `--separator`; `classify(payload) -> (pid, kind, ns)`"""
    rc, out, err, _ = sc.run(['--color', 'never'])
    sc.plain = out
    rc2, out2, err2, _ = sc.run(['--color', 'never', '--separator', SEP_TOKEN_ARG])
    parts = out2.split(SEP_TOKEN)
    if parts and parts[-1] in (b'', b'\n'):
        parts.pop()
    if b''.join(parts) != out and b''.join(parts) + b'\n' != out:
        sc.problems.append({'signature': 'print:separator-run-does-not-split-the-undecorated-run',
                            'detail': f'{len(out)} B vs {sum(map(len, parts))} B in {len(parts)} parts'})
    for p in parts:
        pid, kind, ns = classify(p)
        if kind == 's':
            sc.msgs.append({'pid': pid, 'kind': 's', 'lines': re.findall(rb'[^\n]*\n|[^\n]+$', p), 'ns': ns,
                            'last': False, 'beg': 0, 'fin': 0})
        else:
            sc.msgs.append({'pid': pid, 'kind': kind, 'data': p, 'ns': ns, 'last': False, 'beg': 0, 'fin': 0})
    return sc


def learn_spans(sc):
    """datetime highlight spans from the `--color always` run without any prefix; they are then
    used to predict every other colour run"""
    rc, out, err, _ = sc.run(['--color', 'always'])
    pos = 0
    mode_dt = False
    spans = []
    cur = None
    bounds = []
    off = 0
    for m in sc.msgs:
        n = len(payload(m)) + (1 if m['kind'] == 's' and m['last'] and not payload(m).endswith(b'\n') else 0)
        bounds.append((off, off + n))
        off += n
    data_at = 0
    under = bytearray()
    i = 0
    while i < len(out):
        mm = ESC_RE.match(out, i)
        if mm:
            if mm.group(0) == b'\x1b[0m':
                mode_dt = False
            elif mm.group(0) == b'\x1b[4m':
                mode_dt = True
            i = mm.end()
            continue
        under.append(1 if mode_dt else 0)
        i += 1
    if len(under) != off:
        sc.problems.append({'signature': 'print:colour-run-data-differs-from-undecorated',
                            'detail': f'{len(under)} data bytes in the colour run, {off} in the plain run'})
        return sc
    for m, (a, b) in zip(sc.msgs, bounds):
        seg = under[a:b]
        if 1 in seg:
            s = seg.index(1)
            e = len(seg) - 1 - seg[::-1].index(1) + 1
            m['beg'], m['fin'] = s, e
        else:
            m['beg'], m['fin'] = 0, 0
    return sc


XT_RE = re.compile(rb'ut_xtime (\d+)\.(\d+)')
EVT_RE = re.compile(rb'SystemTime="(\d{4})-(\d\d)-(\d\d)T(\d\d):(\d\d):(\d\d)\.(\d+)Z"')
JRT_RE = re.compile(rb'__REALTIME_TIMESTAMP=(\d+)')


def days_from_civil(y, m, d):
    y -= m <= 2
    era = (y if y >= 0 else y - 399) // 400
    yoe = y - era * 400
    doy = (153 * (m + (-3 if m > 2 else 9)) + 2) // 5 + d - 1
    doe = yoe * 365 + yoe // 4 - yoe // 100 + doy
    return era * 146097 + doe - 719468


def wtmp_text_scenario(rng, work, k):
    d = os.path.join(work, 'sc%d' % k)
    shutil.rmtree(d, ignore_errors=True)
    os.makedirs(d)
    base = 1700000000 + rng.below(1000)
    n = rng.range(2, 6)
    times = sorted((base + rng.below(30), rng.below(1000000)) for _ in range(n))
    open(os.path.join(d, 'acct.wtmp'), 'wb').write(b''.join(rec(i, s, u) for i, (s, u) in enumerate(times)))
    log = e2e.gen_log(rng, rng.range(2, 5), start=base + rng.below(5), steps=(1, 2, 7), final_newline=True, weird=False, body_min=6)
    open(os.path.join(d, 'zz.log'), 'wb').write(log.data)
    tmap = {}
    for off, ln, t in log.msgs:
        tmap.setdefault(log.data[off:off + ln], t)
    files = [{'path': os.path.join(d, 'acct.wtmp'), 'arg': 'acct.wtmp', 'kind': 'f', 'base': 'acct.wtmp'},
             {'path': os.path.join(d, 'zz.log'), 'arg': 'zz.log', 'kind': 's', 'base': 'zz.log'}]
    sc = Scenario('wtmp+text%d' % k, files)
    sc.cwd = d

    def classify(p):
        m = XT_RE.search(p)
        if p.startswith(b'ut_type') and m:
            return 0, 'f', int(m.group(1)) * 1_000_000_000 + int(m.group(2)) * 1000
        return 1, 's', tmap.get(p, 0) * 1_000_000_000
    learn_msgs(sc, classify)
    last_s = [i for i, m in enumerate(sc.msgs) if m['kind'] == 's']
    if last_s:
        sc.msgs[last_s[-1]]['last'] = True
    return learn_spans(sc)


def evtx_scenario(rng, work, k):
    d = os.path.join(work, 'sc%d' % k)
    shutil.rmtree(d, ignore_errors=True)
    os.makedirs(d)
    shutil.copy(EVTX_SAMPLE, os.path.join(d, 'ev.evtx'))
    wins = [('20230310T034943', '20230310T034944'), ('20230310T034945', '20230310T034946'), ('20230310T034947', '20230310T034950')]
    a, b = wins[k % len(wins)]
    sc = Scenario('evtx%d' % k, [{'path': os.path.join(d, 'ev.evtx'), 'arg': 'ev.evtx', 'kind': 'e', 'base': 'ev.evtx'}],
                  extra_args=['-a', a, '-b', b])
    sc.cwd = d

    def classify(p):
        m = EVT_RE.search(p)
        if not m:
            return 0, 'e', 0
        y, mo, dd, hh, mi, ss = (int(x) for x in m.groups()[:6])
        frac = (m.group(7).decode() + '000000000')[:9]
        return 0, 'e', (days_from_civil(y, mo, dd) * 86400 + hh * 3600 + mi * 60 + ss) * 1_000_000_000 + int(frac)
    learn_msgs(sc, classify)
    return learn_spans(sc)


def journal_scenario(rng, work, k, mode='short', big=False):
    d = os.path.join(work, 'sc%d' % k)
    shutil.rmtree(d, ignore_errors=True)
    os.makedirs(d)
    open(os.path.join(d, 'u.journal'), 'wb').write(gzip.open(JOURNAL2_GZ if big else JOURNAL_GZ).read())
    files = [{'path': os.path.join(d, 'u.journal'), 'arg': 'u.journal', 'kind': 'j', 'base': 'u.journal'}]
    extra = ['--journal-output', mode]
    if big:
        # only the first 40 seconds of the big journal (an absolute bound: `@+40s` needs the other bound to be set)
        rc0, out0, _, _ = e2e.s4(['-t', '+00:00', '--color', 'never', '--journal-output', 'export', 'u.journal'], cwd=d, timeout=600)
        first = JRT_RE.search(out0)
        t0 = int(first.group(1)) // 1_000_000 if first else 0
        extra += ['-b', fmt_dt((t0 + 40) * 1_000_000_000, 0, '%Y%m%dT%H%M%S')]
    sc = Scenario('journal-%s%d' % (mode, k), files, extra_args=extra)
    sc.cwd = d
    # instants: from the export rendering of the same entries (same order)
    rc, out, err, _ = e2e.s4(['-t', '+00:00', '--color', 'never', '--journal-output', 'export'] + extra[2:] + ['u.journal'], cwd=d)
    stamps = [int(x) * 1000 for x in JRT_RE.findall(out)]
    it = iter(stamps)

    def classify(p):
        return 0, 'j', next(it, 0)
    learn_msgs(sc, classify)
    if len(stamps) != len(sc.msgs):
        sc.problems.append({'signature': 'print:journal-entry-count-differs-between-output-modes',
                            'detail': f'export {len(stamps)} entries, {mode} {len(sc.msgs)}'})
    return learn_spans(sc)


# ------------------------------------------------------------------ option matrix

ZONES = [(None, 0), ('-u', 0), ('-l', 0), (('-z', '+05:30'), 19800), (('-z', '-03:00'), -10800), (('-z', '+01:00'), 3600)]
FMTS = [None, FMT_DEFAULT, FMT_EPOCH, FMT_US, FMT_NS]
PSEPS = [None, ' | ', '', '=']
SEPS = [None, r'\n', r'\0', 'XX', r'--\n\t\\']
SEP_BYTES = {None: b'', r'\n': b'\n', r'\0': b'\0', 'XX': b'XX', r'--\n\t\\': b'--\n\t\\'}


def option_tuples(rng, n, full=False):
    """(filemode, align, zone, fmt, psep, sep, color)"""
    allt = []
    for fm in (None, '-n', '-p'):
        for al in ((False, True) if fm else (False,)):
            for z in range(len(ZONES)):
                for f in range(len(FMTS)):
                    for ps in PSEPS:
                        for sp in SEPS:
                            for col in (False, True):
                                allt.append((fm, al, z, f, ps, sp, col))
    if full or n >= len(allt):
        return allt
    # always the 8 (colour, file, date) corners with default separators, then a seeded sample
    corners = [(fm, False, z, 0, None, None, col) for fm in (None, '-n') for z in (0, 1) for col in (False, True)]
    corners += [('-n', True, 3, 1, ' | ', 'XX', True), ('-p', True, 4, 3, '', r'\n', False), ('-n', True, 4, 2, '=', r'\0', True)]
    picked = corners + [rng.pick(allt) for _ in range(max(0, n - len(corners)))]
    return picked


def tuple_args(t):
    fm, al, z, f, ps, sp, col = t
    a = ['--color', 'always' if col else 'never']
    if fm:
        a.append(fm)
    if al:
        a.append('-w')
    zopt, off = ZONES[z]
    if zopt:
        a += ['--prepend-tz=' + zopt[1]] if isinstance(zopt, tuple) else [zopt]
    if FMTS[f] is not None:
        a += ['--prepend-dt-format=' + FMTS[f]]
    if ps is not None:
        a += ['--prepend-separator=' + ps]
    if sp is not None:
        a += ['--separator=' + sp]
    return a


def fields(sc, t):
    """(file field per pid or None, datetime-field function or None, message separator bytes)"""
    fm, al, z, f, ps, sp, col = t
    psep = ':' if ps is None else ps
    zopt, off = ZONES[z]
    has_date = zopt is not None or FMTS[f] is not None
    fmt = FMTS[f] if FMTS[f] is not None else FMT_DEFAULT
    ffield = None
    if fm:
        shown = [fl['base'] if fm == '-n' else fl['arg'] for fl in sc.files]
        pids = sorted(set(m['pid'] for m in sc.msgs))
        width = max([disp_width(shown[p]) for p in pids] + [0]) if al else 0
        ffield = {}
        for p in pids:
            # third element: what the padding subtracts from the width (display columns since the F9 repair)
            ffield[p] = (shown[p].encode(), disp_width(shown[p]), width, psep.encode())
    dfun = (lambda ns: (fmt_dt(ns, off, fmt) + psep).encode()) if has_date else None
    return ffield, dfun, SEP_BYTES[sp]


def hx(b):
    return b.hex() if b else '-'


def run_request(sc, t, cols):
    ffield, dfun, sepb = fields(sc, t)
    col = t[6]
    pals = [palette(i, cols) for i in range(len(sc.files))]
    evs = []
    for m in sc.msgs:
        fh = 'n'
        if ffield is not None:
            name, nch, width, psep = ffield[m['pid']]
            fh = hx(name + b' ' * max(0, width - nch) + psep)
        dh = hx(dfun(m['ns'])) if dfun else 'n'
        pl = ','.join(hx(l) for l in m['lines']) if m['kind'] == 's' else hx(m['data'])
        evs.append('%d;%s;%d;%s;%s;%d;%d;%d;%d;%s' % (m['pid'], m['kind'], 1 if col else 0, fh, dh, 1 if m['last'] else 0,
                                                      m['ns'], m['beg'], m['fin'], pl))
    return 'prt run %s %d %s %s' % (hx(sepb), len(pals), ' '.join(','.join(hx(x) for x in p) for p in pals), ' '.join(evs))


def pfx_requests(sc, t):
    """the file-name field itself goes through the model's `fileField`"""
    ffield, _, _ = fields(sc, t)
    out = []
    if ffield:
        for p, (name, nch, width, psep) in sorted(ffield.items()):
            out.append(('prt pfx %s %d %d %s' % (hx(name), nch, width, hx(psep)), hx(name + b' ' * max(0, width - nch) + psep)))
    return out


def strip_decor(sc, t, out, swap_fixed=False):
    """the property: delete escapes, then per printed line the file field and the datetime field,
    and the separator after each message -> must equal the undecorated stdout. Works message by
    message on the known payloads; returns (ok, detail)."""
    ffield, dfun, sepb = fields(sc, t)
    s = ESC_RE.sub(b'', out)
    pos = 0
    rebuilt = bytearray()
    for m in sc.msgs:
        pl = payload(m)
        if m['kind'] in ('s', 'e', 'j'):
            lines = re.findall(rb'[^\n]*\n|[^\n]+$', pl)
            if m['kind'] in ('e', 'j') and not (ffield or dfun):
                lines = [pl]
        else:
            lines = [pl]
        f = b''
        if ffield is not None:
            name, nch, width, psep = ffield[m['pid']]
            f = name + b' ' * max(0, width - nch) + psep
        dd = dfun(m['ns']) if dfun else b''
        order = ((f, 'file'), (dd, 'datetime'))
        if swap_fixed and m['kind'] == 'f':
            order = ((dd, 'datetime'), (f, 'file'))
        for l in lines:
            for fld, what in order:
                if not s.startswith(fld, pos):
                    return False, f'{what} field {fld!r} expected at stdout(stripped)[{pos}], found {s[pos:pos + len(fld) + 8]!r}', what
                pos += len(fld)
            if not s.startswith(l, pos):
                return False, f'message bytes differ at stripped offset {pos}: {s[pos:pos + 40]!r} vs {l[:40]!r}', 'text'
            rebuilt += l
            pos += len(l)
        if not s.startswith(sepb, pos):
            return False, f'separator {sepb!r} expected after message at stripped offset {pos}, found {s[pos:pos + 12]!r}', 'separator'
        pos += len(sepb)
        if m['kind'] == 's' and m['last'] and not pl.endswith(b'\n'):
            if s[pos:pos + 1] != b'\n':
                return False, f'added newline expected at {pos}', 'newline'
            rebuilt += b'\n'
            pos += 1
    if pos != len(s):
        return False, f'{len(s) - pos} extra bytes after the last message: {s[pos:pos + 40]!r}', 'extra'
    if bytes(rebuilt) != sc.plain:
        return False, 'stripped output differs from the undecorated run', 'text'
    return True, '', ''


def drive(reqs, timeout=900):
    rc, out, err, _ = core.run([core.DRV], input=('\n'.join(reqs) + '\n').encode(), timeout=timeout)
    return rc, out.decode(errors='replace').splitlines()
