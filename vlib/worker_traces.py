"""Tie for the WorkerProto slice (C06 / C07): what the coordinator of the REAL binary receives from each worker thread
(H1 event trace, `S4_VERIF_TRACE`) must be a trace the regenerated skeleton of that worker's kind can produce
(driver op `wproto check <kind> <tokens>` → `ok`; `ok-cut` when the channel closed without a summary, i.e. the thread
panicked; anything else is a disagreement).

    collect(n, seed, work)            -> list of (request, expected reply, scenario label)
    correspondence(ctx, n)            -> result dict in the style of coord_common.trace_correspondence (for vlib/props/C06.py)
    python3 -m vlib.worker_traces --n N --seed K   prints `request<TAB>expected` lines (and `#` comment lines)

Sources: generated text logs (plain / gz / xz / bz2), damaged containers, bytes that are no log at all, windows that
exclude everything, accounting / evtx / journal samples of the repository and truncated or overwritten copies of them,
too-small accounting files, several sources at once under seeded send delays. Files for which `processing_loop`
starts no thread (missing, empty, <= FILE_TOO_SMALL_SZ) yield no request and are counted.
"""
import os
import shutil
import sys
import tempfile

from vlib import core, e2e

S4_BIN = os.environ.get('S4_BIN', core.S4)
MAX_MSGS = 90          # the membership test is polynomial of high degree in the trace length


def _s4(args, env, timeout=120):
    saved = core.S4
    core.S4 = S4_BIN
    try:
        return e2e.s4(args, env=env, timeout=timeout)
    finally:
        core.S4 = saved


def _samples():
    logs = os.path.join(core.REPO, 'logs', 'programs')
    cand = {
        'fixed': ['utmp/host-entry6.wtmp', 'utmp/host-entry1.wtmp', 'utmp/host-entry1_(all_0xFF).wtmp',
                  'utmp/host-entry1_(all_0x00).wtmp', 'utmp/host-entry6.wtmp.xz'],
        'evtx': ['evtx/NoEvents.evtx', 'evtx/Microsoft-Windows-Kernel-PnP%4Configuration.evtx.gz',
                 'evtx/Microsoft-Windows-Kernel-PnP%4Configuration.evtx.xz'],
        'journal': ['journal/Ubuntu22-user-1000.journal', 'journal/Ubuntu22-user-1000x3.journal.gz',
                    'journal/Ubuntu22-user-1000x3.journal.xz'],
    }
    return {k: [os.path.join(logs, p) for p in v if os.path.exists(os.path.join(logs, p))] for k, v in cand.items()}


def _write(path, data):
    with open(path, 'wb') as f:
        f.write(data)
    return path


def _scenario(rng, work, k, samples):
    """-> (label, [(path, kind)], extra args)"""
    kind = ['text', 'text', 'fixed', 'evtx', 'journal', 'mixed'][k % 6]
    d = os.path.join(work, 'c%d' % k)
    os.makedirs(d, exist_ok=True)

    def text_source(tag):
        form = rng.pick(['plain', 'plain', 'gz', 'xz', 'bz2', 'bad-gz', 'bad-xz', 'binary', 'no-timestamps', 'empty',
                         'tiny', 'missing', 'gz-of-nothing', 'one-line'])
        log = e2e.gen_log(rng, rng.range(1, 40), weird=False, final_newline=not rng.chance(1, 4))
        p = os.path.join(d, 'src%s.log' % tag)
        if form in ('plain', 'gz', 'xz', 'bz2'):
            p += e2e.SUFFIX[form]
            e2e.pack(log.data, form, p)
        elif form == 'bad-gz':
            p += '.gz'
            e2e.pack(log.data, 'gz', p)
            raw = open(p, 'rb').read()
            _write(p, raw[:rng.range(12, max(13, len(raw) - 1))])
        elif form == 'bad-xz':
            p += '.xz'
            e2e.pack(log.data, 'xz', p)
            raw = bytearray(open(p, 'rb').read())
            for _ in range(3):
                raw[rng.range(8, len(raw) - 1)] ^= 0x5a
            _write(p, bytes(raw[:rng.range(len(raw) // 2, len(raw))]))
        elif form == 'binary':
            _write(p, bytes(rng.below(256) for _ in range(rng.range(40, 3000))))
        elif form == 'no-timestamps':
            _write(p, b''.join(e2e.text_line(rng, 5, 60, False) + b'\n' for _ in range(rng.range(3, 30))))
        elif form == 'empty':
            _write(p, b'')
        elif form == 'tiny':
            _write(p, b'ab\n')
        elif form == 'missing':
            pass
        elif form == 'gz-of-nothing':
            p += '.gz'
            e2e.pack(b'', 'gz', p)
        elif form == 'one-line':
            _write(p, e2e.fmt_ts(1700000000).encode() + b' only line')
        return 'text:' + form, p, 'text'

    def sample_source(kd, tag):
        if not samples.get(kd):
            return text_source(tag)
        src = rng.pick(samples[kd])
        base = os.path.basename(src)
        form = rng.pick(['intact', 'intact', 'truncated', 'overwritten', 'garbage', 'small'])
        p = os.path.join(d, tag + '_' + base)
        raw = open(src, 'rb').read()
        if form == 'intact':
            shutil.copyfile(src, p)
        elif form == 'truncated':
            _write(p, raw[:rng.range(1, max(2, len(raw) - 1))])
        elif form == 'overwritten':
            b = bytearray(raw)
            at = rng.range(0, max(0, len(b) - 1))
            for q in range(at, min(len(b), at + rng.range(1, 200))):
                b[q] = rng.below(256)
            _write(p, bytes(b))
        elif form == 'garbage':
            _write(p, bytes(rng.below(256) for _ in range(rng.range(40, 5000))))
        elif form == 'small':
            _write(p, bytes(rng.below(256) for _ in range(rng.range(6, 31))))
        return kd + ':' + form, p, kd

    srcs = []
    if kind == 'text':
        for q in range(rng.range(1, 3)):
            srcs.append(text_source(chr(ord('a') + q)))
    elif kind == 'mixed':
        for q in range(rng.range(2, 4)):
            kd = rng.pick(['text', 'fixed', 'evtx', 'journal'])
            srcs.append(text_source(chr(ord('a') + q)) if kd == 'text' else sample_source(kd, chr(ord('a') + q)))
    else:
        srcs.append(sample_source(kind, 'a'))
        if rng.chance(1, 3):
            srcs.append(text_source('b'))
    extra = []
    w = rng.below(8)
    if w == 0:
        extra = ['-a', '2100-01-01T00:00:00']       # nothing is late enough
    elif w == 1:
        extra = ['-b', '1980-01-01T00:00:00']       # nothing is early enough
    elif w == 2:
        extra = ['-a', e2e.fmt_ts(1672531200 + rng.below(1200)).replace(' ', 'T')]
    return srcs, extra


def collect(n, seed, work=None, stats=None):
    own = work is None
    if own:
        work = tempfile.mkdtemp(prefix='wproto.')
    rng = e2e.Rng(seed * 2654435761 + 99)
    samples = _samples()
    out = []
    st = stats if stats is not None else {}
    for key in ('runs', 'workers', 'no-thread', 'skipped-long', 'ended-S', 'ended-X', 'messages'):
        st.setdefault(key, 0)
    st.setdefault('by-scenario', {})
    st.setdefault('by-shape', {})
    try:
        for k in range(n):
            srcs, extra = _scenario(rng, work, k, samples)
            trace = os.path.join(work, 'trace.%d' % k)
            env = {'S4_VERIF_TRACE': trace, 'TMPDIR': work}
            if rng.chance(1, 2):
                env['S4_VERIF_DELAYS'] = '%d:%d' % (seed * 131 + k, rng.pick([100, 500, 2000]))
            if os.path.exists(trace):
                os.unlink(trace)
            rc, so, se, wall = _s4(e2e.BASE_ARGS + extra + [p for _, p, _ in srcs], env)
            st['runs'] += 1
            per = {}
            if os.path.exists(trace):
                for line in open(trace):
                    wds = line.split()
                    if len(wds) >= 3 and wds[0] == 'R':
                        i = int(wds[1])
                        tok = {'I': 'I', 'M': 'M', 'S': 'S', 'X': 'X'}[wds[2]]
                        if tok in ('I', 'S'):
                            tok += wds[3]
                        per.setdefault(i, []).append(tok)
                os.unlink(trace)
            for i, (label, p, kd) in enumerate(srcs):
                lab = label + ('+window' if extra else '')
                if i not in per:
                    st['no-thread'] += 1
                    st['by-scenario'][lab + ' (no thread)'] = st['by-scenario'].get(lab + ' (no thread)', 0) + 1
                    continue
                toks = per[i]
                nm = sum(1 for t in toks if t == 'M')
                if nm > MAX_MSGS:
                    st['skipped-long'] += 1
                    continue
                st['workers'] += 1
                st['messages'] += nm
                st['by-scenario'][lab] = st['by-scenario'].get(lab, 0) + 1
                shape = ' '.join(t for t in toks if t != 'M') + (' +M' if nm else '')
                st['by-shape'][kd + ': ' + shape] = st['by-shape'].get(kd + ': ' + shape, 0) + 1
                expected = 'ok-cut' if toks[-1] == 'X' else 'ok'
                st['ended-X' if toks[-1] == 'X' else 'ended-S'] += 1
                out.append(('wproto check %s %s' % (kd, ' '.join(toks)), expected, lab))
    finally:
        if own:
            shutil.rmtree(work, ignore_errors=True)
    return out


def correspondence(ctx, n):
    """to be called from vlib/props/C06.py (extra_corr_fn): pipes the requests to the driver and compares"""
    stats = {}
    work = os.path.join(ctx.work, 'wproto')
    os.makedirs(work, exist_ok=True)
    cases = collect(n, ctx.seed, work, stats)
    res = {'component': 'wproto', 'cases': len(cases), 'disagreements': [], 'distinct': len({c[0] for c in cases}),
           'distribution': {k: v for k, v in stats.items()}}
    if not cases:
        return res
    rc, out, err, w = core.run([core.DRV], input=('\n'.join(c[0] for c in cases) + '\n').encode(), timeout=900)
    model = out.decode(errors='replace').splitlines()
    if rc != 0 or len(model) != len(cases):
        ctx.broken.append({'kind': 'correspondence', 'name': 'wproto', 'detail': f'driver rc={rc} replies={len(model)} of {len(cases)}'})
        return res
    nd = 0
    for (req, exp, lab), m in zip(cases, model):
        if exp != m:
            nd += 1
            if len(res['disagreements']) < 10:
                res['disagreements'].append({'request': req[:2000], 'impl': exp, 'model': m, 'scenario': lab})
    res['n_disagreements'] = nd
    if nd:
        d = res['disagreements'][0]
        ctx.broken.append({'kind': 'correspondence', 'name': 'wproto (worker traces vs skeleton)',
                           'detail': f"{nd} worker trace(s) the regenerated skeleton cannot produce; first: {d}",
                           'disagreements': res['disagreements'][:3]})
    ctx.log(f"wproto: {len(cases)} worker traces ({stats.get('messages', 0)} messages), {nd} disagreements")
    ctx.steps.setdefault('correspond', []).append({k: v for k, v in res.items() if k != 'disagreements'})
    return res


def main():
    n, seed = 60, 1
    a = sys.argv[1:]
    for i, x in enumerate(a):
        if x == '--n':
            n = int(a[i + 1])
        if x == '--seed':
            seed = int(a[i + 1])
    stats = {}
    cases = collect(n, seed, None, stats)
    print('# wproto: %d runs, %d worker traces, %d sources without a thread, %d skipped (long), %d messages; ended with summary %d, with disconnect %d'
          % (stats['runs'], stats['workers'], stats['no-thread'], stats['skipped-long'], stats['messages'], stats['ended-S'], stats['ended-X']))
    for k in sorted(stats['by-scenario']):
        print('# scenario %-40s %d' % (k, stats['by-scenario'][k]))
    for k in sorted(stats['by-shape']):
        print('# shape    %-40s %d' % (k, stats['by-shape'][k]))
    for req, exp, _ in cases:
        print(req + '\t' + exp)


if __name__ == '__main__':
    main()
