"""Shared machinery for /verif/check: generate, prove, audit, build, correspond,
oracle, decide, evidence. See DESIGN.md §3."""
import hashlib
import json
import os
import re
import shutil
import subprocess
import sys
import time

VERIF = os.path.dirname(os.path.dirname(os.path.abspath(__file__)))
REPO = os.environ.get('S4_REPO', '/repo')
LEAN = os.path.join(VERIF, 'lean')
BUILD = os.path.join(VERIF, '.build')
TARGET = os.path.join(BUILD, 'target')
HARNESS = os.path.join(VERIF, 'harness')
DRV = os.path.join(VERIF, 'drvmux')          # routes each request to its component's driver executable
DRV_EXES = ['drv', 'drv_walk', 'drv_print', 'drv_cli', 'drv_boxp', 'drv_stream', 'drv_time', 'drv_patsel', 'drv_frender', 'drv_regex', 'drv_layout', 'drv_srch', 'drv_jrender', 'drv_wproto', 'drv_tarm', 'drv_fwalk', 'drv_summ', 'drv_cap', 'drv_memgeo', 'drv_regexe2e', 'drv_lskel', 'drv_evtxr', 'drv_gskel', 'drv_wskel']
# which driver executables a property's check needs (all are built; only these can break it)
DRV_NEEDED = {'C10': ['drv', 'drv_evtxr'], 'C02': ['drv', 'drv_print', 'drv_srch', 'drv_lskel', 'drv_gskel'], 'C03': ['drv', 'drv_srch'], 'C09': ['drv', 'drv_jrender', 'drv_jskel'], 'C12': ['drv', 'drv_boxp', 'drv_print', 'drv_patsel', 'drv_fwalk', 'drv_lskel', 'drv_gskel'], 'C04': ['drv_time', 'drv_regex', 'drv_patsel', 'drv_cap', 'drv_regexe2e'], 'C08': ['drv', 'drv_frender', 'drv_layout', 'drv_fwalk'], 'C06': ['drv', 'drv_wproto', 'drv_cskel', 'drv_jskel'], 'C07': ['drv', 'drv_wproto', 'drv_cskel'], 'C01': ['drv', 'drv_cskel'], 'C05': ['drv_stream', 'drv_tarm'], 'C11': ['drv_time'], 'C13': ['drv_print'], 'C14': ['drv_cli'],
              'C15': ['drv_walk', 'drv_wskel'], 'C17': ['drv_stream', 'drv_memgeo'], 'C19': ['drv', 'drv_print', 'drv_summ', 'drv_cskel']}
# which harness components (cargo features `c_<name>` of /verif/harness) a property's check runs. The harness is normally built with all
# of them; if that build fails (a component no longer compiles against the current /repo) the build is retried with only the components
# this property needs, so a broken component raises an alarm only for the properties tied through it.
HARNESS_NEEDED = {'C01': [], 'C02': ['gate', 'line', 'proc', 'prt', 'srch', 'sysl', 'syslc', 'lskel', 'gskel'], 'C03': ['proc', 'srch', 'sysl', 'fixedfile'], 'C04': ['patsel', 'rgx', 'time', 'capx'],
                  'C05': ['asm', 'strm', 'tarmember'], 'C06': [], 'C07': [], 'C08': ['fixed', 'fixedfile', 'frender', 'layout', 'fixedwalk'], 'C09': ['jrender'], 'C10': ['evtxr'], 'C11': ['year'],
                  'C12': ['boxp', 'gate', 'line', 'patsel', 'proc', 'prt', 'fixedwalk', 'lskel', 'gskel'], 'C13': ['prt'], 'C14': [], 'C15': ['walk', 'walktar', 'wskel'], 'C16': ['path'], 'C17': [], 'C18': [],
                  'C19': ['prt', 'summ']}
S4H = os.path.join(TARGET, 'release', 's4h')
S4 = os.path.join(TARGET, 'release', 's4')
ALLOWED_AXIOMS = {'propext', 'Classical.choice', 'Quot.sound'}
FORBIDDEN_RE = re.compile(r'\bsorry\b|\badmit\b|^axiom\s|native_decide|bv_decide|implemented_by|\bunsafe\s|maxHeartbeats\s+0', re.M)

TRUSTED_BASE_COMMON = [
    "Lean 4.33 kernel; axioms limited to propext, Classical.choice, Quot.sound (audited by #print axioms on every property theorem)",
    "translator /verif/gen/s4gen.py (tables/decision functions re-read from /repo on every run; cross-checked through the correspondence)",
    "correspondence harness /verif/harness (differential testing: bounds what disagreement can be seen)",
]


def env_cargo():
    e = dict(os.environ)
    e['CARGO_TARGET_DIR'] = TARGET
    e['RUSTFLAGS'] = '--cfg s4_verif'
    e['CARGO_NET_OFFLINE'] = 'true'
    e['CARGO_PROFILE_RELEASE_LTO'] = 'false'
    e['CARGO_PROFILE_RELEASE_CODEGEN_UNITS'] = '16'
    e['CARGO_PROFILE_RELEASE_OPT_LEVEL'] = '1'
    e['CARGO_PROFILE_RELEASE_PANIC'] = 'unwind'
    e['CARGO_PROFILE_RELEASE_STRIP'] = 'false'
    e['CARGO_PROFILE_RELEASE_DEBUG_ASSERTIONS'] = 'false'
    e['CARGO_PROFILE_RELEASE_INCREMENTAL'] = 'true'
    return e


def run(cmd, cwd=None, env=None, timeout=None, input=None):
    t0 = time.time()
    try:
        p = subprocess.run(cmd, cwd=cwd, env=env, timeout=timeout, input=input,
                           stdout=subprocess.PIPE, stderr=subprocess.PIPE)
        return p.returncode, p.stdout, p.stderr, time.time() - t0
    except subprocess.TimeoutExpired as e:
        return -9, e.stdout or b'', (e.stderr or b'') + b'\nTIMEOUT', time.time() - t0


class Ctx:
    def __init__(self, pid, tier, seed):
        self.pid = pid
        self.tier = tier
        self.seed = seed
        self.thorough = tier == 'thorough'
        self.work = os.path.join(BUILD, 'work', pid)
        shutil.rmtree(self.work, ignore_errors=True)
        os.makedirs(self.work, exist_ok=True)
        self.steps = {}
        self.t0 = time.time()
        self.broken = []          # list of dicts {kind, name, detail}
        self.search_mode = False  # translator failed; last-good generated model installed to search for a failing input
        self.stale = []           # (path, failure-marker text) to put back
        self.log_lines = []

    def log(self, *a):
        s = ' '.join(str(x) for x in a)
        self.log_lines.append(s)
        print('[%s %6.1fs] %s' % (self.pid, time.time() - self.t0, s), flush=True)

    def q(self, quick, thorough):
        return thorough if self.thorough else quick


# ---------------------------------------------------------------- gen / prove

def step_gen(ctx, modules):
    t = time.time()
    rc, out, err, _ = run([sys.executable, os.path.join(VERIF, 'gen', 's4gen.py'), '--repo', REPO] + list(modules))
    info = {}
    try:
        info = json.loads(out.decode().strip().splitlines()[-1])
    except Exception:
        info = {'error': (out + err).decode(errors='replace')[-2000:]}
    ctx.steps['gen'] = {'rc': rc, 'modules': info, 'wall_s': round(time.time() - t, 2)}
    if rc != 0:
        for m, st in info.items():
            if isinstance(st, dict) and not st.get('ok', True):
                ctx.broken.append({'kind': 'translator', 'name': 'Gen.' + m, 'detail': st.get('error', '')})
        if not info or 'error' in info:
            ctx.broken.append({'kind': 'translator', 'name': 's4gen', 'detail': str(info)[:500]})
        ctx.log('gen FAILED', info)
        install_last_good(ctx, [m for m, st in info.items() if isinstance(st, dict) and not st.get('ok', True)])
    return rc == 0


LAST_GOOD = os.path.join(VERIF, 'gen', 'last_good')


def install_last_good(ctx, failed):
    """Search mode. The translator rejected the current source, so the proof obligation is broken and the
    verdict is already VIOLATION. To look for a concrete failing input, the model generated from the last
    source the translator accepted (committed snapshot gen/last_good/, written by tools/snapshot_gen.py) is
    installed for the driver only: correspondence then compares the CURRENT implementation with the PREVIOUS
    model, and the implementation oracles run as usual. No theorem is claimed in this mode."""
    if not failed or not all(os.path.exists(os.path.join(LAST_GOOD, m + '.lean')) for m in failed):
        return
    for m in failed:
        path = os.path.join(LEAN, 'S4V', 'Gen', m + '.lean')
        try:
            marker = open(path).read()
        except OSError:
            marker = None
        shutil.copyfile(os.path.join(LAST_GOOD, m + '.lean'), path)
        ctx.stale.append((path, marker))
    ctx.search_mode = True
    ctx.log('search mode: installed the last accepted generated model for', failed, 'to look for a failing input (no theorem claimed)')


def restore_stale(ctx):
    for path, marker in ctx.stale:
        if marker is not None:
            with open(path, 'w') as f:
                f.write(marker)
    ctx.stale = []


def lake_build(targets, timeout=3000):
    return run(['lake', 'build'] + targets, cwd=LEAN, timeout=timeout)


def step_drv(ctx):
    """Build the model driver executables. A failure counts against this property only if the
    property needs that executable (DRV_NEEDED; default: the core `drv`)."""
    t = time.time()
    need = DRV_NEEDED.get(ctx.pid, ['drv'])
    info = {}
    ok = True
    for exe in DRV_EXES:
        if exe not in need and ctx.pid != 'setup':
            # other slices' drivers are built by their own checks / by setup
            continue
        rc, out, err, _ = lake_build([exe])
        info[exe] = rc
        if rc != 0:
            # remove a stale binary so the multiplexer answers `driver-unavailable`
            try:
                os.unlink(os.path.join(LEAN, '.lake', 'build', 'bin', exe))
            except OSError:
                pass
            if exe in need:
                ok = False
                msg = (out + err).decode(errors='replace')
                ctx.broken.append({'kind': 'model-build', 'name': exe, 'detail': tail_errors(msg)})
                ctx.log(exe, 'build FAILED')
    ctx.steps['drv'] = {'rc': info, 'wall_s': round(time.time() - t, 2)}
    return ok


def tail_errors(msg, n=1500):
    lines = [l for l in msg.splitlines() if 'error' in l or '✖' in l]
    s = '\n'.join(lines[:20])
    return s[-n:] if s else msg[-n:]


def parse_props_file(mod):
    path = os.path.join(LEAN, *mod.split('.')) + '.lean'
    src = open(path).read()
    # strip comments
    nc = re.sub(r'/-.*?-/', '', src, flags=re.S)
    nc = re.sub(r'--.*', '', nc)
    ns = re.findall(r'^namespace\s+(\S+)', nc, re.M)
    namespace = ns[0] if ns else ''
    thms = re.findall(r'^\s*theorem\s+(\S+)', nc, re.M)
    examples = len(re.findall(r'^\s*example\b', nc, re.M))
    return path, namespace, thms, examples, nc


def source_grep(mods_files):
    hits = []
    for path in mods_files:
        src = open(path).read()
        nc = re.sub(r'/-.*?-/', lambda m: '\n' * m.group(0).count('\n'), src, flags=re.S)
        nc = re.sub(r'--.*', '', nc)
        for m in FORBIDDEN_RE.finditer(nc):
            line = nc.count('\n', 0, m.start()) + 1
            hits.append(f'{os.path.relpath(path, VERIF)}:{line}: {m.group(0).strip()}')
    return hits


def lean_files_for(mod):
    """All S4V source files in the import closure of module `mod`."""
    seen = set()
    todo = [mod]
    files = []
    while todo:
        m = todo.pop()
        if m in seen:
            continue
        seen.add(m)
        path = os.path.join(LEAN, *m.split('.')) + '.lean'
        if not os.path.exists(path):
            continue
        files.append(path)
        for imp in re.findall(r'^import\s+(S4V\.\S+)', open(path).read(), re.M):
            todo.append(imp)
    return files


def step_prove(ctx, mods):
    """Build the property module(s), audit axioms of every theorem in them, grep sources.
    `mods` = module name or list; the first is the property's own file.
    Returns dict(obligations, discharged, theorems{name: axioms})"""
    t = time.time()
    if isinstance(mods, str):
        mods = [mods]
    parsed = []
    for mod in mods:
        try:
            parsed.append((mod,) + parse_props_file(mod))
        except FileNotFoundError:
            ctx.broken.append({'kind': 'proof', 'name': mod, 'detail': 'property module missing'})
            parsed.append((mod, '', '', [], 0, ''))
    n_thm = sum(len(p[3]) for p in parsed)
    n_ex = sum(p[4] for p in parsed)
    res = {'module': ' '.join(mods), 'theorems': {}, 'examples': n_ex, 'obligations': n_thm + n_ex,
           'discharged': 0, 'build_rc': None}
    rc, out, err, _ = lake_build(mods)
    res['build_rc'] = rc
    if rc != 0:
        msg = (out + err).decode(errors='replace')
        failed = sorted(set(re.findall(r'error: ([^\n]*)', msg)))[:8]
        ctx.broken.append({'kind': 'proof', 'name': ' '.join(mods), 'detail': tail_errors(msg)})
        res['errors'] = failed
        ctx.log('prove FAILED', mods)
        ctx.steps['prove'] = {**res, 'wall_s': round(time.time() - t, 2)}
        return res
    adir = os.path.join(BUILD, 'audit')
    os.makedirs(adir, exist_ok=True)
    afile = os.path.join(adir, ctx.pid + '.lean')
    names = []
    with open(afile, 'w') as f:
        for mod in mods:
            f.write(f'import {mod}\n')
        for mod, path, namespace, thms, examples, _ in parsed:
            for th in thms:
                full = f'{namespace}.{th}' if namespace else th
                names.append(full)
                f.write(f'#print axioms {full}\n')
    rc2, out2, err2, _ = run(['lake', 'env', 'lean', afile], cwd=LEAN, timeout=1200)
    text = (out2 + err2).decode(errors='replace')
    axioms = {}
    for m in re.finditer(r"^'(\S+)' (depends on axioms: \[([^\]]*)\]|does not depend on any axioms)", text, re.S | re.M):
        name = m.group(1)
        axs = [a.strip() for a in (m.group(3) or '').replace('\n', ' ').split(',') if a.strip()]
        axioms[name] = axs
    bad = []
    for full in names:
        if full not in axioms:
            bad.append((full, ['<not reported>']))
        elif not set(axioms[full]) <= ALLOWED_AXIOMS:
            bad.append((full, axioms[full]))
    files = []
    for mod in mods:
        for fpath in lean_files_for(mod):
            if fpath not in files:
                files.append(fpath)
    hits = source_grep(files)
    res['theorems'] = {k.split('.', 2)[-1] if k.startswith('S4V.Props.') else k: v for k, v in axioms.items()}
    res['forbidden_source_hits'] = hits
    res['lean_files_in_closure'] = len(files)
    res['discharged'] = (len(names) - len(bad)) + n_ex
    if rc2 != 0 or bad or hits:
        ctx.broken.append({'kind': 'audit', 'name': ' '.join(mods),
                           'detail': f'bad axioms: {bad}; forbidden: {hits}; rc={rc2} {text[-400:] if rc2 else ""}'})
        ctx.log('audit FAILED', bad, hits)
    if ctx.thorough and rc == 0:
        for mod in mods:
            rc3, out3, err3, w3 = run(['lake', 'env', 'leanchecker', mod], cwd=LEAN, timeout=3000)
            res.setdefault('leanchecker', {})[mod] = {'rc': rc3, 'wall_s': round(w3, 1)}
            if rc3 != 0:
                ctx.broken.append({'kind': 'audit', 'name': 'leanchecker ' + mod,
                                   'detail': (out3 + err3).decode(errors='replace')[-800:]})
    ctx.steps['prove'] = {**res, 'wall_s': round(time.time() - t, 2)}
    ctx.log(f'prove: {res["discharged"]}/{res["obligations"]} obligations ({len(names)} theorems, {n_ex} examples) in {mods}')
    return res


# ---------------------------------------------------------------- build impl

_built = {}


def step_build_impl(ctx, need_s4=True, need_harness=True):
    t = time.time()
    ok = True
    info = {}
    lock_src = os.path.join(REPO, 'Cargo.lock')
    lock_dst = os.path.join(HARNESS, 'Cargo.lock')
    if need_harness:
        rc, out, err, w = run(['cargo', 'build', '--release', '--offline'], cwd=HARNESS, env=env_cargo(), timeout=3000)
        info['harness'] = {'rc': rc, 'wall_s': round(w, 1)}
        if rc != 0 and ctx.pid in HARNESS_NEEDED:
            feats = ' '.join('c_' + c for c in HARNESS_NEEDED[ctx.pid])
            rc2, out2, err2, w2 = run(['cargo', 'build', '--release', '--offline', '--no-default-features', '--features', feats],
                                      cwd=HARNESS, env=env_cargo(), timeout=3000)
            info['harness_fallback'] = {'rc': rc2, 'features': feats, 'wall_s': round(w2, 1),
                                        'full_build_error': tail_errors((out + err).decode(errors='replace'))[:600]}
            ctx.log('harness: the build with every component failed; rebuilt with the components of this property only:', feats or '(none)', '-> rc', rc2)
            if rc2 == 0:
                rc = 0
            else:
                out, err = out2, err2
        if rc != 0:
            ok = False
            ctx.broken.append({'kind': 'impl-build', 'name': 'harness',
                               'detail': tail_errors((out + err).decode(errors='replace'))})
    if need_s4:
        rc, out, err, w = run(['cargo', 'build', '--release', '--offline', '--bin', 's4',
                               '--manifest-path', os.path.join(REPO, 'Cargo.toml')],
                              cwd=REPO, env=env_cargo(), timeout=3000)
        info['s4'] = {'rc': rc, 'wall_s': round(w, 1)}
        if rc != 0:
            ok = False
            ctx.broken.append({'kind': 'impl-build', 'name': 's4',
                               'detail': tail_errors((out + err).decode(errors='replace'))})
    ctx.steps['build_impl'] = {**info, 'wall_s': round(time.time() - t, 2)}
    if not ok:
        ctx.log('impl build FAILED')
    return ok


# ---------------------------------------------------------------- correspondence

def correspond(ctx, component, n, extra=(), seed_offset=0, corpus=True, timeout=3000):
    """Run harness component, pipe requests to the Lean driver, compare.
    Returns dict(cases, disagreements[list], distribution, samples)."""
    reqs = []
    impl = []
    # corpus first
    cdir = os.path.join(VERIF, 'corpus', component)
    corpus_lines = []
    if corpus and os.path.isdir(cdir):
        for fn in sorted(os.listdir(cdir)):
            if fn.endswith('.req'):
                corpus_lines += [l.rstrip('\n') for l in open(os.path.join(cdir, fn)) if l.strip()]
    args = [S4H, component, '--seed', str(ctx.seed + seed_offset), '--n', str(n), '--tier', ctx.tier] + list(extra)
    rc, out, err, w = run(args, timeout=timeout)
    res = {'component': component, 'cases': 0, 'disagreements': [], 'harness_rc': rc, 'harness_wall_s': round(w, 1)}
    if rc != 0:
        ctx.broken.append({'kind': 'correspondence', 'name': component,
                           'detail': 'harness exited %d: %s' % (rc, err.decode(errors='replace')[-600:])})
        return res
    meta = {}
    for line in out.decode(errors='replace').splitlines():
        if line.startswith('#'):
            # harness metadata: "# key json"
            try:
                k, v = line[1:].strip().split(' ', 1)
                meta[k] = json.loads(v)
            except Exception:
                pass
            continue
        if '\t' not in line:
            continue
        a, b = line.split('\t', 1)
        reqs.append(a)
        impl.append(b)
    if corpus_lines:
        # replay corpus requests through the harness's replay mode
        rc2, out2, err2, _ = run([S4H, component, '--replay', '-'], input=('\n'.join(corpus_lines) + '\n').encode(), timeout=timeout)
        creqs, cimpl = [], []
        for line in out2.decode(errors='replace').splitlines():
            if '\t' in line and not line.startswith('#'):
                a, b = line.split('\t', 1)
                creqs.append(a)
                cimpl.append(b)
        reqs = creqs + reqs
        impl = cimpl + impl
        res['corpus_cases'] = len(creqs)
    rc3, out3, err3, w3 = run([DRV], input=('\n'.join(reqs) + '\n').encode(), timeout=timeout)
    model = out3.decode(errors='replace').splitlines()
    res['model_wall_s'] = round(w3, 1)
    if rc3 != 0 or len(model) != len(reqs):
        ctx.broken.append({'kind': 'correspondence', 'name': component,
                           'detail': f'driver rc={rc3} replies={len(model)} requests={len(reqs)} {err3.decode(errors="replace")[-300:]}'})
        res['cases'] = len(reqs)
        return res
    dist = {}
    distinct = set()
    for r, i, m in zip(reqs, impl, model):
        key = classify_reply(i)
        dist[key] = dist.get(key, 0) + 1
        distinct.add(r)
        if i != m:
            if len(res['disagreements']) < 50:
                res['disagreements'].append({'request': r, 'impl': i, 'model': m})
            res['n_disagreements'] = res.get('n_disagreements', 0) + 1
    res['cases'] = len(reqs)
    res['distinct'] = len(distinct)
    res['distribution'] = dict(sorted(dist.items(), key=lambda kv: -kv[1])[:40])
    res['meta'] = meta
    k = max(1, len(reqs) // 5)
    res['samples'] = [{'request': reqs[j][:400], 'reply': impl[j][:400]} for j in range(0, len(reqs), k)][:6]
    if res['disagreements']:
        d = res['disagreements'][0]
        ctx.broken.append({'kind': 'correspondence', 'name': component,
                           'detail': f"{res.get('n_disagreements')} disagreement(s); first: {d['request'][:300]} impl={d['impl'][:200]} model={d['model'][:200]}",
                           'disagreements': res['disagreements'][:10]})
        ctx.log(f'correspondence {component}: {res.get("n_disagreements")} DISAGREEMENTS; first', d)
    else:
        ctx.log(f'correspondence {component}: {len(reqs)} cases agree')
    ctx.steps.setdefault('correspond', []).append(res)
    return res


def classify_reply(s):
    """coarse outcome class for the distribution histogram"""
    s = s.strip()
    if not s:
        return '<empty>'
    w = s.split(' ')
    head = w[0]
    if len(head) > 24:
        head = head[:24]
    return head


# ---------------------------------------------------------------- findings / decide

def load_known():
    p = os.path.join(VERIF, 'known_findings.json')
    if not os.path.exists(p):
        return {'open': [], 'fixed': []}
    return json.load(open(p))


def write_replay(ctx, data):
    rdir = os.path.join(VERIF, 'replays')
    os.makedirs(rdir, exist_ok=True)
    blob = json.dumps(data, indent=1, sort_keys=True, default=str)
    h = hashlib.sha256(blob.encode()).hexdigest()[:10]
    path = os.path.join(rdir, f'{ctx.pid}-{h}.json')
    with open(path, 'w') as f:
        f.write(blob)
    return path


def decide(ctx, prove_res, corr_results, oracle_res, level_note, assumptions, extra_cov=None):
    """Write evidence, print KNOWN-FINDING / VIOLATION lines, return exit code."""
    restore_stale(ctx)
    known = load_known()
    open_f = [k for k in known.get('open', []) if k['property'] == ctx.pid]
    violations = []
    known_hits = {}
    failures = oracle_res.get('failures', []) if oracle_res else []
    for f in failures:
        sig = f.get('signature')
        hit = next((k for k in open_f if k['signature'] == sig), None)
        if hit:
            known_hits.setdefault(hit['id'], (hit, f))
        else:
            violations.append(f)
    for kid, (hit, f) in known_hits.items():
        print(f"KNOWN-FINDING: property={ctx.pid} {hit['id']}: {hit['text']}", flush=True)
    exit_code = 0
    lines = []
    if violations:
        # group by signature, one VIOLATION line per distinct signature (max 5)
        seen = set()
        for f in violations:
            sig = f.get('signature')
            if sig in seen:
                continue
            seen.add(sig)
            if len(seen) > 5:
                break
            path = write_replay(ctx, {'property': ctx.pid, 'kind': 'failing-input', 'failure': f,
                                      'broken_obligations': ctx.broken, 'seed': ctx.seed, 'tier': ctx.tier})
            lines.append(f'VIOLATION property={ctx.pid} replay={path}')
        exit_code = 1
    elif ctx.broken:
        path = write_replay(ctx, {'property': ctx.pid, 'kind': 'broken-obligation',
                                  'broken_obligations': ctx.broken, 'seed': ctx.seed, 'tier': ctx.tier,
                                  'search': {k: oracle_res.get(k) for k in ('evaluations', 'rule')} if oracle_res else None,
                                  'note': 'the theorem/correspondence named above no longer checks; the oracle search on the implementation found no failing input'})
        lines.append(f'VIOLATION property={ctx.pid} replay={path} no-failing-input-found')
        exit_code = 1
    for l in lines:
        print(l, flush=True)

    # evidence
    cov = {
        'obligations': prove_res.get('obligations', 0) if prove_res else 0,
        'discharged': prove_res.get('discharged', 0) if prove_res else 0,
        'checker_cmd': f"cd /verif/lean && lake build {prove_res.get('module') if prove_res else ''} && lake env lean /verif/.build/audit/{ctx.pid}.lean   # '#print axioms' of every theorem; then source grep for sorry/axiom/native_decide",
        'trusted_base': TRUSTED_BASE_COMMON + list(assumptions),
        'theorems': prove_res.get('theorems', {}) if prove_res else {},
        'examples_non_vacuity': prove_res.get('examples', 0) if prove_res else 0,
        'generated_modules': ctx.steps.get('gen', {}).get('modules', {}),
        'correspondence': [{k: v for k, v in c.items() if k != 'disagreements'} | {'disagreements': c.get('n_disagreements', 0)}
                           for c in corr_results],
        'evaluations': sum(c.get('cases', 0) for c in corr_results) + (oracle_res.get('evaluations', 0) if oracle_res else 0),
        'distinct_nontrivial': sum(c.get('distinct', 0) for c in corr_results) + (oracle_res.get('distinct_nontrivial', 0) if oracle_res else 0),
        'rule': '; '.join([f"{c['component']}: distinct request lines of the correspondence stream" for c in corr_results]
                          + ([oracle_res.get('rule', '')] if oracle_res else [])),
        'samples': ([s for c in corr_results for s in c.get('samples', [])][:6]
                    + (oracle_res.get('samples', [])[:4] if oracle_res else [])) or [{'note': 'no cases'}],
        'oracle': {k: v for k, v in (oracle_res or {}).items() if k not in ('failures', 'samples')},
        'oracle_failures': len(failures),
        'known_findings_reproduced': sorted(known_hits.keys()),
        'broken_obligations': ctx.broken,
        'steps': ctx.steps,
    }
    if extra_cov:
        cov.update(extra_cov)
    if cov['discharged'] < 1 or cov['obligations'] < 1:
        # no theorem checked on this run (translator/proof broken): report under other keys so the
        # exploration-style counts are what the schema reads
        cov['obligations_total'] = cov.pop('obligations')
        cov['discharged_total'] = cov.pop('discharged')
        cov['evaluations'] = max(cov['evaluations'], 1)
        cov['distinct_nontrivial'] = max(cov['distinct_nontrivial'], 2)
    ev = {
        'property_id': ctx.pid,
        'tier': ctx.tier,
        'seed': ctx.seed,
        'level': 'proof',
        'coverage': cov,
        'assumptions': [level_note] + list(assumptions),
        'wall_s': round(time.time() - ctx.t0, 2),
        'violations': len(lines),
    }
    edir = os.path.join(VERIF, 'evidence')
    os.makedirs(edir, exist_ok=True)
    with open(os.path.join(edir, ctx.pid + '.json'), 'w') as f:
        json.dump(ev, f, indent=1, default=str)
    ctx.log(f'done: exit {exit_code}; obligations {cov.get("obligations", cov.get("obligations_total"))} discharged {cov.get("discharged", cov.get("discharged_total"))}; '
            f'oracle failures {len(failures)} (known {len(known_hits)})')
    return exit_code


# ---------------------------------------------------------------- harness-side oracles

def harness_oracle(ctx, component, n, rule, extra=(), timeout=3000):
    """Run an implementation-side oracle living in the harness. Lines:
    `O<TAB>ok|<signature><TAB>detail`."""
    args = [S4H, component, '--seed', str(ctx.seed), '--n', str(n), '--tier', ctx.tier] + list(extra)
    rc, out, err, w = run(args, timeout=timeout)
    res = {'component': component, 'evaluations': 0, 'distinct_nontrivial': 0, 'failures': [], 'rule': rule,
           'samples': [], 'wall_s': round(w, 1), 'rc': rc}
    if rc != 0:
        res['failures'].append({'signature': 'oracle-crashed', 'detail': err.decode(errors='replace')[-500:]})
        return res
    sigs = {}
    seen = set()
    for line in out.decode(errors='replace').splitlines():
        if not line.startswith('O\t'):
            continue
        parts = line.split('\t', 2)
        sig = parts[1]
        detail = parts[2] if len(parts) > 2 else ''
        res['evaluations'] += 1
        sigs[sig] = sigs.get(sig, 0) + 1
        if sig != 'ok':
            if len(res['failures']) < 40:
                res['failures'].append({'signature': sig, 'detail': detail, 'component': component})
        if detail and detail not in seen:
            seen.add(detail)
            if len(res['samples']) < 4:
                res['samples'].append({'oracle': component, 'outcome': sig, 'case': detail[:300]})
    res['outcomes'] = sigs
    res['distinct_nontrivial'] = max(len(seen), min(res['evaluations'], 2))
    ctx.steps.setdefault('oracle', []).append({k: v for k, v in res.items() if k not in ('failures', 'samples')})
    ctx.log(f'oracle {component}: {res["evaluations"]} evaluations, outcomes {sigs}')
    return res


def merge_oracles(results):
    out = {'evaluations': 0, 'distinct_nontrivial': 0, 'failures': [], 'samples': [], 'rule': '', 'parts': []}
    for r in results:
        if not r:
            continue
        out['evaluations'] += r.get('evaluations', 0)
        out['distinct_nontrivial'] += r.get('distinct_nontrivial', 0)
        out['failures'] += r.get('failures', [])
        out['samples'] += r.get('samples', [])[:3]
        out['rule'] = (out['rule'] + ' | ' if out['rule'] else '') + r.get('rule', '')
        out['parts'].append({k: v for k, v in r.items() if k not in ('failures', 'samples')})
    return out


# ---------------------------------------------------------------- standard check

def standard_check(ctx, gen, mods, components, oracle_fn, level_note, assume, need_s4=True, need_harness=True,
                   extra_corr_fn=None):
    """gen: list of Gen modules; mods: Lean property modules; components: list of
    (harness component, n_quick, n_thorough); oracle_fn(ctx) -> oracle result (merged) or None;
    extra_corr_fn(ctx) -> list of extra correspondence results (e.g. trace replay)."""
    ok_gen = step_gen(ctx, gen) if gen else True
    prove = step_prove(ctx, mods) if ok_gen else {'module': ' '.join(mods), 'obligations': 0, 'discharged': 0}
    ok_drv = step_drv(ctx) if (ok_gen or ctx.search_mode) else False
    ok_impl = step_build_impl(ctx, need_s4=need_s4, need_harness=need_harness)
    corr = []
    if ok_drv and ok_impl:
        for comp, nq, nt in components:
            corr.append(correspond(ctx, comp, ctx.q(nq, nt)))
    orc = None
    if ok_impl:
        ctx.corr_results = corr
        orc = oracle_fn(ctx) if oracle_fn else None
        if extra_corr_fn and ok_drv:
            corr += extra_corr_fn(ctx)
    return decide(ctx, prove, corr, orc, level_note, assume)


def generic_replay(ctx, data, components=()):
    """Re-run what a replay file recorded: correspondence requests through both
    sides, and print the recorded failing input."""
    step_build_impl(ctx, need_s4=True)
    step_drv(ctx)
    f = data.get('failure')
    if f:
        print('recorded failing input:', json.dumps({k: (v if not isinstance(v, str) or len(v) < 400 else v[:400] + '…') for k, v in f.items()}, default=str)[:3000])
    for b in data.get('broken_obligations', []) or []:
        print('broken obligation:', b.get('kind'), b.get('name'), '-', (b.get('detail') or '')[:600])
        for d in b.get('disagreements', []) or []:
            req = d['request']
            comp = req.split(' ', 1)[0]
            comp = {'blk': 'line'}.get(comp, comp)
            rc, out, _, _ = run([S4H, comp, '--replay', '-'], input=(req + '\n').encode())
            rc2, out2, _, _ = run([DRV], input=(req + '\n').encode())
            print('request', req[:300], '\n  impl :', out.decode(errors='replace').strip().split('\t')[-1][:400],
                  '\n  model:', out2.decode(errors='replace').strip()[:400])
    return 0
