"""Small Rust source utilities for the translator (Tie A).

Nothing here evaluates Rust. It strips comments, finds items by name, matches
braces and splits `match` arms. Anything it does not understand raises
GenError naming the item, so a refactor that outgrows the subset is reported.
"""
import re


class GenError(Exception):
    pass


def strip_comments(src: str) -> str:
    """Remove // and /* */ comments, keeping string/char literals and line
    structure (newlines are preserved so line numbers stay meaningful)."""
    out = []
    i, n = 0, len(src)
    while i < n:
        c = src[i]
        if c == '/' and i + 1 < n and src[i + 1] == '/':
            j = src.find('\n', i)
            if j < 0:
                j = n
            i = j
            continue
        if c == '/' and i + 1 < n and src[i + 1] == '*':
            depth = 1
            j = i + 2
            while j < n and depth:
                if src.startswith('/*', j):
                    depth += 1
                    j += 2
                elif src.startswith('*/', j):
                    depth -= 1
                    j += 2
                else:
                    if src[j] == '\n':
                        out.append('\n')
                    j += 1
            i = j
            continue
        if c == 'r' and re.match(r'r#*"', src[i:i + 8]) and (i == 0 or not (src[i - 1].isalnum() or src[i - 1] == '_')):
            m = re.match(r'r(#*)"', src[i:])
            hashes = m.group(1)
            end = src.find('"' + hashes, i + len(m.group(0)))
            if end < 0:
                raise GenError("unterminated raw string")
            end += 1 + len(hashes)
            out.append(src[i:end])
            i = end
            continue
        if c == '"':
            j = i + 1
            while j < n and src[j] != '"':
                if src[j] == '\\':
                    j += 1
                j += 1
            out.append(src[i:j + 1])
            i = j + 1
            continue
        if c == "'":
            # char literal or lifetime
            m = re.match(r"'(\\.[^']*|[^\\'])'", src[i:])
            if m:
                out.append(m.group(0))
                i += len(m.group(0))
                continue
        out.append(c)
        i += 1
    return ''.join(out)


def match_close(src: str, i: int) -> int:
    """src[i] is an opening bracket; return index of its matching close.
    Skips string and char literals. Source must be comment-free."""
    op = src[i]
    cl = {'{': '}', '(': ')', '[': ']'}[op]
    depth = 0
    n = len(src)
    while i < n:
        c = src[i]
        if c == '"':
            j = i + 1
            while j < n and src[j] != '"':
                if src[j] == '\\':
                    j += 1
                j += 1
            i = j + 1
            continue
        if c == 'r' and re.match(r'r#*"', src[i:i + 8]) and not (src[i - 1].isalnum() or src[i - 1] == '_'):
            m = re.match(r'r(#*)"', src[i:])
            end = src.find('"' + m.group(1), i + len(m.group(0)))
            i = end + 1 + len(m.group(1))
            continue
        if c == "'":
            m = re.match(r"'(\\.[^']*|[^\\'])'", src[i:])
            if m:
                i += len(m.group(0))
                continue
        if c == op:
            depth += 1
        elif c == cl:
            depth -= 1
            if depth == 0:
                return i
        i += 1
    raise GenError("unbalanced bracket")


def find_fn(src: str, name: str, nth: int = 0):
    """Return (signature_text, body_text_without_braces, start_index) of
    `fn name`. Source must be comment-free."""
    ms = list(re.finditer(r'\bfn\s+' + re.escape(name) + r'\b', src))
    if len(ms) <= nth:
        raise GenError(f"function {name} not found")
    m = ms[nth]
    # find body open brace: first '{' after the parameter list
    p = src.find('(', m.end())
    pe = match_close(src, p)
    b = src.find('{', pe)
    semi = src.find(';', pe)
    if b < 0 or (0 <= semi < b):
        raise GenError(f"function {name} has no body")
    be = match_close(src, b)
    return src[m.start():b], src[b + 1:be], m.start()


def find_block_after(src: str, pat: str, start: int = 0):
    """Find regex `pat` at/after start, then the next '{' ... '}' block.
    Returns (inner_text, index_after_block)."""
    m = re.compile(pat).search(src, start)
    if not m:
        raise GenError(f"pattern {pat!r} not found")
    b = src.find('{', m.end() - 1 if src[m.end() - 1] == '{' else m.end())
    be = match_close(src, b)
    return src[b + 1:be], be + 1


def split_top(src: str, sep: str = ','):
    """Split at top-level occurrences of sep (outside brackets/strings)."""
    parts = []
    depth = 0
    cur = []
    i, n = 0, len(src)
    while i < n:
        c = src[i]
        if c == '"':
            j = i + 1
            while j < n and src[j] != '"':
                if src[j] == '\\':
                    j += 1
                j += 1
            cur.append(src[i:j + 1])
            i = j + 1
            continue
        if c == "'":
            m = re.match(r"'(\\.[^']*|[^\\'])'", src[i:])
            if m:
                cur.append(m.group(0))
                i += len(m.group(0))
                continue
        if c in '([{':
            depth += 1
        elif c in ')]}':
            depth -= 1
        if depth == 0 and src.startswith(sep, i):
            parts.append(''.join(cur))
            cur = []
            i += len(sep)
            continue
        cur.append(c)
        i += 1
    if ''.join(cur).strip():
        parts.append(''.join(cur))
    return parts


def match_arms(body: str):
    """Split the inside of a `match x { ... }` into (pattern, value) pairs.
    value is either a `{...}` block's inner text or an expression up to the
    top-level comma."""
    arms = []
    i, n = 0, len(body)
    while i < n:
        # skip whitespace / commas
        while i < n and (body[i].isspace() or body[i] == ','):
            i += 1
        if i >= n:
            break
        # pattern up to top-level '=>'
        depth = 0
        j = i
        while j < n:
            c = body[j]
            if c == '"':
                k = j + 1
                while k < n and body[k] != '"':
                    if body[k] == '\\':
                        k += 1
                    k += 1
                j = k + 1
                continue
            if c == "'":
                m = re.match(r"'(\\.[^']*|[^\\'])'", body[j:])
                if m:
                    j += len(m.group(0))
                    continue
            if c in '([{':
                depth += 1
            elif c in ')]}':
                depth -= 1
            if depth == 0 and body.startswith('=>', j):
                break
            j += 1
        if j >= n:
            raise GenError("match arm without =>: " + body[i:i + 60])
        pat = body[i:j].strip()
        j += 2
        while j < n and body[j].isspace():
            j += 1
        if j < n and body[j] == '{':
            e = match_close(body, j)
            val = body[j + 1:e]
            i = e + 1
        else:
            # expression to top-level comma
            depth = 0
            k = j
            while k < n:
                c = body[k]
                if c == '"':
                    q = k + 1
                    while q < n and body[q] != '"':
                        if body[q] == '\\':
                            q += 1
                        q += 1
                    k = q + 1
                    continue
                if c in '([{':
                    depth += 1
                elif c in ')]}':
                    depth -= 1
                if depth == 0 and c == ',':
                    break
                k += 1
            val = body[j:k].strip()
            i = k + 1
        arms.append((pat, val))
    return arms


def str_lit(s: str) -> str:
    """Decode a simple Rust string literal "..." (escapes \\n \\t \\\\ \\" \\0 \\r \\u{..} \\x..)."""
    s = s.strip()
    if not (s.startswith('"') and s.endswith('"')):
        raise GenError(f"not a string literal: {s[:40]}")
    body = s[1:-1]
    out = []
    i = 0
    while i < len(body):
        c = body[i]
        if c == '\\':
            d = body[i + 1]
            if d == 'n':
                out.append('\n'); i += 2
            elif d == 't':
                out.append('\t'); i += 2
            elif d == 'r':
                out.append('\r'); i += 2
            elif d == '0':
                out.append('\0'); i += 2
            elif d == '\\':
                out.append('\\'); i += 2
            elif d == '"':
                out.append('"'); i += 2
            elif d == "'":
                out.append("'"); i += 2
            elif d == 'x':
                out.append(chr(int(body[i + 2:i + 4], 16))); i += 4
            elif d == 'u':
                e = body.find('}', i)
                out.append(chr(int(body[i + 3:e], 16))); i = e + 1
            elif d == '\n':
                # line continuation: skip newline and leading whitespace
                i += 2
                while i < len(body) and body[i].isspace():
                    i += 1
            else:
                raise GenError(f"unknown escape \\{d}")
        else:
            out.append(c)
            i += 1
    return ''.join(out)


def lean_bytes(s) -> str:
    """Lean `List UInt8` literal for a str (UTF-8) or bytes."""
    b = s.encode('utf-8') if isinstance(s, str) else bytes(s)
    return '[' + ', '.join(str(x) for x in b) + ']'


def lean_str(s: str) -> str:
    out = ['"']
    for ch in s:
        o = ord(ch)
        if ch == '"':
            out.append('\\"')
        elif ch == '\\':
            out.append('\\\\')
        elif ch == '\n':
            out.append('\\n')
        elif ch == '\t':
            out.append('\\t')
        elif ch == '\r':
            out.append('\\r')
        elif o < 32 or o == 127:
            out.append('\\x%02x' % o)
        else:
            out.append(ch)
    out.append('"')
    return ''.join(out)


def int_lit(s: str) -> int:
    s = s.strip().replace('_', '')
    s = re.sub(r'(u8|u16|u32|u64|usize|i8|i16|i32|i64|isize)$', '', s)
    if s.startswith('0x'):
        return int(s, 16)
    if s.startswith('0o'):
        return int(s[2:], 8)
    if s.startswith('0b'):
        return int(s[2:], 2)
    return int(s)
