"""Generate S4V/Gen/Regex.lean from src/data/datetime.rs (Tie A for the regex slice of C04):

* for every `DTPD!` row of `DATETIME_PARSE_DATAS` the regex string exactly as `concatcp!` builds
  it (resolved by gen_time's `Consts`), parsed with the syntax of the `regex` crate as used by
  `regex::bytes::Regex::new` (Unicode mode on, no other flags), into the AST `S4V.Model.Regex.Re`;
* `DTFSSet::has_year4` / `DTFSSet::has_d2` translated from their `match` arms;
* per row: DTFSS set, `range_regex`, number of capture groups, the named groups.

Classes are normalised to a sorted list of inclusive code-point ranges over Unicode scalar values
(negation, nested classes, POSIX classes and `(?i)` simple case folding are resolved here); the
Lean semantics of `cls` is "the UTF-8 encoding of one scalar value inside the ranges", so `.`
and negated classes consume a whole UTF-8 sequence like the implementation does.

Side output (not Lean): `harness/src/rgx_rows.txt` — per row a serialised AST (for the
correspondence generator's sampler) and the row's own `_test_cases` lines as a seed corpus.

Anything outside the handled syntax raises GenError naming the row.
"""
import json
import os
import re
import sys

from rs import GenError, strip_comments, match_close, find_fn
import gen_time

HERE = os.path.dirname(os.path.abspath(__file__))

MAXCP = 0x10FFFF
SUR_LO, SUR_HI = 0xD800, 0xDFFF

POSIX = {
    'alnum': [(48, 57), (65, 90), (97, 122)],
    'alpha': [(65, 90), (97, 122)],
    'ascii': [(0, 127)],
    'blank': [(9, 9), (32, 32)],
    'cntrl': [(0, 31), (127, 127)],
    'digit': [(48, 57)],
    'graph': [(33, 126)],
    'lower': [(97, 122)],
    'print': [(32, 126)],
    'punct': [(33, 47), (58, 64), (91, 96), (123, 126)],
    'space': [(9, 13), (32, 32)],
    'upper': [(65, 90)],
    'word': [(48, 57), (65, 90), (95, 95), (97, 122)],
    'xdigit': [(48, 57), (65, 70), (97, 102)],
}
# escapes that denote the character itself (regex-syntax `is_meta_character` + the punctuation
# regex-syntax accepts as "superfluous" escapes)
ESC_LITERAL = set('\\.+*?()|[]{}^$#&-~/<>"\'!%,:;=@_` ')
ESC_CTRL = {'t': 9, 'n': 10, 'r': 13, 'f': 12, 'v': 11, 'a': 7}


def norm(rs):
    """sorted, merged, surrogate-free list of inclusive ranges"""
    out = []
    for lo, hi in sorted(rs):
        if lo > hi:
            continue
        if out and lo <= out[-1][1] + 1:
            out[-1] = (out[-1][0], max(out[-1][1], hi))
        else:
            out.append((lo, hi))
    # remove surrogates
    res = []
    for lo, hi in out:
        if hi < SUR_LO or lo > SUR_HI:
            res.append((lo, hi))
        else:
            if lo < SUR_LO:
                res.append((lo, SUR_LO - 1))
            if hi > SUR_HI:
                res.append((SUR_HI + 1, hi))
    return res


def complement(rs):
    rs = norm(rs)
    out = []
    cur = 0
    for lo, hi in rs:
        if lo > cur:
            out.append((cur, lo - 1))
        cur = hi + 1
    if cur <= MAXCP:
        out.append((cur, MAXCP))
    return norm(out)


def casefold(rs, where):
    """simple case folding closure (Unicode mode) for the sets that occur: ASCII members only.
    ASCII letters fold to the other case; additionally k/K ~ U+212A KELVIN SIGN and s/S ~ U+017F
    LATIN SMALL LETTER LONG S (the only non-ASCII scalars whose simple case folding is ASCII)."""
    out = list(rs)
    for lo, hi in rs:
        if hi > 127:
            raise GenError(f"{where}: case-insensitive class with non-ASCII members is outside the handled syntax")
        for c in range(lo, hi + 1):
            if 65 <= c <= 90:
                out.append((c + 32, c + 32))
            elif 97 <= c <= 122:
                out.append((c - 32, c - 32))
            if c in (75, 107):
                out.append((0x212A, 0x212A))
            if c in (83, 115):
                out.append((0x17F, 0x17F))
    return norm(out)


# ------------------------------------------------------------------ parser
# AST (python tuples):
#   ('eps',) ('lit', bytes) ('cls', ((lo,hi),...)) ('cat', (a,b,...)) ('alt', (a,b,...))
#   ('rep', a, min, max|None) ('grp', idx, a) ('bol',) ('eol',)

class RxParser:
    def __init__(self, text, where):
        self.s = text
        self.i = 0
        self.where = where
        self.ngroups = 0          # capture groups seen so far (group 0 = whole match is implicit)
        self.names = []           # (name, idx)
        self.icase = False

    def err(self, msg):
        raise GenError(f"{self.where}: regex at offset {self.i} ({self.s[max(0, self.i - 12):self.i + 12]!r}): {msg}")

    def peek(self, k=0):
        return self.s[self.i + k] if self.i + k < len(self.s) else ''

    def parse(self):
        r = self.alternation()
        if self.i != len(self.s):
            self.err("unbalanced `)`")
        return r

    def alternation(self):
        alts = [self.concat()]
        while self.peek() == '|':
            self.i += 1
            alts.append(self.concat())
        return alts[0] if len(alts) == 1 else ('alt', tuple(alts))

    def concat(self):
        items = []
        while self.i < len(self.s) and self.peek() not in '|)':
            a = self.repeat()
            if a is not None:
                items.append(a)
        # merge adjacent literals
        merged = []
        for a in items:
            if a[0] == 'lit' and merged and merged[-1][0] == 'lit':
                merged[-1] = ('lit', merged[-1][1] + a[1])
            else:
                merged.append(a)
        if not merged:
            return ('eps',)
        return merged[0] if len(merged) == 1 else ('cat', tuple(merged))

    def repeat(self):
        a = self.atom()
        c = self.peek()
        if c in ('?', '*', '+') and c:
            if a is None:
                self.err("repetition operator after a flag item")
            self.i += 1
            lo, hi = {'?': (0, 1), '*': (0, None), '+': (1, None)}[c]
        elif c == '{':
            m = re.compile(r'\{(\d+)(?:(,)(\d*))?\}').match(self.s, self.i)
            if not m:
                self.err("`{` that is not a counted repetition is outside the handled syntax")
            if a is None:
                self.err("repetition operator after a flag item")
            self.i = m.end()
            lo = int(m.group(1))
            hi = lo if not m.group(2) else (int(m.group(3)) if m.group(3) else None)
            if hi is not None and hi < lo:
                self.err("invalid repetition range")
        else:
            return a
        if self.peek() in ('?', '+', '*', '{') and self.peek():
            # lazy quantifier `??`/`*?`/`+?`, or stacked quantifiers
            self.err("lazy or stacked quantifier is outside the handled syntax")
        if a[0] in ('bol', 'eol'):
            self.err("quantified anchor is outside the handled syntax")
        if (hi is None or hi > 1) and nullable(a):
            self.err("repetition (max > 1) of an expression that can match the empty string is outside the handled syntax")
        return ('rep', a, lo, hi)

    def literal(self, cp):
        if self.icase:
            rs = casefold([(cp, cp)], self.where)
            if rs != [(cp, cp)]:
                return ('cls', tuple(rs))
        return ('lit', chr(cp).encode('utf-8'))

    def atom(self):
        c = self.peek()
        if c == '(':
            return self.group()
        if c == '[':
            rs = self.klass()
            if self.icase:
                rs = casefold(rs, self.where)
            if not rs:
                self.err("empty class")
            return ('cls', tuple(rs))
        if c == '.':
            self.i += 1
            return ('cls', tuple(complement([(10, 10)])))
        if c == '^':
            self.i += 1
            return ('bol',)
        if c == '$':
            self.i += 1
            return ('eol',)
        if c == '\\':
            cp = self.escape(in_class=False)
            return self.literal(cp)
        if c in '*+?{':
            self.err("repetition operator without an expression")
        if c in ']}':
            # regex-syntax accepts both as literals outside a class
            self.i += 1
            return self.literal(ord(c))
        self.i += 1
        return self.literal(ord(c))

    def escape(self, in_class):
        assert self.peek() == '\\'
        e = self.peek(1)
        if e == '':
            self.err("dangling backslash")
        if e in ESC_LITERAL:
            self.i += 2
            return ord(e)
        if e in ESC_CTRL:
            self.i += 2
            return ESC_CTRL[e]
        self.err(f"escape \\{e} is outside the handled syntax")

    def group(self):
        assert self.peek() == '('
        self.i += 1
        saved = self.icase
        capture_idx = None
        if self.peek() == '?':
            m = re.compile(r'\?(?:P?<([A-Za-z_][A-Za-z0-9_.\[\]]*)>)').match(self.s, self.i)
            if m:
                self.i = m.end()
                self.ngroups += 1
                capture_idx = self.ngroups
                if any(n == m.group(1) for n, _ in self.names):
                    self.err(f"duplicate group name {m.group(1)}")
                self.names.append((m.group(1), capture_idx))
            else:
                m = re.compile(r'\?([a-zA-Z]*)(?:-([a-zA-Z]+))?([:)])').match(self.s, self.i)
                if not m or (not m.group(1) and m.group(2) is None and m.group(3) == ')'):
                    self.err("group header is outside the handled syntax")
                on, off = m.group(1) or '', m.group(2) or ''
                for f in on + off:
                    if f != 'i':
                        self.err(f"inline flag `{f}` is outside the handled syntax (only `i`)")
                self.i = m.end()
                if m.group(3) == ')':
                    # `(?i)` / `(?-i)`: applies to the remainder of the enclosing group
                    if 'i' in on:
                        self.icase = True
                    if 'i' in off:
                        self.icase = False
                    return None
                # `(?i:` … `)` non-capturing with flags
                if 'i' in on:
                    self.icase = True
                if 'i' in off:
                    self.icase = False
        else:
            self.ngroups += 1
            capture_idx = self.ngroups
        inner = self.alternation()
        if self.peek() != ')':
            self.err("missing `)`")
        self.i += 1
        self.icase = saved
        if capture_idx is None:
            return inner
        return ('grp', capture_idx, inner)

    def klass(self):
        """at `[`; returns the (un-casefolded) normalised range list"""
        assert self.peek() == '['
        self.i += 1
        neg = False
        if self.peek() == '^':
            neg = True
            self.i += 1
        rs = []
        first = True
        while True:
            c = self.peek()
            if c == '':
                self.err("unclosed class")
            if c == ']' and not first:
                self.i += 1
                break
            first = False
            if c == '[':
                m = re.compile(r'\[:(\^?)([a-z]+):\]').match(self.s, self.i)
                if m:
                    if m.group(2) not in POSIX:
                        self.err(f"unknown POSIX class {m.group(2)}")
                    p = POSIX[m.group(2)]
                    rs += complement(p) if m.group(1) else p
                    self.i = m.end()
                else:
                    rs += self.klass()
                continue
            if c in '&~' and self.peek(1) == c:
                self.err("class set operation is outside the handled syntax")
            if c == '-' and self.peek(1) == '-':
                self.err("class set operation is outside the handled syntax")
            lo = self.class_char()
            if self.peek() == '-' and self.peek(1) not in (']', ''):
                if self.peek(1) == '-':
                    self.err("class set operation is outside the handled syntax")
                self.i += 1
                if self.peek() == '[':
                    self.err("range to a nested class")
                hi = self.class_char()
                if hi < lo:
                    self.err("reversed class range")
                rs.append((lo, hi))
            else:
                rs.append((lo, lo))
        rs = norm(rs)
        return complement(rs) if neg else rs

    def class_char(self):
        c = self.peek()
        if c == '\\':
            e = self.peek(1)
            if e in 'dDwWsSpPbB':
                self.err(f"escape \\{e} inside a class is outside the handled syntax")
            return self.escape(in_class=True)
        self.i += 1
        return ord(c)


def nullable(a):
    k = a[0]
    if k in ('eps', 'bol', 'eol'):
        return True
    if k == 'lit':
        return len(a[1]) == 0
    if k == 'cls':
        return False
    if k == 'cat':
        return all(nullable(x) for x in a[1])
    if k == 'alt':
        return any(nullable(x) for x in a[1])
    if k == 'rep':
        return a[2] == 0 or nullable(a[1])
    if k == 'grp':
        return nullable(a[2])
    raise AssertionError(k)


def size(a):
    k = a[0]
    if k in ('eps', 'bol', 'eol', 'lit', 'cls'):
        return 1
    if k in ('cat', 'alt'):
        return 1 + sum(size(x) for x in a[1])
    if k == 'rep':
        return 1 + size(a[1])
    if k == 'grp':
        return 1 + size(a[2])
    raise AssertionError(k)


def children(a):
    k = a[0]
    if k in ('cat', 'alt'):
        return list(a[1])
    if k == 'rep':
        return [a[1]]
    if k == 'grp':
        return [a[2]]
    return []


# ------------------------------------------------------------------ has_year4 / has_d2

def parse_has_fn(src, name):
    """`pub const fn has_x(&self) -> bool { match self.f { A | B => (return )?true, C => {}|false, } … false? }`
    -> list of (field, {variant: bool})"""
    m = re.search(r'impl DTFSSet<\'_>\s*\{', src)
    if not m:
        raise GenError("datetime.rs: `impl DTFSSet<'_>` not found")
    i = m.end() - 1
    impl = src[i + 1:match_close(src, i)]
    m = re.search(r'pub const fn ' + name + r'\s*\(\s*&self\s*\)\s*->\s*bool\s*\{', impl)
    if not m:
        raise GenError(f"datetime.rs: DTFSSet::{name} not found")
    i = m.end() - 1
    body = impl[i + 1:match_close(impl, i)]
    pos = 0
    out = []
    mre = re.compile(r'\s*match self\.(\w+)\s*\{')
    enum_of = dict(gen_time.FIELDS)
    last_is_value = False
    while True:
        mm = mre.match(body, pos)
        if not mm:
            break
        field = mm.group(1)
        if field not in enum_of:
            raise GenError(f"DTFSSet::{name}: match on unknown field {field}")
        o = mm.end() - 1
        c = match_close(body, o)
        arms_txt = body[o + 1:c]
        arms = {}
        apos = 0
        arm_re = re.compile(r'\s*((?:\|?\s*' + enum_of[field] + r'::\w+\s*)+)=>\s*(return true|true|false|\{\s*\})\s*,?')
        kinds = set()
        while True:
            am = arm_re.match(arms_txt, apos)
            if not am:
                break
            apos = am.end()
            val = am.group(2)
            kinds.add('value' if val in ('true', 'false') else 'stmt')
            for v in re.findall(r'::(\w+)', am.group(1)):
                if v in arms:
                    raise GenError(f"DTFSSet::{name}: variant {v} listed twice")
                arms[v] = val in ('return true', 'true')
        if arms_txt[apos:].strip():
            raise GenError(f"DTFSSet::{name}: unparsed arm text {arms_txt[apos:].strip()[:60]!r}")
        if len(kinds) != 1:
            raise GenError(f"DTFSSet::{name}: match on {field} mixes value arms and statement arms")
        if set(arms) != set(gen_time.ENUMS[enum_of[field]]):
            raise GenError(f"DTFSSet::{name}: match on {field} does not list every variant exactly once")
        out.append((field, arms))
        last_is_value = kinds == {'value'}
        pos = c + 1
    tail = body[pos:].strip()
    if last_is_value:
        if tail or len(out) != 1:
            raise GenError(f"DTFSSet::{name}: a value `match` must be the whole body")
    else:
        if tail != 'false':
            raise GenError(f"DTFSSet::{name}: body does not end with `false`: {tail[:60]!r}")
    if not out:
        raise GenError(f"DTFSSet::{name}: no match found")
    return out


def lean_has_fn(lean_name, rust_name, spec):
    enum_of = dict(gen_time.FIELDS)
    L = [f'/-- `DTFSSet::{rust_name}` (translated arm by arm) -/',
         f'def {lean_name} (d : DTFSSet) : Bool :=']
    parts = []
    for field, arms in spec:
        arms_l = ' '.join(f'| .{gen_time.lean_variant(v)} => {"true" if arms[v] else "false"}'
                          for v in gen_time.ENUMS[enum_of[field]])
        parts.append(f'(match d.{field} with {arms_l})')
    L.append('  ' + '\n  || '.join(parts))
    return '\n'.join(L)


# ------------------------------------------------------------------ test-case lines (seed corpus)

def row_test_lines(src):
    """the string literals of each DTPD! row's `&[( … , "line"), …]` argument, per row"""
    m = re.search(r'pub const DATETIME_PARSE_DATAS\s*:\s*\[DateTimeParseInstr;\s*DATETIME_PARSE_DATAS_LEN\]\s*=\s*\[', src)
    i = m.end() - 1
    body = src[i + 1:match_close(src, i)]
    out = []
    pos = 0
    while True:
        mm = re.compile(r'\s*DTPD!\s*\(').match(body, pos)
        if not mm:
            break
        o = mm.end() - 1
        c = match_close(body, o)
        inner = body[o + 1:c]
        k = inner.find('&[')
        lines = []
        if k >= 0:
            kk = inner.index('[', k)
            arr = inner[kk + 1:match_close(inner, kk)]
            # every tuple's last element is the line literal
            p = 0
            while True:
                t = re.compile(r'\s*\(').match(arr, p)
                if not t:
                    break
                to = t.end() - 1
                tc = match_close(arr, to)
                tup = arr[to + 1:tc]
                toks = [mt for mt in gen_time.TOK.finditer(tup)]
                lit = None
                for mt in toks:
                    if mt.group(1):
                        raw = mt.group(1)
                        h = len(mt.group(2))
                        lit = raw[2 + h:len(raw) - 1 - h]
                    elif mt.group(3):
                        lit = gen_time.unescape(mt.group(3)[1:-1], 'test case line')
                if lit is not None:
                    lines.append(lit)
                p = tc + 1
                t2 = re.compile(r'\s*,').match(arr, p)
                if t2:
                    p = t2.end()
        out.append(lines)
        pos = c + 1
        mm2 = re.compile(r'\s*,').match(body, pos)
        if mm2:
            pos = mm2.end()
    return out


# ------------------------------------------------------------------ output

def ser(a):
    """serialised AST for the harness sampler"""
    k = a[0]
    if k == 'eps':
        return 'E'
    if k == 'bol':
        return '^'
    if k == 'eol':
        return '$'
    if k == 'lit':
        return 'L' + a[1].hex()
    if k == 'cls':
        return 'C' + ','.join(f'{lo}-{hi}' for lo, hi in a[1])
    if k == 'cat':
        return '(. ' + ' '.join(ser(x) for x in a[1]) + ' )'
    if k == 'alt':
        return '(| ' + ' '.join(ser(x) for x in a[1]) + ' )'
    if k == 'rep':
        return f'(* {a[2]} {"inf" if a[3] is None else a[3]} {ser(a[1])} )'
    if k == 'grp':
        return f'(G {a[1]} {ser(a[2])} )'
    raise AssertionError(k)


class Emitter:
    """Lean terms with sharing: every distinct subtree of size >= MINSZ used more than once becomes a def"""
    MINSZ = 4

    def __init__(self, roots):
        self.count = {}
        for r in roots:
            self.visit(r)
        self.names = {}
        self.defs = []

    def visit(self, a):
        self.count[a] = self.count.get(a, 0) + 1
        if self.count[a] > 1:
            return
        for c in children(a):
            self.visit(c)

    def term(self, a, top=False):
        if not top and a in self.names:
            return self.names[a]
        if not top and self.count.get(a, 0) > 1 and size(a) >= self.MINSZ:
            body = self.term(a, top=True)
            nm = f'n{len(self.defs)}'
            self.names[a] = nm
            self.defs.append(f'def {nm} : Re := {body}')
            return nm
        k = a[0]
        if k == 'eps':
            return '.eps'
        if k == 'bol':
            return '.bol'
        if k == 'eol':
            return '.eol'
        if k == 'lit':
            return '(.lit [' + ', '.join(str(b) for b in a[1]) + '])'
        if k == 'cls':
            return '(.cls [' + ', '.join(f'({lo}, {hi})' for lo, hi in a[1]) + '])'
        if k == 'cat':
            return '(catL [' + ', '.join(self.term(x) for x in a[1]) + '])'
        if k == 'alt':
            return '(altL [' + ', '.join(self.term(x) for x in a[1]) + '])'
        if k == 'rep':
            return f'(.rep {self.term(a[1])} {a[2]} {"none" if a[3] is None else "(some " + str(a[3]) + ")"})'
        if k == 'grp':
            return f'(.group {a[1]} {self.term(a[2])})'
        raise AssertionError(k)


def parse_all(repo):
    path = os.path.join(repo, 'src/data/datetime.rs')
    raw = open(path).read()
    src = strip_comments(raw)
    consts = gen_time.Consts(src)
    sets = gen_time.parse_dtfss(src, consts)
    setnames = {n for n, _ in sets}
    rows = gen_time.parse_rows(src, consts)
    tests = row_test_lines(src)
    if len(tests) != len(rows):
        raise GenError(f"DATETIME_PARSE_DATAS: {len(rows)} rows but {len(tests)} test-case arrays")
    for r in rows:
        where = f"DTPD! row {r['idx']}"
        if r['dtfss'] not in setnames:
            raise GenError(f"{where}: unknown set {r['dtfss']}")
        p = RxParser(r['regex'], where)
        r['ast'] = p.parse()
        r['ngroups'] = p.ngroups
        r['names'] = p.names
        for n, _ in p.names:
            if n not in gen_time.CGNS:
                raise GenError(f"{where}: regex has unknown capture group {n}")
        r['tests'] = tests[r['idx']]
    has4 = parse_has_fn(src, 'has_year4')
    hasd2 = parse_has_fn(src, 'has_d2')
    return rows, has4, hasd2


CHUNK = 16


def generate(repo):
    rows, has4, hasd2 = parse_all(repo)
    em = Emitter([r['ast'] for r in rows])
    row_terms = [em.term(r['ast'], top=True) for r in rows]
    L = ['-- GENERATED by /verif/gen/s4gen.py (gen_regex.py) from src/data/datetime.rs — do not edit',
         'import S4V.Model.Regex', 'import S4V.Gen.TimeTables', '',
         'namespace S4V.Gen.Regex', 'open S4V.Model.Regex S4V.Gen.TimeTables', '',
         'set_option maxRecDepth 4096', '']
    L.append(lean_has_fn('has_year4', 'has_year4', has4))
    L.append('')
    L.append(lean_has_fn('has_d2', 'has_d2', hasd2))
    L.append('')
    L.append('/-- shared sub-expressions (a sub-tree used more than once is named; purely structural) -/')
    L += em.defs
    L.append('')
    L.append('/-- one `DTPD!` row: the parsed `regex_pattern`, its `DTFSSet`, `range_regex`, the number of\n'
             'capture groups (group 0 = whole match not counted) and the named groups -/')
    L.append('structure Row where')
    L.append('  idx : Nat\n  re : Re\n  dtfs : DTFSSet\n  rangeStart : Nat\n  rangeEnd : Nat\n  ngroups : Nat\n  names : List (String × Nat)')
    L.append('')
    L.append('def Row.hasYear4 (r : Row) : Bool := has_year4 r.dtfs')
    L.append('def Row.hasD2 (r : Row) : Bool := has_d2 r.dtfs')
    L.append('')
    for r, t in zip(rows, row_terms):
        L.append(f'def re{r["idx"]} : Re := {t}')
    L.append('')
    for r in rows:
        names = ', '.join(f'({gen_time.lstr(n)}, {i})' for n, i in r['names'])
        L.append(f'def row{r["idx"]} : Row := ⟨{r["idx"]}, re{r["idx"]}, {r["dtfss"]}, {r["start"]}, {r["end"]}, {r["ngroups"]}, [{names}]⟩')
    L.append('')
    nchunks = (len(rows) + CHUNK - 1) // CHUNK
    for c in range(nchunks):
        part = rows[c * CHUNK:(c + 1) * CHUNK]
        L.append(f'def rowsChunk{c} : List Row := [' + ', '.join(f'row{r["idx"]}' for r in part) + ']')
    L.append('')
    L.append('/-- the chunks of the table (kept apart so that whole-table facts can be decided chunk by chunk) -/')
    L.append('def rowChunks : List (List Row) := [' + ', '.join(f'rowsChunk{c}' for c in range(nchunks)) + ']')
    L.append('')
    L.append('/-- `DATETIME_PARSE_DATAS` in source order -/')
    L.append('def rows : List Row := ' + ' ++ '.join(f'rowsChunk{c}' for c in range(nchunks)))
    L.append('')
    L.append(f'def rowCount : Nat := {len(rows)}')
    L.append('')
    L.append('end S4V.Gen.Regex')
    text = '\n'.join(L) + '\n'

    # harness side file
    H = ['# GENERATED by gen/gen_regex.py — R<TAB>idx<TAB>start<TAB>end<TAB>name:idx,…<TAB>serialised AST ; T<TAB>idx<TAB>hex(test-case line)']
    for r in rows:
        H.append(f'R\t{r["idx"]}\t{r["start"]}\t{r["end"]}\t' + ','.join(f'{n}:{i}' for n, i in r['names']) + '\t' + ser(r['ast']))
        for t in r['tests']:
            H.append(f'T\t{r["idx"]}\t{t.encode("utf-8").hex() or "-"}')
    hpath = os.path.join(HERE, '..', 'harness', 'src', 'rgx_rows.txt')
    htext = '\n'.join(H) + '\n'
    old = open(hpath).read() if os.path.exists(hpath) else None
    if old != htext:
        with open(hpath, 'w') as f:
            f.write(htext)
    info = {'rows': len(rows), 'shared_defs': len(em.defs), 'max_nodes': max(size(r['ast']) for r in rows),
            'test_lines': sum(len(r['tests']) for r in rows),
            'rows_without_test_lines': [r['idx'] for r in rows if not r['tests']][:8]}
    return text, info


if __name__ == '__main__':
    t, i = generate(sys.argv[1] if len(sys.argv) > 1 else '/repo')
    print(json.dumps(i))
