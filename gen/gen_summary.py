"""Generate S4V/Gen/Summary.lean: the `--summary` accounting translated to DATA.

From src/printer/summary.rs
* `SummaryPrinted::summaryprint_update_dt` — the two `match self.F { Some(b) => { if L CMP R { self.G = Some(*dt); } } None => { … } }`
  statements as `OptMatch` values (scrutinee, side of the new value in the comparison, comparison operator, assigned fields);
* the four `summaryprint_update_*` — the statement list of each body: `self.C += E;` (`Stmt.add`) and the
  `self.summaryprint_update_dt(<msg>.dt())` call (`Stmt.updateDt`), in source order;
* the four `summaryprint_map_update_*` — the get-or-insert (`MapUpd`): calls of the `Some(sp)` arm, the
  `LogMessageType` of the fresh entry, calls of the `None` arm, whether the fresh entry is inserted under `*pathid`;
* `_summaryprint_map_update` — which map-update each `LogMessage` variant is dispatched to, with the argument order;
* `SummaryPrinted::new` — initial counter values; `#[derive(Default)]` on the struct;
* `print_summary` — which field each "Printed …" / "Datetime printed …" line prints.
From src/bin/s4.rs `processing_loop`
* the four arms of `match log_message`: every statement in source order as guarded atoms (`GAtom`): the print call
  and the order in which its `Ok((a, b))` is assigned to `printed`/`flushed`, `write_stdout(sepb)`, `write_stdout(&NLu8a)`,
  `summaryprinted.C += E`, the map/total update calls with their arguments, each with the conjunction of the
  enclosing `if` conditions;
* `sepb_print = !sepb.is_empty()`, `summaryprinted = SummaryPrinted::default()`, `map_pathid_sumpr = …::new()`.
From the readers
* `EvtxReader::analyze` — the `Ok(record)` arm as `RStmt`s: counter bumps, the four option-min/max matches, the
  `ts_pass_filters` dispatch (which results `continue`), the store;
* `FixedStructReader::dt_first_last_update`, `JournalReader::em_first_last_update_accepted` — `OptMatch` pairs.
From src/common.rs `NLu8a` length.

Anything outside the expected statement shapes raises GenError naming the item."""
import os
import re
from rs import GenError, strip_comments, find_fn, match_close, split_top, match_arms, lean_str

CTRS = ['bytes', 'flushed', 'lines', 'syslines', 'fixedstructentries', 'evtxentries', 'journalentries']
KINDS = ['sysline', 'fixedstruct', 'evtx', 'journalentry']
VARIANT = {'Sysline': 'sysline', 'FixedStruct': 'fixedstruct', 'Evtx': 'evtx', 'Journal': 'journalentry'}
CMPS = {'<': 'lt', '>': 'gt', '<=': 'le', '>=': 'ge'}
SKIP = re.compile(r'\b(def1?[a-zñ]?|de[a-zñ]|de_err|de_wrn|debug_assert\w*|debug_panic)!\s*\(')


def ws(s):
    return re.sub(r'\s+', ' ', s).strip()


def strip_macros(block):
    """remove tracing / debug_assert macro calls (with an optional trailing `;`)"""
    out, i = [], 0
    while True:
        m = SKIP.search(block, i)
        if not m:
            out.append(block[i:])
            break
        out.append(block[i:m.start()])
        p = block.find('(', m.start())
        i = match_close(block, p) + 1
        while i < len(block) and block[i] in ' \t\n':
            i += 1
        if i < len(block) and block[i] == ';':
            i += 1
    return ''.join(out)


def split_stmts(s, where):
    """top-level statements of a block: ('if'|'match'|'for', head, body, else_body|None) or ('simple', text)"""
    out, i, n = [], 0, len(s)
    while True:
        while i < n and (s[i].isspace() or s[i] == ';'):
            i += 1
        if i >= n:
            break
        m = re.match(r'(if|match|for)\b', s[i:])
        if m:
            j, depth = i, 0
            while j < n:
                c = s[j]
                if c == '"':
                    raise GenError(f"{where}: string literal in a statement head")
                if c in '([':
                    depth += 1
                elif c in ')]':
                    depth -= 1
                elif c == '{' and depth == 0:
                    break
                j += 1
            if j >= n:
                raise GenError(f"{where}: `{m.group(1)}` without a block")
            e = match_close(s, j)
            head, body = ws(s[i:j]), s[j + 1:e]
            k = e + 1
            els = None
            r = re.match(r'\s*else\b\s*', s[k:])
            if r:
                k += r.end()
                if s[k] != '{':
                    raise GenError(f"{where}: `else if` is outside the subset near `{head}`")
                ee = match_close(s, k)
                els = s[k + 1:ee]
                k = ee + 1
            out.append((m.group(1), head, body, els))
            i = k
        else:
            j, depth = i, 0
            while j < n:
                c = s[j]
                if c == '"':
                    raise GenError(f"{where}: string literal in a statement")
                if c in '([{':
                    depth += 1
                elif c in ')]}':
                    depth -= 1
                elif c == ';' and depth == 0:
                    break
                j += 1
            out.append(('simple', ws(s[i:j])))
            i = j + 1
    return out


# ---------------------------------------------------------------- option min/max matches

def deref(x):
    x = x.strip()
    while x and x[0] in '&*':
        x = x[1:].strip()
    return x


def parse_assigns(text, fields, newvals, where):
    """`self.G = Some(V);`* -> [G…]"""
    out = []
    for st in split_stmts(text, where):
        if st[0] != 'simple':
            raise GenError(f"{where}: unexpected `{st[0]}` where assignments `self.F = Some(new)` are expected")
        m = re.fullmatch(r'self\.(\w+) = Some\(\s*([^()]+?)\s*\)', st[1])
        if not m or m.group(1) not in fields or deref(m.group(2)) not in newvals:
            raise GenError(f"{where}: statement `{st[1]}` is not `self.<{'|'.join(fields)}> = Some(<{'|'.join(newvals)}>)`")
        out.append(fields[m.group(1)])
    return out


def parse_optmatch(head, body, fields, newvals, where):
    """`match self.F[.as_ref()] { Some(b) => { [if L CMP R {] assigns [}] } None => assigns }`"""
    m = re.fullmatch(r'match self\.(\w+)(\.as_ref\(\))?', head)
    if not m or m.group(1) not in fields:
        raise GenError(f"{where}: `{head}` is not a match on one of self.{{{', '.join(fields)}}}")
    scrut = fields[m.group(1)]
    arms = match_arms(body)
    if len(arms) != 2:
        raise GenError(f"{where}: `{head}` has {len(arms)} arms, expected Some/None")
    some = [a for a in arms if re.fullmatch(r'Some\(\s*\w+\s*\)', a[0])]
    none = [a for a in arms if a[0] == 'None']
    if len(some) != 1 or len(none) != 1:
        raise GenError(f"{where}: `{head}` arms are {[a[0] for a in arms]}, expected Some(x) and None")
    bound = re.fullmatch(r'Some\(\s*(\w+)\s*\)', some[0][0]).group(1)
    sts = split_stmts(some[0][1], where)
    if len(sts) == 1 and sts[0][0] == 'if':
        _, ih, ib, ie = sts[0]
        if ie is not None:
            raise GenError(f"{where}: `{head}` Some arm: `if … else` is outside the subset")
        mm = re.fullmatch(r'if (\S+) (<=|>=|<|>) (\S+)', ih)
        if not mm:
            raise GenError(f"{where}: `{head}` Some arm: condition `{ih}` is not `a CMP b`")
        l, r = deref(mm.group(1)), deref(mm.group(3))
        if l in newvals and r == bound:
            new_left = True
        elif l == bound and r in newvals:
            new_left = False
        else:
            raise GenError(f"{where}: `{head}` Some arm: `{ih}` does not compare the new value with `{bound}`")
        arm = ('guarded', new_left, CMPS[mm.group(2)], parse_assigns(ib, fields, newvals, where))
    else:
        arm = ('plain', parse_assigns(some[0][1], fields, newvals, where))
    return {'scrut': scrut, 'some': arm, 'none': parse_assigns(none[0][1], fields, newvals, where)}


def lean_optmatch(m, enum):
    def fl(xs):
        return '[' + ', '.join(f'{enum}.{x}' for x in xs) + ']'
    if m['some'][0] == 'guarded':
        _, nl, cmp, asg = m['some']
        arm = f'.guarded {"true" if nl else "false"} .{cmp} {fl(asg)}'
    else:
        arm = f'.plain {fl(m["some"][1])}'
    return f'{{ scrut := {enum}.{m["scrut"]}, someArm := {arm}, noneArm := {fl(m["none"])} }}'


def optmatches_of_fn(src, fn, fields, newvals, where, allow=None):
    _, body, _ = find_fn(src, fn)
    out = []
    for st in split_stmts(strip_macros(body), where):
        if st[0] == 'match':
            out.append(parse_optmatch(st[1], st[2], fields, newvals, where))
        else:
            raise GenError(f"{where}: unexpected statement `{st[1][:60]}`")
    if not out:
        raise GenError(f"{where}: no `match self.…` statement")
    return out


# ---------------------------------------------------------------- expressions

def parse_expr(e, where, msgvar=None):
    e = e.strip()
    e = re.sub(r'\s+as\s+Count$', '', e).strip()
    parts = split_top(e, '+')
    if len(parts) > 1:
        r = parse_expr(parts[0], where, msgvar)
        for p in parts[1:]:
            r = f'(.add {r} {parse_expr(p, where, msgvar)})'
        return r
    parts = split_top(e, '*')
    # a leading `*` (deref) yields an empty first part: not a product
    if len(parts) > 1 and all(p.strip() for p in parts):
        r = parse_expr(parts[0], where, msgvar)
        for p in parts[1:]:
            r = f'(.mul {r} {parse_expr(p, where, msgvar)})'
        return r
    if e.startswith('(') and match_close(e, 0) == len(e) - 1:
        return parse_expr(e[1:-1], where, msgvar)
    if re.fullmatch(r'\d+', e):
        return f'(.lit {int(e)})'
    if e == 'printed':
        return '.printed'
    if e == 'flushed':
        return '.flushed'
    if e == 'sepb.len()':
        return '.sepLen'
    if e == 'NLu8a.len()':
        return '.nlLen'
    m = re.fullmatch(r'(?:\(\*(\w+)\)|(\w+))\.count_lines\(\)', e)
    if m and (msgvar is None or (m.group(1) or m.group(2)) == msgvar):
        return '.countLines'
    raise GenError(f"{where}: expression `{e}` is outside the subset")


# ---------------------------------------------------------------- SummaryPrinted

def update_fn(src, kind):
    fn = 'summaryprint_update_' + kind
    sig, body, _ = find_fn(src, fn)
    params = [ws(p) for p in split_top(sig[sig.find('(') + 1:sig.rfind(')')])]
    names = [p.split(':')[0].strip() for p in params if p]
    if len(names) != 4 or names[0] != '&mut self' or names[2:] != ['printed', 'flushed']:
        raise GenError(f"{fn}: parameters {names} are not (&mut self, <msg>, printed, flushed)")
    msg = names[1]
    out = []
    for st in split_stmts(strip_macros(body), fn):
        if st[0] != 'simple':
            raise GenError(f"{fn}: unexpected `{st[0]}` statement")
        m = re.fullmatch(r'self\.(\w+) \+= (.+)', st[1])
        if m:
            if m.group(1) not in CTRS:
                raise GenError(f"{fn}: `{st[1]}` adds to an unknown counter")
            out.append(f'.add .{m.group(1)} {parse_expr(m.group(2), fn, msg)}')
            continue
        m = re.fullmatch(r'self\.summaryprint_update_dt\(\s*(?:\(\*(\w+)\)|(\w+))\.dt\(\)\s*\)', st[1])
        if m and (m.group(1) or m.group(2)) == msg:
            out.append('.updateDt')
            continue
        raise GenError(f"{fn}: statement `{st[1]}` is outside the subset (`self.C += e` / `self.summaryprint_update_dt({msg}.dt())`)")
    return out


def parse_update_call(text, recv, msg, where):
    """`<recv>.summaryprint_update_K(msg, a1, a2)` -> (K, a1, a2)"""
    m = re.fullmatch(re.escape(recv) + r'\.summaryprint_update_(\w+)\((.*)\)', text)
    if not m or m.group(1) not in KINDS:
        raise GenError(f"{where}: `{text}` is not `{recv}.summaryprint_update_<kind>(…)`")
    args = [ws(a) for a in split_top(m.group(2)) if a.strip()]
    if len(args) != 3 or args[0] != msg:
        raise GenError(f"{where}: `{text}`: arguments are not ({msg}, printed-expr, flushed-expr)")
    return m.group(1), parse_expr(args[1], where), parse_expr(args[2], where)


def map_update_fn(src, kind):
    fn = 'summaryprint_map_update_' + kind
    sig, body, _ = find_fn(src, fn)
    params = [ws(p).split(':')[0].strip() for p in split_top(sig[sig.find('(') + 1:sig.rfind(')')]) if p.strip()]
    if len(params) != 5 or params[1:] != ['pathid', 'map_', 'printed', 'flushed']:
        raise GenError(f"{fn}: parameters {params} are not (<msg>, pathid, map_, printed, flushed)")
    msg = params[0]
    sts = split_stmts(strip_macros(body), fn)
    if len(sts) != 1 or sts[0][0] != 'match' or sts[0][1] != 'match map_.get_mut(pathid)':
        raise GenError(f"{fn}: body is not a single `match map_.get_mut(pathid) {{…}}`")
    arms = dict(match_arms(sts[0][2]))
    if set(arms) != {'Some(sp)', 'None'}:
        raise GenError(f"{fn}: arms {sorted(arms)} are not Some(sp)/None")
    some_calls = []
    for st in split_stmts(arms['Some(sp)'], fn):
        if st[0] != 'simple':
            raise GenError(f"{fn}: Some arm: unexpected `{st[0]}`")
        some_calls.append(parse_update_call(st[1], 'sp', msg, fn))
    none_calls, new_type, inserts, seen_new = [], None, False, False
    for st in split_stmts(arms['None'], fn):
        if st[0] != 'simple':
            raise GenError(f"{fn}: None arm: unexpected `{st[0]}`")
        m = re.fullmatch(r'let mut sp = SummaryPrinted::new\(LogMessageType::(\w+)\)', st[1])
        if m:
            if seen_new or none_calls or m.group(1) not in VARIANT:
                raise GenError(f"{fn}: None arm: unexpected `{st[1]}`")
            seen_new, new_type = True, VARIANT[m.group(1)]
            continue
        if st[1] == 'map_.insert(*pathid, sp)':
            inserts = True
            continue
        if not seen_new or inserts:
            raise GenError(f"{fn}: None arm: `{st[1]}` before `SummaryPrinted::new` or after the insert")
        none_calls.append(parse_update_call(st[1], 'sp', msg, fn))
    if not seen_new:
        raise GenError(f"{fn}: None arm does not create `SummaryPrinted::new(…)`")

    def calls(cs):
        return '[' + ', '.join(f'⟨.{k}, {a}, {b}⟩' for k, a, b in cs) + ']'
    return (f'{{ someCalls := {calls(some_calls)}, newType := .{new_type}, noneCalls := {calls(none_calls)}, '
            f'inserts := {"true" if inserts else "false"} }}')


def dispatch_fn(src):
    fn = '_summaryprint_map_update'
    _, body, _ = find_fn(src, fn)
    sts = split_stmts(strip_macros(body), fn)
    if len(sts) != 1 or sts[0][0] != 'match' or sts[0][1] != 'match logmessage':
        raise GenError(f"{fn}: body is not a single `match logmessage {{…}}`")
    rows = []
    for pat, val in match_arms(sts[0][2]):
        m = re.fullmatch(r'LogMessage::(\w+)\((\w+)\)', pat)
        if not m or m.group(1) not in VARIANT:
            raise GenError(f"{fn}: arm `{pat}` is not a LogMessage variant")
        c = re.fullmatch(r'Self::summaryprint_map_update_(\w+)\((.*)\)', ws(val).rstrip(';').strip())
        if not c or c.group(1) not in KINDS:
            raise GenError(f"{fn}: arm `{pat}` does not call a summaryprint_map_update_*")
        args = [ws(a) for a in split_top(c.group(2)) if a.strip()]
        if len(args) != 5 or args[0] != m.group(2) or args[1:3] != ['pathid', 'map_']:
            raise GenError(f"{fn}: arm `{pat}`: arguments {args}")
        rows.append(f'(.{VARIANT[m.group(1)]}, ⟨.{c.group(1)}, {parse_expr(args[3], fn)}, {parse_expr(args[4], fn)}⟩)')
    return rows


def new_fn(src):
    _, body, _ = find_fn(src, 'new', 0)
    m = re.search(r'SummaryPrinted\s*\{', body)
    if not m:
        raise GenError("SummaryPrinted::new: struct literal not found (is it still the first `fn new` of summary.rs?)")
    b = body.find('{', m.start())
    inner = body[b + 1:match_close(body, b)]
    vals = {}
    for f in split_top(inner):
        f = ws(f)
        if not f:
            continue
        if ':' in f:
            k, v = f.split(':', 1)
            vals[k.strip()] = v.strip()
        else:
            vals[f] = f
    for k in ('dt_first', 'dt_last'):
        if vals.get(k) != 'None':
            raise GenError(f"SummaryPrinted::new: {k} is `{vals.get(k)}`, expected None")
    out = []
    for c in CTRS:
        if c not in vals or not re.fullmatch(r'\d+', vals[c]):
            raise GenError(f"SummaryPrinted::new: counter {c} is `{vals.get(c)}`")
        out.append((c, int(vals[c])))
    return out


def summary_labels(src):
    """`eprintln!("Printed X : {}", summaryprinted.F)` and the `Datetime printed first/last` matches of print_summary"""
    _, body, _ = find_fn(src, 'print_summary')
    rows = []
    for m in re.finditer(r'eprintln!\(\s*"(Printed [^":]*?)\s*: \{\}"\s*,\s*summaryprinted\.(\w+)\s*\)', body):
        if m.group(2) not in CTRS:
            raise GenError(f"print_summary: `{m.group(1)}` prints unknown field {m.group(2)}")
        rows.append((m.group(1), 'ctr .' + m.group(2)))
    for m in re.finditer(r'eprint!\(\s*"(Datetime printed \w+)\s*:"\s*\)\s*;\s*match\s+summaryprinted\.(\w+)\s*\{', body):
        f = {'dt_first': 'first', 'dt_last': 'last'}.get(m.group(2))
        if f is None:
            raise GenError(f"print_summary: `{m.group(1)}` matches on unknown field {m.group(2)}")
        rows.append((m.group(1), 'dt .' + f))
    if len(rows) != 9:
        raise GenError(f"print_summary: found {len(rows)} `Printed …`/`Datetime printed …` lines, expected 9: {[r[0] for r in rows]}")
    return rows


def perfile_dt_sources(src):
    """print_colored_stderr: which value the per-file `datetime first/last` lines print for evtx and journal files"""
    _, body, _ = find_fn(src, 'print_colored_stderr', 0)
    out = {}
    for rd, pre in (('evtx', 'summaryevtxreader.evtxreader_'), ('journal', 'summaryjournalreader.journalreader_')):
        for which in ('first', 'last'):
            m = re.search(r'match\s+' + re.escape(pre) + r'datetime_' + which + r'_(accepted|processed)\s*\{\s*Some\(dt\)\s*=>\s*\{\s*'
                          r'eprint!\(\s*"\{\}datetime ' + which + r'\s*: "', body)
            if not m:
                raise GenError(f"SummaryPrinted::print_colored_stderr: the {rd} `datetime {which}` line does not print a reader datetime")
            out[(rd, which)] = m.group(1)
    return out


# ---------------------------------------------------------------- processing_loop

CVARS = {'sepb_print': 'sepbPrint', 'cli_opt_summary': 'summary', 'is_last': 'isLast'}


def parse_cond(head, msg, where):
    m = re.fullmatch(r'if (.+)', head)
    out = []
    for a in split_top(m.group(1), '&&'):
        a = a.strip()
        neg = False
        while a.startswith('!'):
            neg = not neg
            a = a[1:].strip()
        if a in CVARS:
            v = CVARS[a]
        elif a in (f'(*{msg}).ends_with_newline()', f'{msg}.ends_with_newline()'):
            v = 'endsNL'
        else:
            raise GenError(f"{where}: condition `{a}` is outside the subset")
        out.append(f'⟨{"true" if neg else "false"}, .{v}⟩')
    return out


def loop_arm(pat, val, where):
    m = re.fullmatch(r'LogMessage::(\w+)\((\w+)\)', pat)
    if not m or m.group(1) not in VARIANT:
        raise GenError(f"{where}: arm `{pat}` is not a LogMessage variant")
    kind, msg = VARIANT[m.group(1)], m.group(2)
    where = f"{where} arm {m.group(1)}"
    atoms = []
    inits = {}

    def walk(text, conds):
        for st in split_stmts(text, where):
            if st[0] == 'if':
                if st[3] is not None:
                    raise GenError(f"{where}: `{st[1]} … else` is outside the subset")
                walk(st[2], conds + parse_cond(st[1], msg, where))
                continue
            if st[0] == 'match':
                c = re.fullmatch(r'match printer\.print_(\w+)\((.*)\)', st[1])
                if not c or c.group(1) not in KINDS:
                    raise GenError(f"{where}: `{st[1]}` is not `match printer.print_<kind>(…)`")
                if [ws(a) for a in split_top(c.group(2))][0] != msg:
                    raise GenError(f"{where}: `{st[1]}` does not print `{msg}`")
                arms = match_arms(st[2])
                ok = [a for a in arms if a[0].startswith('Ok')]
                er = [a for a in arms if a[0].startswith('Err')]
                if len(arms) != 2 or len(ok) != 1 or len(er) != 1:
                    raise GenError(f"{where}: print match arms {[a[0] for a in arms]}")
                b = re.fullmatch(r'Ok\(\(\s*(\w+)\s*,\s*(\w+)\s*\)\)', ok[0][0])
                if not b:
                    raise GenError(f"{where}: `{ok[0][0]}` is not `Ok((a, b))`")
                asg = {}
                for s2 in split_stmts(ok[0][1], where):
                    a = re.fullmatch(r'(printed|flushed) = (\w+) as Count', s2[1]) if s2[0] == 'simple' else None
                    if not a or a.group(1) in asg:
                        raise GenError(f"{where}: Ok arm statement `{s2[1]}` is not `printed|flushed = x as Count`")
                    asg[a.group(1)] = a.group(2)
                if asg == {'printed': b.group(1), 'flushed': b.group(2)}:
                    first = 'true'
                elif asg == {'printed': b.group(2), 'flushed': b.group(1)}:
                    first = 'false'
                else:
                    raise GenError(f"{where}: Ok arm assigns {asg} from ({b.group(1)}, {b.group(2)})")
                e = strip_macros(er[0][1])
                if re.search(r'\b(printed|flushed|summaryprinted|map_pathid_sumpr)\b', e):
                    raise GenError(f"{where}: the Err arm touches the accounting")
                if conds:
                    raise GenError(f"{where}: the print call is conditional")
                atoms.append((conds, f'.printCall .{c.group(1)} {first}'))
                continue
            if st[0] != 'simple':
                raise GenError(f"{where}: unexpected `{st[0]}` statement")
            t = st[1]
            a = re.fullmatch(r'let mut (printed|flushed): Count = (\d+)', t)
            if a:
                if conds or atoms:
                    raise GenError(f"{where}: `{t}` is not at the start of the arm")
                inits[a.group(1)] = int(a.group(2))
                continue
            if t == 'write_stdout(sepb)':
                atoms.append((conds, '.write .sepb'))
                continue
            if t == 'write_stdout(&NLu8a)':
                atoms.append((conds, '.write .nl'))
                continue
            a = re.fullmatch(r'summaryprinted\.(\w+) \+= (.+)', t)
            if a:
                if a.group(1) not in CTRS:
                    raise GenError(f"{where}: `{t}` adds to an unknown counter")
                atoms.append((conds, f'.add .{a.group(1)} {parse_expr(a.group(2), where, msg)}'))
                continue
            if t == 'paths_printed_logmessages.insert(*pathid)':
                atoms.append((conds, '.notePath'))
                continue
            a = re.fullmatch(r'SummaryPrinted::summaryprint_map_update_(\w+)\((.*)\)', t)
            if a:
                args = [ws(x) for x in split_top(a.group(2)) if x.strip()]
                if a.group(1) not in KINDS or len(args) != 5 or args[:3] != [msg, 'pathid', '&mut map_pathid_sumpr']:
                    raise GenError(f"{where}: `{t}`: not ({msg}, pathid, &mut map_pathid_sumpr, p, f)")
                atoms.append((conds, f'.mapUpdate .{a.group(1)} {parse_expr(args[3], where, msg)} {parse_expr(args[4], where, msg)}'))
                continue
            if t.startswith('summaryprinted.summaryprint_update_'):
                k, a1, a2 = parse_update_call(t, 'summaryprinted', msg, where)
                atoms.append((conds, f'.totalUpdate .{k} {a1} {a2}'))
                continue
            raise GenError(f"{where}: statement `{t[:80]}` is outside the subset")

    walk(strip_macros(val), [])
    if inits != {'printed': 0, 'flushed': 0}:
        raise GenError(f"{where}: `let mut printed/flushed: Count = 0` not found (got {inits})")
    return kind, atoms


def loop_arms(repo):
    src = strip_comments(open(os.path.join(repo, 'src/bin/s4.rs')).read())
    # drop cfg(s4_verif) hook statements (attribute + the statement it guards)
    src = re.sub(r'#\[cfg\(s4_verif\)\]\s*verif_hooks::\w+\([^;]*\);', '', src)
    _, body, _ = find_fn(src, 'processing_loop')
    for frag, what in ((r'let sepb_print: bool = !\s*sepb\.is_empty\(\);', 'sepb_print = !sepb.is_empty()'),
                       (r'let sepb: &\[u8\] = log_message_separator\.as_str\(\)\.as_bytes\(\);', 'sepb = the separator bytes'),
                       (r'let mut summaryprinted: SummaryPrinted = SummaryPrinted::default\(\);', 'summaryprinted = default()'),
                       (r'let mut map_pathid_sumpr = MapPathIdSummaryPrint::new\(\);', 'map_pathid_sumpr = new()')):
        if len(re.findall(frag, body)) != 1:
            raise GenError(f"processing_loop: `{what}` not found exactly once")
    ms = list(re.finditer(r'\bmatch log_message \{', body))
    if len(ms) != 1:
        raise GenError(f"processing_loop: {len(ms)} `match log_message {{` found, expected 1")
    b = ms[0].end() - 1
    inner = body[b + 1:match_close(body, b)]
    arms = {}
    for pat, val in match_arms(inner):
        k, atoms = loop_arm(pat, val, 'processing_loop')
        if k in arms:
            raise GenError(f"processing_loop: two arms for {k}")
        arms[k] = atoms
    if set(arms) != set(KINDS):
        raise GenError(f"processing_loop: arms {sorted(arms)}")
    # every other mention of the accounting state in processing_loop is the creation or the hand-over to print_summary
    outside = body[:b] + body[match_close(body, b):]
    for m in re.finditer(r'\b(summaryprinted|map_pathid_sumpr)\b([^;,\n]*)', outside):
        t = ws(m.group(0))
        if not re.fullmatch(r'(summaryprinted: SummaryPrinted = SummaryPrinted::default\(\)|map_pathid_sumpr = MapPathIdSummaryPrint::new\(\)|summaryprinted|map_pathid_sumpr)', t):
            raise GenError(f"processing_loop: the accounting state is used outside the print arms: `{t}`")
    return arms


# ---------------------------------------------------------------- readers

EVF = {'ts_first_processed': 'firstProcessed', 'ts_last_processed': 'lastProcessed',
       'ts_first_accepted': 'firstAccepted', 'ts_last_accepted': 'lastAccepted'}


def evtx_analyze(repo):
    src = strip_comments(open(os.path.join(repo, 'src/readers/evtxreader.rs')).read())
    fn = 'EvtxReader::analyze'
    _, body, _ = find_fn(src, 'analyze')
    sts = split_stmts(strip_macros(body), fn)
    fors = [s for s in sts if s[0] == 'for']
    if len(fors) != 1 or fors[0][1] != 'for (index, result) in self.evtxparser.records().enumerate()':
        raise GenError(f"{fn}: the record loop is not `for (index, result) in self.evtxparser.records().enumerate()`")
    for s in sts:
        if s[0] == 'simple' and not re.fullmatch(r'(let ts_filter_(after|before) = datetimelopt_to_timestampopt\(dt_filter_\2\)|'
                                                 r'let mut timestamp_last: TimestampOpt = TimestampOpt::None|self\.analyzed = true)', s[1]):
            raise GenError(f"{fn}: unexpected statement `{s[1]}` around the record loop")
    inner = split_stmts(fors[0][2], fn)
    if len(inner) != 1 or inner[0][:2] != ('match', 'match result'):
        raise GenError(f"{fn}: loop body is not `match result {{…}}`")
    arms = dict(match_arms(inner[0][2]))
    if set(arms) != {'Ok(record)', 'Err(err)'}:
        raise GenError(f"{fn}: arms {sorted(arms)}")
    if re.search(r'events_|ts_(first|last)_', arms['Err(err)']):
        raise GenError(f"{fn}: the Err arm touches the statistics")
    newvals = {'record.timestamp'}
    out = []
    for st in split_stmts(arms['Ok(record)'], fn):
        if st[0] == 'simple':
            t = st[1]
            m = re.fullmatch(r'self\.events_(processed|accepted) \+= (\d+)', t)
            if m:
                out.append(f'.add .{m.group(1)} {int(m.group(2))}')
                continue
            if t == 'let timestamp = record.timestamp':
                newvals.add('timestamp')
                continue
            if t in ('timestamp_last = Some(record.timestamp)', 'let evtx = Evtx::from_evtxrs(&record)'):
                continue
            if re.fullmatch(r'self\.events\.insert\(\(\s*timestamp\s*,\s*index\s*\)\s*,\s*evtx\s*\)', t) and 'timestamp' in newvals:
                out.append('.store')
                continue
            raise GenError(f"{fn}: statement `{t}` is outside the subset")
        if st[0] == 'if':
            if st[1] != 'if let Some(ts_last_) = timestamp_last.as_ref()' or re.search(r'events_|ts_(first|last)_(processed|accepted)|self\.events\b', st[2]):
                raise GenError(f"{fn}: `{st[1]}` is not the out-of-order counter block")
            continue
        if st[0] == 'match' and st[1].startswith('match self.'):
            out.append('.opt ' + lean_optmatch(parse_optmatch(st[1], st[2], EVF, newvals, fn), 'EvF'))
            continue
        if st[0] == 'match':
            if ws(st[1]) != 'match ts_pass_filters( &record.timestamp, &ts_filter_after, &ts_filter_before, )':
                raise GenError(f"{fn}: `{st[1]}` is not `match ts_pass_filters(&record.timestamp, &ts_filter_after, &ts_filter_before)`")
            res = {}
            for pat, val in match_arms(st[2]):
                m = re.fullmatch(r'Result_Filter_DateTime2::(InRange|BeforeRange|AfterRange)', pat)
                v = ws(strip_macros(val)).rstrip(';').strip()
                if not m or v not in ('', 'continue'):
                    raise GenError(f"{fn}: filter arm `{pat} => {v}`")
                res[m.group(1)] = 'true' if v == 'continue' else 'false'
            if set(res) != {'InRange', 'BeforeRange', 'AfterRange'}:
                raise GenError(f"{fn}: filter arms {sorted(res)}")
            out.append(f'.filter {res["InRange"]} {res["BeforeRange"]} {res["AfterRange"]}')
            continue
        raise GenError(f"{fn}: unexpected `{st[0]}` statement `{st[1]}`")
    # the initial values
    _, nb, _ = find_fn(src, 'new')
    for f in list(EVF) + ['events_processed', 'events_accepted']:
        want = r'TimestampOpt::None' if f.startswith('ts_') else '0'
        if not re.search(r'\b' + f + r':\s*' + want + r'\s*,', nb):
            raise GenError(f"EvtxReader::new: {f} is not initialised to {want}")
    return out


# ---------------------------------------------------------------- output

def generate(repo):
    ssrc = strip_comments(open(os.path.join(repo, 'src/printer/summary.rs')).read())
    m = re.search(r'#\[derive\(([^)]*)\)\]\s*pub struct SummaryPrinted\s*\{', ssrc)
    if not m or 'Default' not in [x.strip() for x in m.group(1).split(',')]:
        raise GenError("SummaryPrinted: `#[derive(… Default …)]` not found (processing_loop starts from SummaryPrinted::default())")
    sb = ssrc.find('{', m.end() - 1)
    fields = {}
    for f in split_top(ssrc[sb + 1:match_close(ssrc, sb)]):
        mm = re.fullmatch(r'pub (\w+): (\w+)', ws(f))
        if not mm:
            if ws(f):
                raise GenError(f"SummaryPrinted: field `{ws(f)}`")
            continue
        fields[mm.group(1)] = mm.group(2)
    want = {c: 'Count' for c in CTRS}
    want.update({'logmessagetype': 'LogMessageType', 'dt_first': 'DateTimeLOpt', 'dt_last': 'DateTimeLOpt'})
    if fields != want:
        raise GenError(f"SummaryPrinted: fields {fields} differ from the modelled {want}")
    dtf = {'dt_first': 'first', 'dt_last': 'last'}
    upd_dt = optmatches_of_fn(ssrc, 'summaryprint_update_dt', dtf, {'dt'}, 'summaryprint_update_dt')
    updates = {k: update_fn(ssrc, k) for k in KINDS}
    mapupds = {k: map_update_fn(ssrc, k) for k in KINDS}
    dispatch = dispatch_fn(ssrc)
    newvals = new_fn(ssrc)
    labels = summary_labels(ssrc)
    pf = perfile_dt_sources(ssrc)
    arms = loop_arms(repo)
    evtx = evtx_analyze(repo)
    fsrc = strip_comments(open(os.path.join(repo, 'src/readers/fixedstructreader.rs')).read())
    fixed = optmatches_of_fn(fsrc, 'dt_first_last_update', dtf, {'datetime'}, 'FixedStructReader::dt_first_last_update')
    jsrc = strip_comments(open(os.path.join(repo, 'src/readers/journalreader.rs')).read())
    journal = optmatches_of_fn(jsrc, 'em_first_last_update_accepted', {'ts_first_accepted': 'first', 'ts_last_accepted': 'last'},
                               {'em'}, 'JournalReader::em_first_last_update_accepted')
    csrc = strip_comments(open(os.path.join(repo, 'src/common.rs')).read())
    m = re.search(r'pub const NLu8a: \[u8; (\d+)\] = \[NLu8\];', csrc)
    if not m:
        raise GenError("common.rs: `pub const NLu8a: [u8; N] = [NLu8];` not found")
    nl_len = int(m.group(1))

    L = ['-- GENERATED by /verif/gen/s4gen.py (gen_summary.py) from src/printer/summary.rs, src/bin/s4.rs,',
         '-- src/readers/{evtxreader,fixedstructreader,journalreader}.rs — do not edit',
         'namespace S4V.Gen.Summary', '',
         '/-- the `Count` fields of `SummaryPrinted` -/',
         'inductive Ctr where', '  | ' + ' | '.join(CTRS), '  deriving DecidableEq, Repr', '',
         '/-- suffix of `summaryprint_update_*` / `summaryprint_map_update_*` / `print_*` -/',
         'inductive K where', '  | ' + ' | '.join(KINDS), '  deriving DecidableEq, Repr', '',
         '/-- right-hand sides of `+=` and call arguments: literal, the locals `printed`/`flushed`,',
         '`<msg>.count_lines()`, `sepb.len()`, `NLu8a.len()`, sums and products -/',
         'inductive Expr where',
         '  | lit (n : Nat) | printed | flushed | countLines | sepLen | nlLen',
         '  | add (a b : Expr) | mul (a b : Expr)',
         '  deriving DecidableEq, Repr', '',
         'inductive Cmp where', '  | lt | gt | le | ge', '  deriving DecidableEq, Repr', '',
         '/-- the `Some(b)` arm of `match self.F { Some(b) => …, None => … }`: `if L CMP R { self.G = Some(new); … }`',
         '(`newOnLeft`: the new value is `L` and `b` is `R`) or the assignments without a test -/',
         'inductive SomeArm (F : Type) where',
         '  | guarded (newOnLeft : Bool) (cmp : Cmp) (assigns : List F)',
         '  | plain (assigns : List F)',
         '  deriving Repr', '',
         'structure OptMatch (F : Type) where',
         '  scrut : F', '  someArm : SomeArm F', '  /-- fields assigned `Some(new)` in the `None` arm -/', '  noneArm : List F',
         '  deriving Repr', '',
         '/-- `dt_first` / `dt_last` (and the readers\' first/last pairs) -/',
         'inductive DtF where', '  | first | last', '  deriving DecidableEq, Repr', '',
         '/-- `SummaryPrinted::summaryprint_update_dt` -/',
         'def UPDATE_DT : List (OptMatch DtF) :=', '  [' + ',\n   '.join(lean_optmatch(x, 'DtF') for x in upd_dt) + ']', '',
         '/-- a statement of a `summaryprint_update_*` body: `self.C += e;` or `self.summaryprint_update_dt(<msg>.dt());` -/',
         'inductive Stmt where', '  | add (c : Ctr) (e : Expr)', '  | updateDt', '  deriving DecidableEq, Repr', '']
    for k in KINDS:
        L += [f'/-- `SummaryPrinted::summaryprint_update_{k}` -/', f'def UPDATE_{k.upper()} : List Stmt :=',
              '  [' + ', '.join(updates[k]) + ']', '']
    L += ['def UPDATE : K → List Stmt', *[f'  | .{k} => UPDATE_{k.upper()}' for k in KINDS], '',
          '/-- `<recv>.summaryprint_update_<fn>(<msg>, a1, a2)`: `a1` lands in the callee\'s `printed`, `a2` in its `flushed` -/',
          'structure Call where', '  fn : K', '  a1 : Expr', '  a2 : Expr', '  deriving DecidableEq, Repr', '',
          '/-- `match map_.get_mut(pathid) { Some(sp) => { someCalls } None => { let mut sp = SummaryPrinted::new(newType);',
          'noneCalls; map_.insert(*pathid, sp) } }` -/',
          'structure MapUpd where', '  someCalls : List Call', '  newType : K', '  noneCalls : List Call', '  inserts : Bool',
          '  deriving DecidableEq, Repr', '']
    for k in KINDS:
        L += [f'/-- `SummaryPrinted::summaryprint_map_update_{k}` -/', f'def MAP_UPDATE_{k.upper()} : MapUpd :=', '  ' + mapupds[k], '']
    L += ['def MAP_UPDATE : K → MapUpd', *[f'  | .{k} => MAP_UPDATE_{k.upper()}' for k in KINDS], '',
          '/-- `SummaryPrinted::_summaryprint_map_update`: `LogMessage` variant ↦ the `summaryprint_map_update_*` it calls',
          'with `(msg, pathid, map_, a1, a2)` -/',
          'def MAP_DISPATCH : List (K × Call) :=', '  [' + ', '.join(dispatch) + ']', '',
          '/-- `SummaryPrinted::new`: counter initial values (`dt_first`, `dt_last` are `None`: checked) -/',
          'def NEW : List (Ctr × Nat) := [' + ', '.join(f'(.{c}, {v})' for c, v in newvals) + ']', '',
          '/-- `NLu8a.len()` -/', f'def NL_LEN : Nat := {nl_len}', '',
          '/-- what a line of the program summary prints -/',
          'inductive Shown where', '  | ctr (c : Ctr) | dt (f : DtF)', '  deriving DecidableEq, Repr', '',
          '/-- `print_summary`: label ↦ field of `summaryprinted` -/',
          'def SUMMARY_LABELS : List (String × Shown) :=',
          '  [' + ',\n   '.join(f'({lean_str(a)}, .{b})' for a, b in labels) + ']', '',
          '/-- `SummaryPrinted::print_colored_stderr`, per-file `Printed:` section of an evtx / journal file: the',
          '`datetime first` / `datetime last` lines print the READER\'s first/last *accepted* (`true`) or *processed* datetime,',
          'not `self.dt_first` / `self.dt_last` -/',
          f'def PERFILE_EVTX_DT_IS_ACCEPTED : Bool × Bool := ({"true" if pf[("evtx", "first")] == "accepted" else "false"}, {"true" if pf[("evtx", "last")] == "accepted" else "false"})',
          f'def PERFILE_JOURNAL_DT_IS_ACCEPTED : Bool × Bool := ({"true" if pf[("journal", "first")] == "accepted" else "false"}, {"true" if pf[("journal", "last")] == "accepted" else "false"})',
          '',
          '/-! ### `processing_loop`: the arms of `match log_message` -/', '',
          '/-- `sepb_print` (= `!sepb.is_empty()`: checked), `cli_opt_summary`, `is_last`, `(*syslinep).ends_with_newline()` -/',
          'inductive CVar where', '  | sepbPrint | summary | isLast | endsNL', '  deriving DecidableEq, Repr', '',
          'structure Cond where', '  neg : Bool', '  v : CVar', '  deriving DecidableEq, Repr', '',
          'inductive Out where', '  | sepb | nl', '  deriving DecidableEq, Repr', '',
          '/-- `printCall fn printedFirst`: `match printer.print_<fn>(msg) { Ok((a, b)) => { printed = a; flushed = b } Err(_) => {…} }`',
          '(`printedFirst = false`: `printed = b; flushed = a`); before it `let mut printed: Count = 0; let mut flushed: Count = 0;`',
          '(checked) and the `Err` arm leaves both untouched (checked). `write`: `write_stdout(sepb)` / `write_stdout(&NLu8a)`.',
          '`add`: `summaryprinted.C += e`. `notePath`: `paths_printed_logmessages.insert(*pathid)`.',
          '`mapUpdate fn a1 a2`: `SummaryPrinted::summaryprint_map_update_<fn>(msg, pathid, &mut map_pathid_sumpr, a1, a2)`.',
          '`totalUpdate fn a1 a2`: `summaryprinted.summaryprint_update_<fn>(msg, a1, a2)`. -/',
          'inductive Atom where',
          '  | printCall (fn : K) (printedFirst : Bool)', '  | write (o : Out)', '  | add (c : Ctr) (e : Expr)', '  | notePath',
          '  | mapUpdate (fn : K) (a1 a2 : Expr)', '  | totalUpdate (fn : K) (a1 a2 : Expr)',
          '  deriving DecidableEq, Repr', '',
          '/-- a statement with the conjunction of the `if` conditions around it (outermost first) -/',
          'structure GAtom where', '  conds : List Cond', '  atom : Atom', '  deriving DecidableEq, Repr', '']
    for k in KINDS:
        L += [f'/-- arm `LogMessage::{[v for v, kk in VARIANT.items() if kk == k][0]}` -/', f'def LOOP_{k.upper()} : List GAtom :=',
              '  [' + ',\n   '.join(f'⟨[{", ".join(c)}], {a}⟩' for c, a in arms[k]) + ']', '']
    L += ['def LOOP : K → List GAtom', *[f'  | .{k} => LOOP_{k.upper()}' for k in KINDS], '',
          '/-! ### readers -/', '',
          'inductive EvF where', '  | firstProcessed | lastProcessed | firstAccepted | lastAccepted', '  deriving DecidableEq, Repr', '',
          'inductive EvC where', '  | processed | accepted', '  deriving DecidableEq, Repr', '',
          '/-- a statement of the `Ok(record)` arm of the loop of `EvtxReader::analyze`: `self.events_<c> += n`; an option-min/max',
          'match on a `ts_*` field (new value: `record.timestamp`); `match ts_pass_filters(&record.timestamp, &ts_filter_after,',
          '&ts_filter_before)` with, per result InRange / BeforeRange / AfterRange, whether the arm `continue`s;',
          '`self.events.insert((timestamp, index), evtx)` -/',
          'inductive RStmt where',
          '  | add (c : EvC) (n : Nat)', '  | opt (m : OptMatch EvF)', '  | filter (inRange before after : Bool)', '  | store',
          '  deriving Repr', '',
          'def EVTX_ANALYZE : List RStmt :=', '  [' + ',\n   '.join(evtx) + ']', '',
          '/-- `FixedStructReader::dt_first_last_update` -/',
          'def FIXED_DT_FIRST_LAST : List (OptMatch DtF) :=', '  [' + ',\n   '.join(lean_optmatch(x, 'DtF') for x in fixed) + ']', '',
          '/-- `JournalReader::em_first_last_update_accepted` -/',
          'def JOURNAL_ACCEPTED_FIRST_LAST : List (OptMatch DtF) :=', '  [' + ',\n   '.join(lean_optmatch(x, 'DtF') for x in journal) + ']', '',
          'end S4V.Gen.Summary']
    info = {'update_stmts': sum(len(v) for v in updates.values()), 'loop_atoms': sum(len(v) for v in arms.values()),
            'evtx_stmts': len(evtx), 'labels': len(labels)}
    return '\n'.join(L) + '\n', info
