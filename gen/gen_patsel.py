"""Generate S4V/Gen/PatSel.lean: the facts of src/readers/syslinereader.rs and
src/readers/syslogprocessor.rs that decide WHICH datetime pattern a text log is read with
(`dt_patterns_counts`, `parse_datetime_in_line`, `dt_patterns_update`, `dt_patterns_analysis`,
`parse_datetime_in_line_cached`, `LRU_cache_disable`, `clear_syslines`, `remove_sysline`,
`blockzero_analysis_syslines`), as constants the hand model `S4V.Model.PatSel` consumes.

Each function body (comments and trace macros removed, whitespace flattened) must contain the
literal shapes below, otherwise GenError. Where an edit is plausible (ascending instead of
descending sort, `pop_first` instead of `pop_last`, `>` instead of `>=` in the retain, a different
capacity, a disabled cache, counting on a cache hit, a different re-parse threshold) the shape is
translated into a constant instead, so the edit regenerates a different model and the proofs that
unfold the constant fail.
"""
import os
import re
from rs import GenError, strip_comments, find_fn, int_lit
from gen_path import strip_trace
from gen_consts import cint


def need(cond, msg):
    if not cond:
        raise GenError(msg)


def flat(s):
    s = re.sub(r'\s+', ' ', strip_trace(s)).strip()
    s = re.sub(r' ?\. ?(?=\w)', '.', s)   # method chains broken over lines
    s = re.sub(r'\( ', '(', s)
    s = re.sub(r' \)', ')', s)
    s = re.sub(r',\s*\)', ')', s)
    s = re.sub(r',\s*\}', ' }', s)
    return s


def cbool(src, name, where):
    m = re.search(r'\bconst\s+' + name + r'\s*:\s*bool\s*=\s*(true|false)\s*;', src)
    need(m, f'{where}: const {name}: bool not found')
    return m.group(1) == 'true'


def lean_bool(b):
    return 'true' if b else 'false'


def sort_dir(body, where):
    """the comparator of `self.dt_patterns_counts.iter().sorted_by(|a, b| Ord::cmp(&X.1, &Y.1))`"""
    m = re.search(r'self\.dt_patterns_counts\.iter\(\)\.sorted_by\(\|a, b\| Ord::cmp\(&(a|b)\.1, &(a|b)\.1\)\)\.map\(\|\(k, _v\)\| k\)', body)
    need(m, f'{where}: `dt_patterns_counts.iter().sorted_by(|a, b| Ord::cmp(&_.1, &_.1)).map(|(k, _v)| k)` not found')
    need(m.group(1) != m.group(2), f'{where}: comparator compares an element with itself')
    return m.group(1) == 'b'   # cmp(b, a) = descending


def generate(repo):
    sr = strip_comments(open(os.path.join(repo, 'src/readers/syslinereader.rs')).read())
    sp = strip_comments(open(os.path.join(repo, 'src/readers/syslogprocessor.rs')).read())
    dd = strip_comments(open(os.path.join(repo, 'src/data/datetime.rs')).read())

    n_rows = cint(dd, 'DATETIME_PARSE_DATAS_LEN', 'datetime.rs')
    pat_max = cint(sr, 'DT_PATTERN_MAX', 'syslinereader.rs')
    need(pat_max >= 1, 'DT_PATTERN_MAX < 1')
    cap = cint(sr, 'PARSE_DATETIME_IN_LINE_LRU_CACHE_SZ', 'syslinereader.rs')
    need(cap >= 1, 'PARSE_DATETIME_IN_LINE_LRU_CACHE_SZ < 1')
    en_slr = cbool(sr, 'CACHE_ENABLE_DEFAULT', 'syslinereader.rs')
    en_sp = cbool(sp, 'LRU_CACHE_ENABLE', 'syslogprocessor.rs')

    # -- SyslineReader::new: every index gets count 0, and the cache flag is the default
    _, new, _ = find_fn(sr, 'new')
    new = flat(new)
    need(re.search(r'let mut index = 0; while index < DATETIME_PARSE_DATAS_LEN \{ dt_patterns_counts\.insert\(index as DateTimeParseInstrsIndex, 0\); '
                   r'dt_patterns_indexes\.push\(index as DateTimeParseInstrsIndex\); index \+= 1; \}', new),
         'SyslineReader::new: the loop `insert(index, 0)` for index < DATETIME_PARSE_DATAS_LEN not found')
    need('parse_datetime_in_line_lru_cache_enabled: SyslineReader::CACHE_ENABLE_DEFAULT' in new,
         'SyslineReader::new: parse_datetime_in_line_lru_cache_enabled is not CACHE_ENABLE_DEFAULT')
    need(re.search(r'parse_datetime_in_line_lru_cache: LineParsedCache::new\(std::num::NonZeroUsize::new\(SyslineReader::PARSE_DATETIME_IN_LINE_LRU_CACHE_SZ\)\.unwrap\(\)\)', new),
         'SyslineReader::new: the parse cache capacity is not PARSE_DATETIME_IN_LINE_LRU_CACHE_SZ')
    need('analyzed: false' in new, 'SyslineReader::new: analyzed is not false')
    # -- SyslogProcessor::new disables the caches iff !LRU_CACHE_ENABLE
    _, spnew, _ = find_fn(sp, 'new')
    need(re.search(r'if !SyslogProcessor::LRU_CACHE_ENABLE \{ slr\.LRU_cache_disable\(\);', flat(spnew)),
         'SyslogProcessor::new: `if !SyslogProcessor::LRU_CACHE_ENABLE { slr.LRU_cache_disable(); …` not found')

    # -- parse_datetime_in_line: order, first match, update only on success
    _, pdl, _ = find_fn(sr, 'parse_datetime_in_line')
    pdl = flat(pdl)
    desc = sort_dir(pdl, 'parse_datetime_in_line')
    need(re.search(r'let result: ResultFindDateTime = SyslineReader::find_datetime_in_line\(line, &indexes,', pdl),
         'parse_datetime_in_line: find_datetime_in_line(line, &indexes, …) not found')
    need(re.search(r'let data: FindDateTimeData = match result \{ Ok\(val\) => val, Err\(err\) => \{ return ResultParseDateTime::Err\(err\); \} \}; '
                   r'self\.dt_patterns_update\(data\.3\);', pdl),
         'parse_datetime_in_line: `Err => return Err; self.dt_patterns_update(data.3)` not found')

    # -- find_datetime_in_line: too-short rule, rows in the given order, first success returns
    _, fdl, _ = find_fn(sr, 'find_datetime_in_line')
    fdl = flat(fdl)
    m = re.search(r'if line\.len\(\) (<|<=) SyslineReader::DATETIME_STR_MIN \{ return ResultFindDateTime::Err\(', fdl)
    need(m, 'find_datetime_in_line: the DATETIME_STR_MIN early return not found')
    short_strict = m.group(1) == '<'
    need(re.search(r'for \(_try, index\) in parse_data_indexes\.iter\(\)\.enumerate\(\) \{ let dtpd: &DateTimeParseInstr = &DATETIME_PARSE_DATAS\[\*index\];', fdl),
         'find_datetime_in_line: the loop over parse_data_indexes in order not found')
    need(re.search(r'match bytes_to_regex_to_datetime\(slice_, index, year_opt, tz_offset, tz_offset_string, (#\[cfg\(any\(debug_assertions, test\)\)\] path)?,?\s*\) '
                   r'\{ None => continue, Some\(val\) => val \}; return ResultFindDateTime::Ok\(\(dt_beg, dt_end, dt, \*index\)\);', fdl),
         'find_datetime_in_line: `match bytes_to_regex_to_datetime(…) { None => continue, Some(val) => val }; return Ok((…, *index))` not found')

    # -- dt_patterns_update: the count is incremented even after analysis
    _, upd, _ = find_fn(sr, 'dt_patterns_update')
    upd = flat(upd)
    need(re.search(r'match self\.dt_patterns_counts\.get_mut\(&index\) \{ Some\(counter\) => \{ \*counter \+= 1; \}', upd),
         'dt_patterns_update: `*counter += 1` not found')

    # -- dt_patterns_analysis
    _, ana, _ = find_fn(sr, 'dt_patterns_analysis')
    ana = flat(ana)
    need(re.search(r'let max_ = self\.dt_patterns_counts\.iter\(\)\.fold\(std::u64::MIN, \|a, b\| a\.max\(\*\(b\.1\)\)\); if max_ == 0 \{ return false; \}', ana),
         'dt_patterns_analysis: max fold / `if max_ == 0 { return false; }` not found')
    m = re.search(r'self\.dt_patterns_counts\.retain\(\|_, v\| \*v (>=|>|==) max_\);', ana)
    need(m, 'dt_patterns_analysis: retain(|_, v| *v >= max_) not found')
    need(m.group(1) in ('>=', '=='), 'dt_patterns_analysis: retain keeps nothing (`> max_`)')
    m = re.search(r'while self\.dt_patterns_counts\.len\(\) > SyslineReader::DT_PATTERN_MAX \{ let rm_key: DateTimeParseInstrsIndex = '
                  r'self\.dt_patterns_counts\.(pop_last|pop_first)\(\)\.unwrap\(\)\.0; self\.dt_patterns_counts\.remove\(&rm_key\); \}', ana)
    need(m, 'dt_patterns_analysis: the `while len > DT_PATTERN_MAX { pop_last }` loop not found')
    keeps_lowest = m.group(1) == 'pop_last'
    need(re.search(r'self\.dt_patterns_indexes_refresh\(\);.*self\.analyzed = true; true$', ana),
         'dt_patterns_analysis: `analyzed = true; true` at the end not found')
    ana_clears = 'lru_cache' in ana.lower()

    # -- parse_datetime_in_line_cached
    _, pdc, _ = find_fn(sr, 'parse_datetime_in_line_cached')
    pdc = flat(pdc)
    need(re.search(r'^if self\.parse_datetime_in_line_lru_cache_enabled \{ match self\.parse_datetime_in_line_lru_cache\.get\(&linep\.fileoffset_begin\(\)\) \{ '
                   r'Some\(val\) => \{ self\.parse_datetime_in_line_lru_cache_hit \+= 1; return ResultParseDateTime::Ok\(\*val\); \}', pdc),
         'parse_datetime_in_line_cached: the cache-hit early return keyed by linep.fileoffset_begin() not found')
    need(re.search(r'let result: ResultParseDateTime = self\.parse_datetime_in_line\(&\*linep, charsz, year_opt\); '
                   r'if self\.parse_datetime_in_line_lru_cache_enabled \{ match result \{ Ok\(val\) => \{ match self\.parse_datetime_in_line_lru_cache\.put\(linep\.fileoffset_begin\(\), val\)', pdc),
         'parse_datetime_in_line_cached: `put(fileoffset_begin, val)` on Ok only not found')

    # -- who clears the parse cache
    _, dis, _ = find_fn(sr, 'LRU_cache_disable')
    dis = flat(dis)
    dis_clears = bool(re.search(r'self\.parse_datetime_in_line_lru_cache_enabled = false; self\.parse_datetime_in_line_lru_cache\.clear\(\);', dis))
    _, ena, _ = find_fn(sr, 'LRU_cache_enable')
    ena = flat(ena)
    need(re.search(r'if !self\.parse_datetime_in_line_lru_cache_enabled \{ self\.parse_datetime_in_line_lru_cache_enabled = true; self\.parse_datetime_in_line_lru_cache\.clear\(\);', ena),
         'LRU_cache_enable: shape changed')
    _, cls, _ = find_fn(sr, 'clear_syslines')
    cls = flat(cls)
    cls_clears = dis_clears and bool(re.search(r'^let cache_enable = self\.LRU_cache_disable\(\);.*if cache_enable \{ self\.LRU_cache_enable\(\); \}$', cls))
    _, rms, _ = find_fn(sr, 'remove_sysline')
    rms = flat(rms)
    rms_clears = dis_clears and bool(re.search(r'^let cache_enable = self\.LRU_cache_disable\(\);', rms)) and \
        bool(re.search(r'if cache_enable \{ self\.LRU_cache_enable\(\); \}', rms))

    # -- process_missing_year: clear_syslines first; remove_sysline right after the year changes
    _, pmy, _ = find_fn(sp, 'process_missing_year')
    pmy = flat(pmy)
    year_start_clears = bool(re.search(r'let charsz_fo: FileOffset = self\.charsz\(\) as FileOffset; self\.syslinereader\.clear_syslines\(\); '
                                       r'let mut fo_prev: FileOffset = self\.fileoffset_last\(\);', pmy))
    year_step_clears = bool(re.search(r'year_opt = Some\(year_opt\.unwrap\(\) - 1\); self\.syslinereader\.remove_sysline\(fo_prev\);', pmy))
    need(len(re.findall(r'year_opt = ', pmy)) == 1 and len(re.findall(r'let mut year_opt', pmy)) == 1,
         'process_missing_year: year_opt is assigned somewhere else than the one step')

    # -- blockzero_analysis_syslines: analysis after the first pass; re-parse when more than N rows were used
    _, bzs, _ = find_fn(sp, 'blockzero_analysis_syslines')
    bzs = flat(bzs)
    m = re.search(r'let patt_count_a = self\.syslinereader\.dt_patterns_counts_in_use\(\); if !self\.syslinereader\.dt_patterns_analysis\(\) \{ '
                  r'return FileProcessingResultBlockZero::FileErrNoSyslinesFound; \}.*?if patt_count_a > (\d+) \{ self\.syslinereader\.clear_syslines\(\); found = 0; fo = 0; while', bzs)
    need(m, 'blockzero_analysis_syslines: `patt_count_a … dt_patterns_analysis() … if patt_count_a > N { clear_syslines(); found = 0; fo = 0; while …` not found')
    reparse_above = int(m.group(1))
    need(len(re.findall(r'while found < found_min && self\.syslinereader\.block_offset_at_file_offset\(fo\) == 0 \{ fo = match self\.syslinereader\.find_sysline_in_block\(fo\)', bzs)) == 2,
         'blockzero_analysis_syslines: the two `while found < found_min && block_offset(fo) == 0` passes not found')
    need(len(re.findall(r'\.\s*dt_patterns_analysis\(\)', sp)) == 1 and len(re.findall(r'\.\s*dt_patterns_analysis\(\)', sr)) == 0,
         'dt_patterns_analysis is called from more than one place')
    _, inuse, _ = find_fn(sr, 'dt_patterns_counts_in_use')
    need(re.search(r'self\.dt_patterns_counts\.iter\(\)\.filter\(\|\(_index, count\)\| count > &&0\)\.count\(\)', flat(inuse)),
         'dt_patterns_counts_in_use: shape changed')

    L = ['-- GENERATED by /verif/gen/s4gen.py (gen_patsel.py) — do not edit',
         'namespace S4V.Gen.PatSel', '',
         '/-- `DATETIME_PARSE_DATAS_LEN`: `SyslineReader::new` gives every index `0 … LEN-1` the count 0 -/',
         f'def N_ROWS : Nat := {n_rows}',
         '/-- `SyslineReader::DT_PATTERN_MAX` -/',
         f'def DT_PATTERN_MAX : Nat := {pat_max}',
         '/-- `parse_datetime_in_line`: rows are tried in `sorted_by(cmp(b.1, a.1))` order = count descending (stable) -/',
         f'def TRY_ORDER_DESC : Bool := {lean_bool(desc)}',
         '/-- `find_datetime_in_line`: `line.len() < DATETIME_STR_MIN` (strict) is the too-short test -/',
         f'def SHORT_TEST_STRICT : Bool := {lean_bool(short_strict)}',
         '/-- `dt_patterns_analysis`: the tie loop is `pop_last` (keeps the LOWEST index) -/',
         f'def TIE_KEEPS_LOWEST : Bool := {lean_bool(keeps_lowest)}',
         '/-- `dt_patterns_analysis` itself touches the parse LRU cache -/',
         f'def ANALYSIS_CLEARS_PARSE_CACHE : Bool := {lean_bool(ana_clears)}',
         '/-- `PARSE_DATETIME_IN_LINE_LRU_CACHE_SZ` -/',
         f'def PARSE_LRU_CAP : Nat := {cap}',
         '/-- `SyslineReader::CACHE_ENABLE_DEFAULT && SyslogProcessor::LRU_CACHE_ENABLE` -/',
         f'def PARSE_CACHE_ENABLED : Bool := {lean_bool(en_slr and en_sp)}',
         '/-- `clear_syslines` empties the parse LRU cache (via `LRU_cache_disable`) -/',
         f'def CLEAR_SYSLINES_CLEARS_PARSE_CACHE : Bool := {lean_bool(cls_clears)}',
         '/-- `remove_sysline` empties the parse LRU cache (via `LRU_cache_disable`) -/',
         f'def REMOVE_SYSLINE_CLEARS_PARSE_CACHE : Bool := {lean_bool(rms_clears)}',
         '/-- `process_missing_year` calls `clear_syslines` before its first parse with the file year -/',
         f'def YEAR_START_CLEARS : Bool := {lean_bool(year_start_clears and cls_clears)}',
         '/-- `process_missing_year`: `year_opt = year - 1` is immediately followed by `remove_sysline` -/',
         f'def YEAR_STEP_CLEARS : Bool := {lean_bool(year_step_clears and rms_clears)}',
         '/-- `blockzero_analysis_syslines`: block zero is parsed again when more than this many rows were in use -/',
         f'def REPARSE_IF_ROWS_ABOVE : Nat := {reparse_above}',
         '', 'end S4V.Gen.PatSel']
    return '\n'.join(L) + '\n', {'constants': 13}
